#![no_main]
// C16: second-generation parse tree against the first-generation tree  (oracle inside the target)
libfuzzer_sys::fuzz_target!(|data: &[u8]| {
	pv::engine::fuzz_one(&pv::c16::C16, data);
});
