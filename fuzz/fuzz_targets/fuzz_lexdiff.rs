#![no_main]
// C14: both lexers against the reference lexer on any text  (oracle inside the target)
libfuzzer_sys::fuzz_target!(|data: &[u8]| {
	pv::engine::fuzz_one(&pv::c14::C14, data);
});
