#![no_main]
// C20: rebuilt source parses back to the same tree  (oracle inside the target)
libfuzzer_sys::fuzz_target!(|data: &[u8]| {
	pv::engine::fuzz_one(&pv::c20::C20, data);
});
