#![no_main]
// C15: the second-generation front end on arbitrary bytes (oracle inside the target)
libfuzzer_sys::fuzz_target!(|data: &[u8]| {
	pv::engine::fuzz_one(&pv::c15::C15, data);
});
