//! The first-generation pipeline, driven through penne's public library API
//! exactly in the order of src/main.rs::compile_to_ir_using_alpha.

use penne::alpha::{expander, lexer, parser, resolver, scoper, Compiler};
use serde_json::{json, Value};

#[derive(Debug, Default, Clone)]
pub struct Diag
{
	pub code: u16,
	pub file: String,
	pub line: usize,
	pub start: usize,
	pub end: usize,
}

#[derive(Debug, Default)]
pub struct Outcome
{
	/// true = compilation succeeded
	pub ok: bool,
	pub codes: Vec<u16>,
	pub diags: Vec<Diag>,
	/// lints per module, in module order
	pub lints: Vec<Diag>,
	/// furthest stage reached
	pub stage: &'static str,
	/// IR text per module (in module order) when requested
	pub module_irs: Vec<String>,
	pub linked_ir: Option<String>,
	/// `Err(anyhow)` from the generator or Compiler
	pub internal_error: Option<String>,
	pub resolved: Vec<Vec<penne::alpha::resolved::Declaration>>,
	/// the diagnostics themselves (errors, or lints of accepted modules)
	pub raw: Vec<penne::alpha::Error>,
}

impl Outcome
{
	pub fn lint_codes(&self) -> Vec<u16>
	{
		self.lints.iter().map(|d| d.code).collect()
	}
	pub fn summary(&self) -> Value
	{
		json!({"ok": self.ok, "codes": self.codes, "lints": self.lint_codes(), "stage": self.stage, "internal_error": self.internal_error})
	}
}

fn diag_of(e: &penne::alpha::Error) -> Diag
{
	let loc = e.verif_location();
	Diag {
		code: e.code(),
		file: loc.source_filename.clone(),
		line: loc.line_number,
		start: loc.span.start,
		end: loc.span.end,
	}
}

#[derive(Clone, Copy, Default)]
pub struct Options
{
	pub wasm: bool,
	pub keep_resolved: bool,
	pub want_ir: bool,
	pub link: bool,
}

/// When a single case is re-run (shrinking, replay), the input is written to
/// a scratch file first, so that the driver can show it if the compiler
/// kills the worker.
pub fn record_input(files: &[(String, String)])
{
	if let Ok(path) = std::env::var("PV_RECORD_INPUT")
	{
		let text = serde_json::to_string(
			&files
				.iter()
				.map(|(n, s)| serde_json::json!({"file": n, "source": s}))
				.collect::<Vec<_>>(),
		)
		.unwrap_or_default();
		let _ = std::fs::write(path, text);
	}
}

/// Compile a set of modules (name, source) in the given order.
pub fn compile_modules(files: &[(String, String)], opts: Options) -> Outcome
{
	record_input(files);
	let mut out = Outcome::default();
	out.stage = "lex";
	let mut modules = Vec::new();
	for (name, source) in files
	{
		let tokens = lexer::lex(source, name);
		let declarations = parser::parse(tokens);
		let path: std::path::PathBuf = name.into();
		modules.push((path, declarations));
	}
	out.stage = "expand";
	expander::expand(&mut modules);
	let mut surface = Vec::new();
	for (_p, declarations) in &modules
	{
		if let Err(errors) = resolver::check_surface_level_errors(declarations)
		{
			surface.push(errors);
			// main.rs stops at the first module with surface errors
			break;
		}
	}
	if let Some(errors) = surface.into_iter().next()
	{
		out.stage = "surface";
		out.codes = errors.codes();
		out.diags = errors.errors.iter().map(diag_of).collect();
		out.raw = errors.errors;
		return out;
	}
	let mut compiler = Compiler::default();
	if opts.wasm
	{
		if let Err(e) = compiler.for_wasm()
		{
			out.internal_error = Some(format!("for_wasm: {}", e));
			return out;
		}
	}
	for (path, declarations) in modules
	{
		let filename = path.to_string_lossy().to_string();
		out.stage = "scope";
		let declarations = scoper::analyze(declarations);
		if let Err(e) = compiler.add_module(&filename)
		{
			out.internal_error = Some(format!("add_module: {}", e));
			return out;
		}
		out.stage = "resolve";
		let resolved = match compiler.analyze_and_resolve(declarations)
		{
			Ok(r) => r,
			Err(e) =>
			{
				out.internal_error = Some(format!("analyze_and_resolve: {}", e));
				return out;
			}
		};
		let declarations = match resolved
		{
			Ok(d) => d,
			Err(errors) =>
			{
				out.codes = errors.codes();
				out.diags = errors.errors.iter().map(diag_of).collect();
				out.raw = errors.errors;
				return out;
			}
		};
		for l in compiler.take_lints()
		{
			out.lints.push(diag_of(&l));
			out.raw.push(l);
		}
		out.stage = "generate";
		if let Err(e) = compiler.compile(&declarations)
		{
			out.internal_error = Some(format!("compile: {}", e));
			return out;
		}
		if opts.want_ir
		{
			match compiler.generate_ir()
			{
				Ok(ir) => out.module_irs.push(ir),
				Err(e) =>
				{
					out.internal_error = Some(format!("generate_ir: {}", e));
					return out;
				}
			}
		}
		if opts.keep_resolved
		{
			out.resolved.push(declarations);
		}
	}
	if opts.link
	{
		out.stage = "link";
		if let Err(e) = compiler.link_modules()
		{
			out.internal_error = Some(format!("link_modules: {}", e));
			return out;
		}
		match compiler.generate_ir()
		{
			Ok(ir) => out.linked_ir = Some(ir),
			Err(e) =>
			{
				out.internal_error = Some(format!("generate_ir(linked): {}", e));
				return out;
			}
		}
	}
	out.stage = "done";
	out.ok = true;
	out
}

pub fn compile_one(source: &str, opts: Options) -> Outcome
{
	compile_modules(&[("main.pn".to_string(), source.to_string())], opts)
}

/// Front end only (no IR generation): verdict, codes, lints — the body of
/// `compile_source` plus `take_lints`.
pub fn analyze_one(source: &str) -> Outcome
{
	record_input(&[("main.pn".to_string(), source.to_string())]);
	let mut out = Outcome::default();
	let name = "main.pn";
	let tokens = lexer::lex(source, name);
	let declarations = parser::parse(tokens);
	let declarations = expander::expand_one(name, declarations);
	if let Err(errors) = resolver::check_surface_level_errors(&declarations)
	{
		out.stage = "surface";
		out.codes = errors.codes();
		out.diags = errors.errors.iter().map(diag_of).collect();
		return out;
	}
	let declarations = scoper::analyze(declarations);
	let mut compiler = Compiler::default();
	if let Err(e) = compiler.add_module(name)
	{
		out.internal_error = Some(format!("add_module: {}", e));
		return out;
	}
	out.stage = "resolve";
	match compiler.analyze_and_resolve(declarations)
	{
		Err(e) =>
		{
			out.internal_error = Some(format!("analyze_and_resolve: {}", e));
		}
		Ok(Err(errors)) =>
		{
			out.codes = errors.codes();
			out.diags = errors.errors.iter().map(diag_of).collect();
		}
		Ok(Ok(_d)) =>
		{
			for l in compiler.take_lints()
			{
				out.lints.push(diag_of(&l));
			}
			out.ok = true;
			out.stage = "done";
		}
	}
	out
}

pub struct RunResult
{
	pub stdout: Vec<u8>,
	pub stderr: Vec<u8>,
	pub status: Option<i32>,
	pub timed_out: bool,
}

/// Execute IR text with lli, the way `penne run` does (IR on stdin).
pub fn run_ir(ir: &str, timeout_s: u32) -> RunResult
{
	use std::io::Write;
	let lli = std::env::var("PENNE_LLI").unwrap_or_else(|_| "lli-14".to_string());
	let mut child = match std::process::Command::new("timeout")
		.arg(format!("{}", timeout_s))
		.arg(&lli)
		.stdin(std::process::Stdio::piped())
		.stdout(std::process::Stdio::piped())
		.stderr(std::process::Stdio::piped())
		.spawn()
	{
		Ok(c) => c,
		Err(e) =>
		{
			return RunResult {
				stdout: Vec::new(),
				stderr: format!("cannot spawn lli: {}", e).into_bytes(),
				status: None,
				timed_out: false,
			}
		}
	};
	{
		let mut stdin = child.stdin.take().unwrap();
		let _ = stdin.write_all(ir.as_bytes());
	}
	let output = child.wait_with_output().expect("lli wait");
	let status = output.status.code();
	RunResult {
		stdout: output.stdout,
		stderr: output.stderr,
		status,
		timed_out: status == Some(124),
	}
}
