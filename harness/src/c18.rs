//! C18 — the command line tool reports outcomes faithfully.

use crate::alpha;
use crate::ast::{print_program, Layout};
use crate::choices::{fnv, Choices};
use crate::cli::penne_bin;
use crate::engine::*;
use crate::interp;
use crate::modsplit;
use crate::mutgen;
use crate::progen;
use serde_json::json;
use std::os::unix::fs::PermissionsExt;
use std::path::{Path, PathBuf};

pub struct C18;

fn write_script(dir: &Path, name: &str, marker: &str, status: i32) -> PathBuf
{
	if status == HASTY_STATUS
	{
		// a backend that fails at once, without reading the IR it is sent
		let path = dir.join(name);
		let text = format!("#!/bin/sh\necho \"{}\" >> \"{}/ran.txt\"\nexit {}\n", marker, dir.display(), status);
		std::fs::write(&path, text).expect("script");
		let mut perm = std::fs::metadata(&path).unwrap().permissions();
		perm.set_mode(0o755);
		std::fs::set_permissions(&path, perm).unwrap();
		return path;
	}
	let path = dir.join(name);
	let text = format!(
		"#!/bin/sh\necho \"{}\" >> \"{}/ran.txt\"\necho \"$@\" > \"{}/{}.args\"\ncat > \"{}/{}.stdin\"\nexit {}\n",
		marker,
		dir.display(),
		dir.display(),
		marker,
		dir.display(),
		marker,
		status
	);
	std::fs::write(&path, text).expect("script");
	let mut perm = std::fs::metadata(&path).unwrap().permissions();
	perm.set_mode(0o755);
	std::fs::set_permissions(&path, perm).unwrap();
	path
}

/// exit status of the backend that does not read its input
const HASTY_STATUS: i32 = 9;

struct Invocation
{
	argv: Vec<String>,
	env: Vec<(String, String)>,
	path_prefix: Option<PathBuf>,
}

struct Ran
{
	status: Option<i32>,
	stdout: Vec<u8>,
	stderr: Vec<u8>,
}

fn run(inv: &Invocation, cwd: &Path) -> Result<Ran, String>
{
	let mut cmd = std::process::Command::new("timeout");
	cmd.arg("60").arg(penne_bin());
	cmd.args(&inv.argv);
	cmd.current_dir(cwd);
	cmd.env_remove("PENNE_BACKEND").env_remove("PENNE_LLI").env_remove("RUST_BACKTRACE");
	for (k, v) in &inv.env
	{
		cmd.env(k, v);
	}
	if let Some(p) = &inv.path_prefix
	{
		let old = std::env::var("PATH").unwrap_or_default();
		cmd.env("PATH", format!("{}:{}", p.display(), old));
	}
	let out = cmd.output().map_err(|e| e.to_string())?;
	Ok(Ran {
		status: out.status.code(),
		stdout: out.stdout,
		stderr: out.stderr,
	})
}

fn workdir(idx: u64) -> PathBuf
{
	let d = scratch_dir().join(format!("c18-{}-{}", std::process::id(), idx));
	let _ = std::fs::remove_dir_all(&d);
	std::fs::create_dir_all(&d).expect("workdir");
	d
}

struct Invocations;
impl Stream for Invocations
{
	fn name(&self) -> String
	{
		"invocations".into()
	}
	fn crash_is_failure(&self) -> bool
	{
		// the worker only dies when the in-process reference compilation of
		// the same files does: a compiler crash, which is C02's subject
		false
	}
	fn count(&self, tier: Tier) -> u64
	{
		tier.pick(4000, 40_000)
	}
	fn choice_len(&self) -> usize
	{
		1900
	}
	fn timeout(&self) -> std::time::Duration
	{
		std::time::Duration::from_secs(180)
	}
	fn run(&self, idx: u64, c: &mut Choices, ctx: &RunCtx) -> CaseOut
	{
		let mut out = CaseOut::default();
		let dir = workdir(idx);
		let result = self.case(idx, c, ctx, &dir, &mut out);
		let _ = std::fs::remove_dir_all(&dir);
		if let Err(e) = result
		{
			out.fail(format!("harness: {}", e.chars().take(60).collect::<String>()), json!({}));
		}
		out
	}
}

impl Invocations
{
	fn case(&self, idx: u64, c: &mut Choices, ctx: &RunCtx, dir: &Path, out: &mut CaseOut) -> Result<(), String>
	{
		// ---- input
		let input_kind = c.weighted(&[5, 3, 3]);
		// one case in ten: a big program and a backend that exits (status 9)
		// before it has read the IR written to its standard input
		let hasty = input_kind == 0 && c.chance(1, 10);
		let mut prog = progen::generate(c, progen::Profile::exec());
		// sometimes the program also prints bytes that are not UTF-8 (they
		// must come through `penne run` untouched)
		if c.chance(1, 4)
		{
			if let Some(m) = prog.funcs.iter_mut().find(|f| f.name == "main")
			{
				m.body.insert(0, crate::ast::Stmt::Print(vec![crate::ast::Expr::Str(vec![b'<', 0xff, 0xc3, b'>', 0x80, b'\n'])]));
			}
		}
		let mut expected_exec = None;
		let files: Vec<(String, String)> = match input_kind
		{
			0 =>
			{
				expected_exec = interp::Interp::new(&prog).run_main().ok();
				let mut src = print_program(&prog, Layout::plain(), None);
				if hasty
				{
					// more IR than a pipe buffer holds (64 KiB)
					for k in 0..700
					{
						src.push_str(&format!("\npub fn padding_{}(x: i32) -> i32\n{{\n\tvar y: i32 = x + {};\n\treturn: y * 3\n}}\n", k, k));
					}
				}
				vec![("prog.pn".into(), src)]
			}
			1 =>
			{
				// invalid program (one in three with multi-byte comments, so
				// that character and byte offsets differ)
				let src = if c.chance(1, 3)
				{
					let mut layout = Layout::plain();
					layout.comments = 3;
					print_program(&prog, layout, Some(c))
				}
				else
				{
					print_program(&prog, Layout::plain(), None)
				};
				let k = 1 + c.draw(2);
				vec![("bad.pn".into(), mutgen::token_faults(c, &src, k))]
			}
			_ =>
			{
				if prog.order.len() < 2
				{
					out.discarded = Some("too small to split".into());
					return Ok(());
				}
				expected_exec = interp::Interp::new(&prog).run_main().ok();
				let nfiles = 2 + c.draw(2);
				let split = modsplit::split(c, &prog, nfiles);
				let sub = c.flag();
				crate::c12::render_files(&split)
					.into_iter()
					.map(|(n, s)| {
						if sub
						{
							// modules in a sub-directory; imports are resolved
							// relative to the importing file
							(format!("src/{}", n), s)
						}
						else
						{
							(n, s)
						}
					})
					.collect()
			}
		};
		let all_ascii = files.iter().all(|(n, s)| n.is_ascii() && s.is_ascii());
		for (n, s) in &files
		{
			let p = dir.join(n);
			if let Some(parent) = p.parent()
			{
				std::fs::create_dir_all(parent).map_err(|e| e.to_string())?;
			}
			std::fs::write(&p, s).map_err(|e| e.to_string())?;
		}
		// what the library says about these files
		let lib = alpha::compile_modules(
			&files,
			alpha::Options {
				want_ir: true,
				link: true,
				..Default::default()
			},
		);
		if lib.internal_error.is_some() || (!lib.ok && lib.codes.is_empty())
		{
			out.discarded = Some("library compile fails without diagnostics (C02's subject)".into());
			return Ok(());
		}
		// ---- subcommand and options
		let sub = *c.pick(&["run", "emit", "build", "build-default"]);
		let silent = c.chance(1, 5);
		let verbose = !silent && c.chance(1, 6);
		let color = *c.pick(&["never", "never", "always", "auto"]);
		let arrows = *c.pick(&["ascii", "unicode"]);
		let use_out_dir = c.flag();
		let mut argv: Vec<String> = Vec::new();
		match sub
		{
			"run" => argv.push("run".into()),
			"emit" => argv.push("emit".into()),
			"build" => argv.push("build".into()),
			_ => (),
		}
		for (n, _) in &files
		{
			argv.push(n.clone());
		}
		if silent
		{
			argv.push("--silent".into());
		}
		if verbose
		{
			argv.push("--verbose".into());
		}
		argv.push(format!("--color={}", color));
		argv.push(format!("--arrows={}", arrows));
		if use_out_dir
		{
			argv.push("--out-dir".into());
			argv.push("outdir".into());
		}
		// ---- backend selection (flag > env > config > default)
		let bindir = dir.join("bin");
		std::fs::create_dir_all(&bindir).map_err(|e| e.to_string())?;
		let backend_status = if hasty { HASTY_STATUS } else if c.chance(1, 4) { 1 + c.draw(5) as i32 } else { 0 };
		let mut env = Vec::new();
		let mut expected_marker: Option<&str> = None;
		let mut real_lli = false;
		let mut path_prefix = None;
		if sub == "run"
		{
			let by_flag = c.chance(1, 3);
			let by_env = c.chance(1, 3);
			if by_flag
			{
				let p = write_script(&bindir, "flagged", "flag", backend_status);
				argv.push("--backend".into());
				argv.push(p.to_string_lossy().to_string());
			}
			if by_env
			{
				let p = write_script(&bindir, "from_env", "env", backend_status);
				env.push(("PENNE_LLI".to_string(), p.to_string_lossy().to_string()));
			}
			if by_flag
			{
				expected_marker = Some("flag");
			}
			else if by_env
			{
				expected_marker = Some("env");
			}
			else if hasty || c.flag()
			{
				write_script(&bindir, "lli", "default", backend_status);
				path_prefix = Some(bindir.clone());
				expected_marker = Some("default");
			}
			else
			{
				real_lli = true;
			}
		}
		else if sub != "emit"
		{
			let by_flag = c.chance(1, 3);
			let by_env = c.chance(1, 3);
			let by_config = c.chance(1, 3);
			if by_flag
			{
				let p = write_script(&bindir, "flagged", "flag", backend_status);
				argv.push("-b".into());
				argv.push(p.to_string_lossy().to_string());
			}
			if by_env
			{
				let p = write_script(&bindir, "from_env", "env", backend_status);
				env.push(("PENNE_BACKEND".to_string(), p.to_string_lossy().to_string()));
			}
			if by_config
			{
				let p = write_script(&bindir, "configured", "config", backend_status);
				// the configured backend is a path, or a bare name found on the
				// PATH; the file itself lies in the working directory or below it
				let value = if c.flag() { p.display().to_string() } else { "configured".to_string() };
				let file = if c.flag() { "penne.toml" } else { "settings/penne.toml" };
				std::fs::create_dir_all(dir.join("settings")).map_err(|e| e.to_string())?;
				std::fs::write(dir.join(file), format!("backend = \"{}\"\n", value)).map_err(|e| e.to_string())?;
				argv.push("--config".into());
				argv.push(file.into());
				out.class(format!("config:{} in {}", if value == "configured" { "bare name" } else { "path" }, if file == "penne.toml" { "the working directory" } else { "a sub-directory" }));
			}
			write_script(&bindir, "clang", "default", backend_status);
			path_prefix = Some(bindir.clone());
			expected_marker = Some(if by_flag
			{
				"flag"
			}
			else if by_env
			{
				"env"
			}
			else if by_config
			{
				"config"
			}
			else
			{
				"default"
			});
		}
		// the output directory may hold (longer) files of an earlier compilation
		if use_out_dir && c.flag()
		{
			for (n, _) in &files
			{
				let p = dir.join("outdir").join(format!("{}.ll", n));
				if let Some(parent) = p.parent()
				{
					std::fs::create_dir_all(parent).map_err(|e| e.to_string())?;
				}
				std::fs::write(&p, "; output of an earlier compilation\n".repeat(6000)).map_err(|e| e.to_string())?;
			}
			out.class("outdir:stale-files");
		}
		let inv = Invocation {
			argv: argv.clone(),
			env: env.clone(),
			path_prefix,
		};
		let ran = run(&inv, dir)?;
		out.key = fnv(&format!("{:?}{:?}{:?}", argv, env, files));
		let nopts = [silent, verbose, use_out_dir, color != "auto", arrows != "unicode"].iter().filter(|b| **b).count();
		out.nontrivial = nopts >= 2 || files.len() > 1 || backend_status != 0;
		out.class(format!("sub:{}", sub));
		out.class(if lib.ok { "input:valid" } else { "input:invalid" });
		out.class(format!("files:{}", files.len().min(3)));
		if let Some(m) = expected_marker
		{
			out.class(format!("backend:{}", m));
		}
		let stdout = String::from_utf8_lossy(&ran.stdout).to_string();
		let stderr = String::from_utf8_lossy(&ran.stderr).to_string();
		let detail = || {
			json!({"argv": argv, "env": env, "files": crate::c02::files_json(&files), "exit": ran.status,
				"stdout": stdout.chars().take(1500).collect::<String>(), "stderr": stderr.chars().take(1500).collect::<String>(),
				"library": lib.summary(), "backend_exit": backend_status})
		};
		if ran.status == Some(124)
		{
			out.discarded = Some("watchdog".into());
			return Ok(());
		}
		// ---- exit status
		let expect_success = match sub
		{
			"emit" => lib.ok,
			// `run` succeeds whenever the backend produced an exit status (the
			// hasty one exits before penne has handed over the program)
			"run" => lib.ok && !hasty,
			_ => lib.ok && backend_status == 0,
		};
		let success = ran.status == Some(0);
		if expect_success != success
		{
			out.fail(
				format!(
					"{}: exit status {} although {}",
					sub,
					if success { "0" } else { "non-zero" },
					if !lib.ok { "compilation fails" } else if expect_success { "everything succeeded" } else { "the backend failed" }
				),
				detail(),
			);
			return Ok(());
		}
		// ---- which backend ran
		let ran_markers: Vec<String> = std::fs::read_to_string(bindir.join("ran.txt"))
			.unwrap_or_default()
			.lines()
			.map(|l| l.to_string())
			.collect();
		if lib.ok
		{
			if let Some(m) = expected_marker
			{
				if ran_markers != vec![m.to_string()]
				{
					out.fail(
						format!("{}: backend precedence: expected the {} backend, ran {:?}", sub, m, ran_markers),
						detail(),
					);
					return Ok(());
				}
				// the backend received the linked IR
				let got = std::fs::read_to_string(bindir.join(format!("{}.stdin", m))).unwrap_or_default();
				if !hasty && Some(&got) != lib.linked_ir.as_ref()
				{
					out.fail(format!("{}: backend did not receive the linked IR", sub), detail());
					return Ok(());
				}
			}
		}
		else if !ran_markers.is_empty()
		{
			out.fail(format!("{}: backend invoked although compilation failed", sub), detail());
			return Ok(());
		}
		// ---- emitted files
		if lib.ok && use_out_dir
		{
			for (i, (n, _)) in files.iter().enumerate()
			{
				let p = dir.join("outdir").join(format!("{}.ll", n));
				match std::fs::read_to_string(&p)
				{
					Err(_) =>
					{
						out.fail(format!("{}: --out-dir lacks the .pn.ll file of a module", sub), detail());
						return Ok(());
					}
					Ok(text) =>
					{
						if text != lib.module_irs[i]
						{
							out.fail(
								format!("{}: emitted .pn.ll differs from the module's IR", sub),
								json!({"argv": argv, "file": n, "emitted_head": text.chars().take(600).collect::<String>(), "library_head": lib.module_irs[i].chars().take(600).collect::<String>()}),
							);
							return Ok(());
						}
						if idx % 8 == 0
						{
							let mut o2 = CaseOut::default();
							crate::c03::verify_ir(&text, "emitted file", true, &mut o2);
							out.failures.extend(o2.failures);
						}
					}
				}
			}
			out.class("checked:emitted-files");
		}
		// ---- run output
		if sub == "run" && lib.ok
		{
			let status = if real_lli
			{
				expected_exec.as_ref().map(|e| e.status)
			}
			else
			{
				Some(backend_status)
			};
			if real_lli
			{
				if let Some(exp) = &expected_exec
				{
					// byte for byte
					let want: &[u8] = &exp.stdout;
					let passed = want.is_empty() || ran.stdout.windows(want.len()).any(|w| w == want);
					if !passed
					{
						out.fail("run: program output is not passed through", detail());
						return Ok(());
					}
					out.class("checked:real-execution");
				}
			}
			if let Some(st) = status
			{
				let line = format!("Output: {}", st);
				if !silent && !hasty && !stdout.contains(&line)
				{
					out.fail("run: exit status of the program is not shown", detail());
					return Ok(());
				}
				if silent && stdout.contains("Output:")
				{
					out.fail("run: --silent still prints the Output line", detail());
					return Ok(());
				}
			}
		}
		// ---- diagnostics
		if !lib.ok && !silent
		{
			let code = lib.codes[0];
			let tag = if code >= 1000 { format!("[L{}]", code) } else { format!("[E{}]", code) };
			if !stderr.contains(&tag) && !stdout.contains(&tag)
			{
				out.fail(format!("{}: failing compilation does not show its diagnostics", sub), detail());
				return Ok(());
			}
		}
		// the reports themselves: what the tool prints for each diagnostic is
		// what the library renders for it from the same files and options
		if !lib.ok && !silent && color == "never"
		{
			for e in lib.raw.iter().take(8)
			{
				let rendered = std::panic::catch_unwind(std::panic::AssertUnwindSafe(|| crate::c13::render(e, &files, false, arrows == "ascii")));
				if let Ok(Ok(bytes)) = rendered
				{
					let text = String::from_utf8_lossy(&bytes).to_string();
					let want: Vec<&str> = text.lines().map(|l| l.trim_end()).filter(|l| !l.is_empty()).collect();
					let got: Vec<&str> = stderr.lines().map(|l| l.trim_end()).filter(|l| !l.is_empty()).collect();
					let found = !want.is_empty() && got.windows(want.len()).any(|w| w == &want[..]);
					if !found
					{
						out.fail(
							format!("{}: the report printed for a diagnostic differs from the library's rendering of it", sub),
							json!({"argv": argv, "files": crate::c02::files_json(&files), "expected_report": text, "stderr": stderr.chars().take(3000).collect::<String>()}),
						);
						return Ok(());
					}
					out.class("checked:report-text");
				}
			}
		}
		if color == "never" && (ran.stdout.contains(&0x1b) || ran.stderr.contains(&0x1b))
		{
			let src_has_esc = files.iter().any(|(_, s)| s.contains('\u{1b}'));
			// the program's own output is passed through as it is
			let program_prints_esc = expected_exec.as_ref().map(|e| e.stdout.contains(&0x1b)).unwrap_or(false);
			if !src_has_esc && !program_prints_esc
			{
				out.fail(format!("{}: escape sequences with --color=never", sub), detail());
				return Ok(());
			}
		}
		if arrows == "ascii" && all_ascii && !verbose && (color == "never")
		{
			// program output of a real run may be non-ASCII: check stderr only then
			let check_stdout = !(sub == "run" && real_lli);
			if !ran.stderr.is_ascii() || (check_stdout && !ran.stdout.is_ascii())
			{
				out.fail(format!("{}: non-ASCII output with --arrows=ascii", sub), detail());
				return Ok(());
			}
		}
		if ctx.want_sample
		{
			out.sample = Some(json!({"argv": argv, "env": env, "exit": ran.status, "files": files.iter().map(|(n, _)| n.clone()).collect::<Vec<_>>()}));
		}
		Ok(())
	}
}

/// core: and vendor: arguments with the repository examples that use them
struct Included;
const INCLUDED: &[(&[&str], bool)] = &[
	(&["examples/import_core.pn", "core:text"], true),
	(&["examples/import_core.pn", "core:text/char.pn"], true),
	(&["examples/import_core.pn"], false),
	(&["examples/addition.pn"], true),
	(&["core:text"], true),
	(&["core:nonexistent"], false),
];
impl Stream for Included
{
	fn name(&self) -> String
	{
		"core-and-vendor-arguments".into()
	}
	fn count(&self, _tier: Tier) -> u64
	{
		INCLUDED.len() as u64 * 2
	}
	fn exhaustive(&self) -> bool
	{
		true
	}
	fn run(&self, idx: u64, _c: &mut Choices, ctx: &RunCtx) -> CaseOut
	{
		let mut out = CaseOut::default();
		let (args, ok) = INCLUDED[(idx / 2) as usize];
		let emit_only = idx % 2 == 0;
		let dir = workdir(1_000_000 + idx);
		let mut argv: Vec<String> = vec![if emit_only { "emit".into() } else { "run".into() }];
		argv.extend(args.iter().map(|s| s.to_string()));
		argv.push("--color=never".into());
		argv.push("--out-dir".into());
		argv.push(dir.join("o").to_string_lossy().to_string());
		let inv = Invocation {
			argv: argv.clone(),
			env: vec![],
			path_prefix: None,
		};
		out.key = idx;
		out.nontrivial = true;
		match run(&inv, Path::new("/repo"))
		{
			Err(e) => out.fail("harness: cannot run penne", json!({"error": e})),
			Ok(r) =>
			{
				let success = r.status == Some(0);
				// `run` of a module set without main cannot succeed; only emit is asserted there
				let has_main = args.iter().any(|a| a.ends_with(".pn"));
				if emit_only || has_main
				{
					if success != ok
					{
						out.fail(
							format!("{:?}: exit status does not reflect the outcome", args),
							json!({"argv": argv, "exit": r.status, "stderr": String::from_utf8_lossy(&r.stderr).chars().take(800).collect::<String>()}),
						);
					}
				}
				if r.stdout.contains(&0x1b) || r.stderr.contains(&0x1b)
				{
					out.fail(
						format!("{:?}: escape sequences with --color=never", args),
						json!({"argv": argv, "stderr": String::from_utf8_lossy(&r.stderr).chars().take(800).collect::<String>()}),
					);
				}
			}
		}
		let _ = std::fs::remove_dir_all(&dir);
		if ctx.want_sample
		{
			out.sample = Some(json!({"argv": argv}));
		}
		out
	}
}

/// docs/errors.md: "Penne source files must be US-ASCII or UTF-8 encoded" —
/// a file that is neither is not compiled, wherever the stray byte sits
struct InvalidEncoding;
const BAD_BYTES: &[(&str, &[u8])] = &[
	("a Latin-1 byte in a comment", b"// caf\xe9\nfn main() -> i32\n{\n\treturn: 0\n}\n"),
	("a Latin-1 byte in a string literal", b"fn main() -> i32\n{\n\tprint!(\"caf\xe9\\n\");\n\treturn: 0\n}\n"),
	("0xFF in a comment at the end of the file", b"fn main() -> i32\n{\n\treturn: 0\n}\n// \xff"),
	("a truncated multi-byte character in a comment", b"// \xe2\x82\nfn main() -> i32\n{\n\treturn: 0\n}\n"),
	("an overlong encoding in a string literal", b"fn main() -> i32\n{\n\tprint!(\"\xc0\xaf\");\n\treturn: 0\n}\n"),
];
impl Stream for InvalidEncoding
{
	fn name(&self) -> String
	{
		"sources-that-are-not-utf-8".into()
	}
	fn count(&self, _tier: Tier) -> u64
	{
		BAD_BYTES.len() as u64 * 3
	}
	fn exhaustive(&self) -> bool
	{
		true
	}
	fn run(&self, idx: u64, _c: &mut Choices, ctx: &RunCtx) -> CaseOut
	{
		let mut out = CaseOut::default();
		let (what, bytes) = BAD_BYTES[(idx / 3) as usize];
		let sub = ["emit", "run", "build"][(idx % 3) as usize];
		let dir = workdir(2_000_000 + idx);
		let _ = std::fs::write(dir.join("bad.pn"), bytes);
		let argv: Vec<String> = vec![
			sub.into(),
			"bad.pn".into(),
			"--color=never".into(),
			"--out-dir".into(),
			"o".into(),
			"--backend".into(),
			"true".into(),
		];
		let inv = Invocation {
			argv: argv.clone(),
			env: vec![],
			path_prefix: None,
		};
		out.key = idx;
		out.nontrivial = true;
		match run(&inv, &dir)
		{
			Err(e) => out.fail("harness: cannot run penne", json!({"error": e})),
			Ok(r) =>
			{
				let emitted = dir.join("o").join("bad.pn.ll").exists();
				if r.status == Some(0) || emitted
				{
					out.fail(
						format!("{}: a source that is not UTF-8 is compiled ({})", sub, what),
						json!({"argv": argv, "exit": r.status, "emitted_ll": emitted, "stderr": String::from_utf8_lossy(&r.stderr).chars().take(600).collect::<String>()}),
					);
				}
			}
		}
		let _ = std::fs::remove_dir_all(&dir);
		if ctx.want_sample
		{
			out.sample = Some(json!({"argv": argv, "what": what}));
		}
		out
	}
}

/// a backend (or the program it runs) that is ended by a signal has no exit
/// status to show: that is a failure of the backend, never a success
struct Signals;
const SIGNAL_CASES: &[(&str, &str, &str, &str)] = &[
	// (what, subcommand, program body, backend: "" = the real lli, otherwise the signal a script sends itself)
	("the program calls abort!()", "run", "\tabort!();\n", ""),
	("the program calls panic!()", "run", "\tpanic!(\"enough\\n\");\n", ""),
	("the interpreter is killed (KILL)", "run", "", "KILL"),
	("the interpreter is terminated (TERM)", "run", "", "TERM"),
	("the interpreter aborts (ABRT)", "run", "", "ABRT"),
	("the interpreter is interrupted (INT)", "run", "", "INT"),
	("the backend is killed (KILL)", "build", "", "KILL"),
	("the backend aborts (ABRT)", "build", "", "ABRT"),
];
impl Stream for Signals
{
	fn name(&self) -> String
	{
		"backends-ended-by-a-signal".into()
	}
	fn count(&self, _tier: Tier) -> u64
	{
		SIGNAL_CASES.len() as u64 * 2
	}
	fn exhaustive(&self) -> bool
	{
		true
	}
	fn run(&self, idx: u64, _c: &mut Choices, ctx: &RunCtx) -> CaseOut
	{
		let mut out = CaseOut::default();
		let (what, sub, body, signal) = SIGNAL_CASES[(idx / 2) as usize];
		let silent = idx % 2 == 1;
		let dir = workdir(3_000_000 + idx);
		let _ = std::fs::write(dir.join("prog.pn"), format!("fn main() -> i32\n{{\n\tprint!(\"started\\n\");\n{}\treturn: 0\n}}\n", body));
		let mut argv: Vec<String> = vec![sub.into(), "prog.pn".into(), "--color=never".into(), "--out-dir".into(), "o".into()];
		if silent
		{
			argv.push("--silent".into());
		}
		if !signal.is_empty()
		{
			let path = dir.join("ends_by_signal");
			let _ = std::fs::write(&path, format!("#!/bin/sh\ncat > /dev/null\nkill -s {} $$\nsleep 5\nexit 0\n", signal));
			let mut perm = std::fs::metadata(&path).unwrap().permissions();
			perm.set_mode(0o755);
			std::fs::set_permissions(&path, perm).unwrap();
			argv.push("--backend".into());
			argv.push(path.to_string_lossy().to_string());
		}
		let inv = Invocation {
			argv: argv.clone(),
			env: vec![],
			path_prefix: None,
		};
		out.key = idx;
		out.nontrivial = true;
		out.class(format!("signal:{}", if signal.is_empty() { "raised by the program under lli" } else { signal }));
		match run(&inv, &dir)
		{
			Err(e) => out.fail("harness: cannot run penne", json!({"error": e})),
			Ok(r) =>
			{
				let stdout = String::from_utf8_lossy(&r.stdout).to_string();
				if r.status == Some(124)
				{
					out.discarded = Some("watchdog".into());
				}
				else if r.status == Some(0) || stdout.contains("Output:")
				{
					out.fail(
						format!("{}: reported as a success although {}", sub, what),
						json!({"argv": argv, "exit": r.status, "stdout": stdout.chars().take(600).collect::<String>(), "stderr": String::from_utf8_lossy(&r.stderr).chars().take(600).collect::<String>()}),
					);
				}
			}
		}
		let _ = std::fs::remove_dir_all(&dir);
		if ctx.want_sample
		{
			out.sample = Some(json!({"argv": argv, "what": what}));
		}
		out
	}
}

impl Check for C18
{
	fn id(&self) -> &'static str
	{
		"C18"
	}
	fn rule(&self) -> String
	{
		"the real `penne` binary (built from /repo with features alpha,llvm-sys) is run in a scratch directory on: generated valid programs, generated programs with 1-2 token faults, and correctly split 2-3 file programs (optionally in a sub-directory) x subcommand {run, emit, build, default build} x random subsets of {--silent, --verbose, --color=never|always|auto, --arrows=ascii|unicode, --out-dir}; backends are generated scripts that record argv/stdin and exit with a chosen status, selected by flag, environment variable (PENNE_BACKEND / PENNE_LLI), config file and/or PATH default in random combinations, or the real lli. Oracle: exit 0 iff compilation (per the library on the same files) and, for build, the backend succeeded; exactly the backend dictated by flag > env > config > default ran and received the linked IR on stdin; no backend runs after a failed compilation; with --out-dir every module has its .pn.ll equal to the library's per-module IR (and accepted by llvm-as/opt on a sample); `run` shows `Output: <status>` unless --silent and passes the program's stdout (== reference interpreter) through; a failing compilation shows its first diagnostic's [Exxx] unless --silent, and with --color=never every report equals, line for line, the library's rendering of that diagnostic (multi-byte comments in one third of the invalid inputs); program output, including bytes that are not UTF-8, comes through byte for byte; a source file that is not UTF-8 is never compiled (15 cases); a program that ends in abort!() / panic!() under the real lli, and a backend that ends itself with KILL / TERM / ABRT / INT, make `run` and `build` fail without an `Output:` line (16 cases); the config file lies in the working directory or below it and names the backend by path or by a bare name found on the PATH; the output directory may hold longer files from before (they are replaced, not overwritten in place); a backend that exits before reading a program larger than a pipe buffer makes `build` and `run` fail; no ESC byte with --color=never; ASCII-only output with --arrows=ascii on ASCII sources. Plus core:/vendor: arguments with the repository examples. Non-trivial: >= 2 options, or several files, or a failing backend; distinct by (argv, env, files).".into()
	}
	fn assumptions(&self) -> Vec<String>
	{
		vec![
			"the library API run on the same files defines whether compilation should succeed (its own correctness is the subject of C01-C13)".into(),
			"inputs on which the library fails without diagnostics are discarded (C02's subject)".into(),
		]
	}
	fn streams(&self) -> Vec<Box<dyn Stream>>
	{
		vec![Box::new(Invocations), Box::new(Included), Box::new(InvalidEncoding), Box::new(Signals)]
	}
}
