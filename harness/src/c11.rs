//! C11 — top-level declarations are order-independent and must be well-formed.

use crate::alpha;
use crate::ast::*;
use crate::choices::{fnv, Choices};
use crate::engine::*;
use crate::interp;
use crate::progen;
use serde_json::json;

pub struct C11;

fn shuffled(order: &[Top], c: &mut Choices) -> Vec<Top>
{
	let mut o = order.to_vec();
	for i in (1..o.len()).rev()
	{
		let j = c.draw(i + 1);
		o.swap(i, j);
	}
	o
}

/// faults as extra top-level text: (text, must appear among the codes)
pub fn fault(c: &mut Choices, prog: &Program) -> (String, u16)
{
	let existing_fn = prog.funcs.iter().find(|f| f.name != "main").map(|f| f.name.clone());
	let existing_const = prog.consts.first().map(|k| k.name.clone());
	let existing_struct = prog.structs.first().map(|s| s.name.clone());
	let mut cands: Vec<(String, u16)> = vec![
		("fn bad_call()\n{\n\tundefined_function();\n}".into(), 401),
		("fn bad_var() -> i32\n{\n\treturn: undefined_variable\n}".into(), 402),
		("fn bad_struct()\n{\n\tvar x = UndefinedStruct { a: 1 };\n}".into(), 405),
		("const BAD_CYCLE: i32 = BAD_CYCLE + 1;".into(), 413),
		("struct BadCycle\n{\n\tinner: BadCycle,\n}".into(), 415),
		("fn bad_goto()\n{\n\tgoto nowhere;\n}".into(), 400),
		("fn bad_loop()\n{\n\tloop;\n}".into(), 801),
		("word32 BadWord\n{\n\ta: i32,\n\tb: i32,\n}".into(), 380),
		("fn bad_dup(a: i32, a: i32)\n{\n}".into(), 424),
		("struct BadMembers\n{\n\tx: i32,\n\tx: i32,\n}".into(), 426),
	];
	if let Some(f) = existing_fn
	{
		cands.push((format!("fn {}()\n{{\n}}", f), 421));
	}
	if let Some(k) = existing_const
	{
		cands.push((format!("const {}: i32 = 0;", k), 423));
	}
	if let Some(s) = existing_struct
	{
		cands.push((format!("struct {}\n{{\n\tdup: i32,\n}}", s), 425));
	}
	c.pick(&cands).clone()
}

struct Permutations;
impl Stream for Permutations
{
	fn name(&self) -> String
	{
		"permutations".into()
	}
	fn count(&self, tier: Tier) -> u64
	{
		tier.pick(1500, 15_000)
	}
	fn choice_len(&self) -> usize
	{
		1700
	}
	fn timeout(&self) -> std::time::Duration
	{
		std::time::Duration::from_secs(120)
	}
	fn run(&self, idx: u64, c: &mut Choices, ctx: &RunCtx) -> CaseOut
	{
		let mut out = CaseOut::default();
		let mut prog = progen::generate(c, progen::Profile::exec());
		if prog.order.len() < 3
		{
			out.discarded = Some("fewer than three top-level declarations".into());
			return out;
		}
		let faulted = idx % 3 == 2;
		let mut expected_code = None;
		if faulted
		{
			let (text, code) = fault(c, &prog);
			prog.raws.push(text);
			let at = c.draw(prog.order.len() + 1);
			prog.order.insert(at, Top::Raw(0));
			expected_code = Some(code);
			out.class(format!("fault:E{}", code));
		}
		else
		{
			out.class("fault:none");
		}
		let expected = if faulted
		{
			None
		}
		else
		{
			match interp::Interp::new(&prog).run_main()
			{
				Ok(o) => Some(o),
				Err(interp::Stop::Bug(w)) =>
				{
					out.fail(format!("harness: interpreter bug {}", w.chars().take(40).collect::<String>()), json!({}));
					return out;
				}
				Err(_) =>
				{
					out.discarded = Some("interpreter: UB or step limit".into());
					return out;
				}
			}
		};
		// orders: as generated, reversed, two shuffles
		let base = prog.order.clone();
		let mut orders = vec![base.clone()];
		let mut rev = base.clone();
		rev.reverse();
		orders.push(rev);
		for _ in 0..ctx.tier.pick(2, 4)
		{
			orders.push(shuffled(&base, c));
		}
		orders.dedup();
		// non-trivial: some order moves a declaration before one it depends on
		out.nontrivial = true;
		let mut reference: Option<(bool, Vec<u16>, String)> = None;
		let mut first_src = String::new();
		for (k, order) in orders.iter().enumerate()
		{
			let mut p = prog.clone();
			p.order = order.clone();
			let src = print_program(&p, Layout::plain(), None);
			if k == 0
			{
				first_src = src.clone();
				out.key = fnv(&src);
			}
			out.count("orders_compiled", 1);
			let o = alpha::compile_one(
				&src,
				alpha::Options {
					want_ir: !faulted,
					..Default::default()
				},
			);
			if let Some(e) = &o.internal_error
			{
				out.fail(format!("internal error {}", e.chars().take(50).collect::<String>()), json!({"source": src}));
				break;
			}
			let mut codes = o.codes.clone();
			codes.sort();
			if let Some(code) = expected_code
			{
				if o.ok
				{
					out.fail(format!("ill-formed declaration accepted (expected E{})", code), json!({"source": src}));
					break;
				}
				if !codes.contains(&code)
				{
					out.fail(
						format!("ill-formed declaration rejected with {:?} instead of E{}", dedup(&codes), code),
						json!({"source": src, "codes": o.codes}),
					);
					break;
				}
			}
			else if !o.ok
			{
				out.fail(
					format!("well-formed program rejected in some order {:?}", dedup(&codes)),
					json!({"source": src, "codes": o.codes, "order_index": k}),
				);
				break;
			}
			let stdout = if o.ok
			{
				let r = alpha::run_ir(&o.module_irs[0], 10);
				if r.timed_out
				{
					out.discarded = Some("lli watchdog".into());
					return out;
				}
				format!("{}|{:?}", String::from_utf8_lossy(&r.stdout), r.status)
			}
			else
			{
				String::new()
			};
			if let Some(exp) = &expected
			{
				let want = format!("{}|{:?}", String::from_utf8_lossy(&exp.stdout), Some(exp.status));
				if stdout != want
				{
					out.fail(
						"permuted program behaves differently from the reference interpreter",
						json!({"source": src, "stdout_and_status": stdout, "expected": want}),
					);
					break;
				}
			}
			// with a duplicate declaration the program is ambiguous (which of the
			// two a use refers to depends on the order), so follow-up diagnostics
			// may differ: only the verdict and the planted code are compared
			let ambiguous = matches!(expected_code, Some(421) | Some(423) | Some(425));
			let codes = if ambiguous { Vec::new() } else { codes };
			match &reference
			{
				None => reference = Some((o.ok, codes, stdout)),
				Some((ok0, codes0, out0)) =>
				{
					if *ok0 != o.ok || *codes0 != codes || *out0 != stdout
					{
						out.fail(
							if *ok0 != o.ok
							{
								"verdict depends on the order of top-level declarations".to_string()
							}
							else if *codes0 != codes
							{
								format!("diagnostics depend on the order of top-level declarations: {:?} vs {:?}", dedup(codes0), dedup(&codes))
							}
							else
							{
								"behaviour depends on the order of top-level declarations".to_string()
							},
							json!({"first_order_source": first_src, "this_order_source": src, "first": [ok0, codes0, out0], "this": [o.ok, codes, stdout]}),
						);
						break;
					}
				}
			}
		}
		if ctx.want_sample
		{
			out.sample = Some(json!({"source": first_src, "orders": orders.len(), "planted_fault": expected_code}));
		}
		out
	}
}

fn dedup(v: &[u16]) -> Vec<u16>
{
	let mut d = v.to_vec();
	d.dedup();
	d
}

/// random dependency graphs over constants and structures
pub struct GraphCase
{
	pub src: String,
	/// code expected when a cycle was planted
	pub expected: Option<u16>,
	pub any_cycle_code: bool,
	/// expected output of the acyclic program
	pub want: String,
	pub nodes: usize,
	pub edges: usize,
}

/// constants and structures that depend on each other (values, array lengths,
/// members, sizes), acyclic by construction, with a cycle of 1-3 nodes planted
/// on request; declarations in random order
pub fn dependency_graph(c: &mut Choices, plant_cycle: bool) -> GraphCase
{
	let n = 3 + c.draw(6);
	#[derive(Clone, Copy, PartialEq)]
	enum Kind
	{
		Const,
		Struct,
	}
	let kinds: Vec<Kind> =
		(0..n).map(|_| if c.flag() { Kind::Const } else { Kind::Struct }).collect();
	// edges i -> j with j < i: acyclic by construction
	let mut edges: Vec<(usize, usize)> = Vec::new();
	for i in 1..n
	{
		for j in 0..i
		{
			if c.chance(1, 3)
			{
				edges.push((i, j));
			}
		}
	}
	// pointer members never count as containment
	let mut pointer_edges: Vec<(usize, usize)> = Vec::new();
	for i in 0..n
	{
		if kinds[i] == Kind::Struct && c.chance(1, 3)
		{
			let j = c.draw(n);
			if kinds[j] == Kind::Struct
			{
				pointer_edges.push((i, j));
			}
		}
	}
	// plant a cycle in every other case
	let mut expected: Option<u16> = None;
	let mut any_cycle_code = false;
	if plant_cycle
	{
		let len = 1 + c.draw(3.min(n));
		let mut nodes: Vec<usize> = Vec::new();
		while nodes.len() < len
		{
			let k = c.draw(n);
			if !nodes.contains(&k)
			{
				nodes.push(k);
			}
			if c.exhausted() && nodes.len() < len
			{
				for k in 0..n
				{
					if nodes.len() < len && !nodes.contains(&k)
					{
						nodes.push(k);
					}
				}
			}
		}
		for w in 0..len
		{
			let e = (nodes[w], nodes[(w + 1) % len]);
			if !edges.contains(&e)
			{
				edges.push(e);
			}
		}
		// the exact code is asserted only where the docs' descriptions
		// cannot overlap: graphs made of constants only (E413) or of
		// structures only (E415); otherwise any of E413/E415/E416
		let all_const = kinds.iter().all(|k| *k == Kind::Const);
		let all_struct = kinds.iter().all(|k| *k == Kind::Struct);
		expected = Some(if all_const { 413 } else if all_struct { 415 } else { 416 });
		any_cycle_code = !(all_const || all_struct);
		// other cycles may exist now through the extra edges; the planted
		// one is guaranteed, so the expected code must be among the codes
	}
	// sizes / values in topological order for the acyclic case
	// (constants and structures live in different name spaces: now and then
	// a structure bears the name of a constant)
	let namesake: Option<(usize, usize)> = if c.chance(1, 4)
	{
		match (kinds.iter().position(|k| *k == Kind::Const), kinds.iter().rposition(|k| *k == Kind::Struct))
		{
			(Some(a), Some(b)) => Some((a, b)),
			_ => None,
		}
	}
	else
	{
		None
	};
	let name = |k: usize| match kinds[k]
	{
		Kind::Const => format!("K{}", k),
		Kind::Struct => match namesake
		{
			Some((a, b)) if b == k => format!("K{}", a),
			_ => format!("T{}", k),
		},
	};
	let mut decls: Vec<String> = Vec::new();
	let mut value: Vec<u128> = vec![0; n]; // const value or struct size
	let mut align: Vec<u128> = vec![1; n];
	for i in 0..n
	{
		let deps: Vec<usize> = edges.iter().filter(|(a, _)| *a == i).map(|(_, b)| *b).collect();
		match kinds[i]
		{
			Kind::Const =>
			{
				let mut terms = vec![format!("{}", i + 1)];
				let mut v = (i + 1) as u128;
				for d in &deps
				{
					match kinds[*d]
					{
						Kind::Const =>
						{
							terms.push(name(*d));
							v += value[*d];
						}
						Kind::Struct =>
						{
							terms.push(format!("|:{}|", name(*d)));
							v += value[*d];
						}
					}
				}
				value[i] = v;
				decls.push(format!("const {}: usize = {};", name(i), terms.join(" + ")));
			}
			Kind::Struct =>
			{
				let mut members = vec![format!("\tbase{}: u8,", i)];
				let mut off: u128 = 1;
				let mut maxa: u128 = 1;
				for d in &deps
				{
					match kinds[*d]
					{
						Kind::Struct =>
						{
							// embedded once, or twice through an array whose
							// length is a named constant
							let twice = c.chance(1, 3);
							if twice
							{
								// a constant takes part: a cycle through this
								// member may be reported as E415 or E416
								any_cycle_code = true;
								members.push(format!("\tmany{}_{}: [LEN2]{},", i, d, name(*d)));
							}
							else
							{
								members.push(format!("\tin{}_{}: {},", i, d, name(*d)));
							}
							let a = align[*d];
							off = (off + a - 1) / a * a;
							off += value[*d] * if twice { 2 } else { 1 };
							maxa = maxa.max(a);
						}
						Kind::Const =>
						{
							members.push(format!("\tarr{}_{}: [{}]u8,", i, d, name(*d)));
							off += value[*d];
						}
					}
				}
				for (a, b) in &pointer_edges
				{
					if *a == i
					{
						members.push(format!("\tptr{}_{}: &{},", i, b, name(*b)));
						off = (off + 7) / 8 * 8 + 8;
						maxa = maxa.max(8);
					}
				}
				value[i] = (off + maxa - 1) / maxa * maxa;
				align[i] = maxa;
				decls.push(format!("struct {}\n{{\n{}\n}}", name(i), members.join("\n")));
			}
		}
	}
	let mut main = String::from("fn main() -> i32\n{\n");
	let mut want = String::new();
	for i in 0..n
	{
		match kinds[i]
		{
			Kind::Const => main.push_str(&format!("\tprint!({}, \"\\n\");\n", name(i))),
			Kind::Struct => main.push_str(&format!("\tprint!(|:{}|, \"\\n\");\n", name(i))),
		}
		want.push_str(&format!("{}\n", value[i]));
	}
	main.push_str("\treturn: 0\n}");
	decls.push(main);
	decls.push("const LEN2: usize = 2;".to_string());
	// any order
	for i in (1..decls.len()).rev()
	{
		let j = c.draw(i + 1);
		decls.swap(i, j);
	}
	let src = decls.join("\n\n") + "\n";
	GraphCase {
		src,
		expected,
		any_cycle_code,
		want,
		nodes: n,
		edges: edges.len(),
	}
}

struct Graphs;
impl Stream for Graphs
{
	fn name(&self) -> String
	{
		"dependency-graphs".into()
	}
	fn count(&self, tier: Tier) -> u64
	{
		tier.pick(6000, 60_000)
	}
	fn choice_len(&self) -> usize
	{
		120
	}
	fn run(&self, idx: u64, c: &mut Choices, ctx: &RunCtx) -> CaseOut
	{
		let mut out = CaseOut::default();
		let GraphCase {
			src,
			expected,
			any_cycle_code,
			want,
			nodes: n,
			edges,
		} = dependency_graph(c, idx % 2 == 1);
		note_case_class(if expected.is_some() { "planted cycle" } else { "acyclic" });
		out.key = fnv(&src);
		out.nontrivial = n >= 4 && edges >= 2;
		match expected
		{
			Some(code) =>
			{
				out.class(format!("cycle:E{}", code));
				let o = alpha::analyze_one(&src);
				if let Some(e) = &o.internal_error
				{
					out.fail(format!("internal error {}", e.chars().take(50).collect::<String>()), json!({"source": src}));
				}
				else if o.ok
				{
					out.fail(format!("cyclic declarations accepted (expected E{})", code), json!({"source": src}));
				}
				else if !(o.codes.contains(&code)
					|| (any_cycle_code && o.codes.iter().any(|c| [413, 415, 416].contains(c))))
				{
					let mut codes = o.codes.clone();
					codes.sort();
					codes.dedup();
					out.fail(
						format!("cycle rejected with {:?} instead of E{}", codes, code),
						json!({"source": src, "codes": o.codes}),
					);
				}
			}
			None =>
			{
				out.class("cycle:none");
				if let Some(obs) = crate::c01::compile_and_run(&src, "acyclic declarations", &mut out)
				{
					let got = String::from_utf8_lossy(&obs.stdout).to_string();
					if got != want
					{
						out.fail(
							"constants / structure sizes differ from the dependency model",
							json!({"source": src, "stdout": got, "expected_stdout": want}),
						);
					}
				}
			}
		}
		if ctx.want_sample
		{
			out.sample = Some(json!({"source": src, "expected_code": expected}));
		}
		out
	}
}

/// documented legality of types per position; one tiny module per cell
struct TypePositions;

fn type_cells() -> Vec<(String, Option<u16>, &'static str)>
{
	let pre = "struct S\n{\n\ta: i32,\n}\n\nword32 W\n{\n\tw: i32,\n}\n\n";
	let mut v: Vec<(String, Option<u16>, &'static str)> = Vec::new();
	let mut add = |body: String, exp: Option<u16>, what: &'static str| v.push((format!("{}{}", pre, body), exp, what));
	// variables
	for (t, init) in [("i32", "1"), ("bool", "true"), ("u128", "1"), ("[3]i32", "[1, 2, 3]"), ("[2][2]i32", "[[1, 2], [3, 4]]"), ("S", "S { a: 1 }"), ("W", "W { w: 1 }"), ("[2]W", "[W { w: 1 }, W { w: 2 }]")]
	{
		add(format!("fn f()\n{{\n\tvar x: {} = {};\n}}\n", t, init), None, "var");
	}
	// `[][]i32`: the docs' E350 example, while tests/typing.rs expects E352
	// for the variable and has no code yet for the parameter: not asserted
	add("fn f()\n{\n\tvar x: [3][]u8;\n}\n".into(), Some(350), "var");
	add("fn f()\n{\n\tvar x: void;\n}\n".into(), Some(352), "var");
	// constants
	add("const X: [3]i32 = [10, 20, 30];\n".into(), None, "const");
	add("const X: u64 = 10;\n".into(), None, "const");
	add("const X: []i32 = [10, 20, 30];\n".into(), Some(353), "const");
	// parameters
	for t in ["i32", "bool", "[]i32", "&i32", "&[]u8", "S", "W", "&S", "&&i32", "u128"]
	{
		add(format!("fn f(x: {})\n{{\n}}\n", t), None, "param");
	}
	add("fn f(x: void);\n".into(), Some(354), "param");
	// return types
	for t in ["i32", "bool", "u128", "usize", "char8"]
	{
		add(format!("fn f() -> {};\n", t), None, "return");
	}
	add("fn f() -> [1000]i32;\n".into(), Some(351), "return");
	add("fn f() -> S;\n".into(), Some(351), "return");
	add("fn f() -> []i32;\n".into(), Some(351), "return");
	// struct members
	for t in ["i32", "bool", "[3]i32", "S", "W", "&i32", "[2]S", "u128"]
	{
		add(format!("struct T\n{{\n\tm: {},\n}}\n", t), None, "struct-member");
	}
	// word members
	for (t, word) in [("i32", "word32"), ("bool", "word8"), ("u16", "word16"), ("W", "word32"), ("i64", "word64")]
	{
		add(format!("{} V\n{{\n\tm: {},\n}}\n", word, t), None, "word-member");
	}
	add("word64 V\n{\n\tx: &i32,\n}\n".into(), Some(356), "word-member");
	add("word128 V\n{\n\tx: []u8,\n}\n".into(), Some(356), "word-member");
	add("word32 V\n{\n\tx: [4]u8,\n}\n".into(), Some(356), "word-member");
	add("word64 V\n{\n\tx: usize,\n}\n".into(), Some(356), "word-member");
	add("word128 V\n{\n\ttag: u8,\n\tx: usize,\n}\n".into(), Some(356), "word-member");
	add("word64 V\n{\n\tx: char8,\n\ty: S,\n}\n".into(), Some(356), "word-member");
	// extern signatures
	for t in ["i8", "i16", "i32", "i64", "u8", "u16", "u32", "u64", "usize", "[]u8", "&i32"]
	{
		add(format!("extern fn f(x: {});\n", t), None, "extern-param");
	}
	for t in ["u128", "i128", "S", "W", "bool", "&bool", "[]bool", "[]i128", "[]S", "&[]bool", "&u128", "[]u128"]
	{
		add(format!("extern fn f(x: {});\n", t), Some(358), "extern-param");
	}
	for t in ["i32", "u64", "usize"]
	{
		add(format!("extern fn f() -> {};\n", t), None, "extern-return");
	}
	add("extern fn f() -> u128;\n".into(), Some(358), "extern-return");
	// size-of
	for t in ["i32", "[4]u8", "S", "W", "&i32", "[2]S"]
	{
		add(format!("const SIZE: usize = |:{}|;\n", t), None, "size-of");
	}
	add("const SIZE: usize = |:[]u8|;\n".into(), Some(359), "size-of");
	v
}

impl Stream for TypePositions
{
	fn name(&self) -> String
	{
		"type-positions".into()
	}
	fn count(&self, _tier: Tier) -> u64
	{
		type_cells().len() as u64
	}
	fn exhaustive(&self) -> bool
	{
		true
	}
	fn run(&self, idx: u64, _c: &mut Choices, ctx: &RunCtx) -> CaseOut
	{
		let mut out = CaseOut::default();
		let (src, exp, what) = type_cells()[idx as usize].clone();
		// the cell's own text (after the shared preamble), for signatures
		let cell: String = src
			.rsplit("\n\n")
			.next()
			.unwrap_or("")
			.split_whitespace()
			.collect::<Vec<_>>()
			.join(" ")
			.chars()
			.take(48)
			.collect();
		out.key = idx;
		out.nontrivial = true;
		out.class(format!("position:{}", what));
		let o = alpha::analyze_one(&src);
		if let Some(e) = &o.internal_error
		{
			out.fail(format!("internal error {}", e.chars().take(50).collect::<String>()), json!({"source": src}));
		}
		else
		{
			match exp
			{
				None =>
				{
					if !o.ok
					{
						out.fail(
							format!("documented type rejected in {} position {:?}: {}", what, o.codes, cell),
							json!({"source": src, "codes": o.codes}),
						);
					}
				}
				Some(code) =>
				{
					if o.ok
					{
						out.fail(format!("invalid type accepted in {} position (expected E{}): {}", what, code, cell), json!({"source": src}));
					}
					else if !o.codes.contains(&code)
					{
						out.fail(
							format!("invalid type in {} position rejected with {:?} instead of E{}: {}", what, o.codes, code, cell),
							json!({"source": src, "codes": o.codes}),
						);
					}
				}
			}
		}
		if ctx.want_sample
		{
			out.sample = Some(json!({"source": src, "expected_code": exp}));
		}
		out
	}
}

/// every type term of nesting depth <= 3 over {[2]T, []T, [..]T, &T} and five
/// base types, in variable, member and parameter position, against the rule
/// of docs/errors.md E350: `[N]T`, `[]T` (and `[..]T`) need an element type of
/// compile-time known size, which `[]T` and `[..]T` do not have; `&T` does
struct TypeTerms;
const WRAPPERS: &[&str] = &["[2]", "[]", "[..]", "&"];
const BASES: &[&str] = &["i32", "u8", "bool", "S", "W"];
impl TypeTerms
{
	/// wrappers from the outside in
	fn term(idx: u64) -> (Vec<&'static str>, &'static str, usize)
	{
		let position = (idx % 3) as usize;
		let mut i = idx / 3;
		let base = BASES[(i % BASES.len() as u64) as usize];
		i /= BASES.len() as u64;
		// i in 0..(1+4+16+64): depth then digits
		let mut depth = 0;
		let mut block = 1u64;
		while i >= block
		{
			i -= block;
			depth += 1;
			block *= 4;
		}
		let mut w = Vec::new();
		for _ in 0..depth
		{
			w.push(WRAPPERS[(i % 4) as usize]);
			i /= 4;
		}
		(w, base, position)
	}
	/// (valid, sized) by the documented rule
	fn model(wrappers: &[&str]) -> (bool, bool)
	{
		let (mut valid, mut sized) = (true, true);
		for w in wrappers.iter().rev()
		{
			match *w
			{
				"&" => sized = true,
				"[2]" =>
				{
					valid = valid && sized;
					sized = true;
				}
				_ =>
				{
					valid = valid && sized;
					sized = false;
				}
			}
		}
		(valid, sized)
	}
}
impl Stream for TypeTerms
{
	fn name(&self) -> String
	{
		"type-terms".into()
	}
	fn count(&self, _tier: Tier) -> u64
	{
		3 * BASES.len() as u64 * (1 + 4 + 16 + 64)
	}
	fn exhaustive(&self) -> bool
	{
		true
	}
	fn stride(&self) -> u64
	{
		16
	}
	fn run(&self, idx: u64, _c: &mut Choices, ctx: &RunCtx) -> CaseOut
	{
		let mut out = CaseOut::default();
		let (wrappers, base, position) = Self::term(idx);
		let ty = format!("{}{}", wrappers.concat(), base);
		let shape = format!("{}T", wrappers.concat());
		let (valid, _sized) = Self::model(&wrappers);
		let pre = "struct S\n{\n\ta: i32,\n}\n\nword32 W\n{\n\tw: i32,\n}\n\n";
		let (what, src) = match position
		{
			0 => ("var", format!("{pre}fn f()\n{{\n\tvar x: {ty};\n}}\n")),
			1 => ("struct-member", format!("{pre}struct T\n{{\n\tm: {ty},\n}}\n")),
			_ => ("param", format!("{pre}fn f(x: {ty})\n{{\n}}\n")),
		};
		out.key = idx;
		out.nontrivial = wrappers.len() >= 2;
		out.class(format!("term:{}", if valid { "valid" } else { "invalid" }));
		// accepted for certain: sized chains of [N] and & (and & on top for parameters)
		let plain = wrappers.iter().all(|w| *w == "[2]" || *w == "&");
		let must_accept = valid && plain && (position < 2 || wrappers.first() == Some(&"&") || wrappers.is_empty());
		let o = alpha::analyze_one(&src);
		if let Some(e) = &o.internal_error
		{
			out.fail(format!("internal error {}", e.chars().take(50).collect::<String>()), json!({"source": src}));
		}
		else if !valid && o.ok
		{
			// one recorded finding: a view `[]T` is taken for an element type
			// of known size; every other wrongly accepted shape is named exactly
			let view_element = wrappers.windows(2).any(|w| w[0] != "&" && w[1] == "[]");
			let class = if view_element { "a view `[]T` as element type".to_string() } else { shape.clone() };
			out.fail(format!("invalid compound type accepted in {} position (E350 rule): {}", what, class), json!({"source": src, "type": ty}));
		}
		else if !valid && !o.codes.iter().any(|c| (350..=359).contains(c))
		{
			out.fail(
				format!("invalid compound type in {} position rejected with {:?}, none of which is a type code: {}", what, o.codes, shape),
				json!({"source": src, "type": ty, "codes": o.codes}),
			);
		}
		else if must_accept && !o.ok
		{
			out.fail(
				format!("valid compound type rejected in {} position {:?}: {}", what, o.codes, shape),
				json!({"source": src, "type": ty, "codes": o.codes}),
			);
		}
		else if valid && !must_accept
		{
			// placement (value_type.rs can_be_struct_member, E356): views,
			// endless arrays and pointers to views are no structure members
			let outer = wrappers.first().copied().unwrap_or("");
			let pointer_to_view = wrappers.len() >= 2 && wrappers[0] == "&" && wrappers[1] == "[]";
			let misplaced = position == 1 && (outer == "[]" || outer == "[..]" || pointer_to_view);
			if misplaced && o.ok
			{
				out.fail(
					format!("type that cannot be placed in {} position accepted (E356 rule): {}", what, shape),
					json!({"source": src, "type": ty}),
				);
			}
			else if misplaced
			{
				out.class("term:valid-but-misplaced");
			}
			else
			{
				out.class("term:valid-but-position-not-settled");
			}
		}
		if ctx.want_sample
		{
			out.sample = Some(json!({"type": ty, "position": what, "valid_by_E350_rule": valid, "accepted": o.ok}));
		}
		out
	}
}

/// words around their declared size, padding included (C10's generator): a
/// word whose members need more than it declares is E380
struct WordSizes;
impl Stream for WordSizes
{
	fn name(&self) -> String
	{
		"word-sizes".into()
	}
	fn count(&self, tier: Tier) -> u64
	{
		tier.pick(3000, 60_000)
	}
	fn choice_len(&self) -> usize
	{
		40
	}
	fn stride(&self) -> u64
	{
		8
	}
	fn run(&self, _idx: u64, c: &mut Choices, ctx: &RunCtx) -> CaseOut
	{
		let mut out = CaseOut::default();
		let w = crate::c10::word_case(c);
		out.key = fnv(&w.src);
		out.nontrivial = w.members >= 2 && w.size != w.raw;
		out.class(if w.size > w.declared { "word:too-large" } else if w.size < w.declared { "word:underfilled" } else { "word:exact" });
		let o = alpha::analyze_one(&w.src);
		let detail = json!({"source": w.src, "members_need_bytes": w.size, "declared_bytes": w.declared});
		if let Some(e) = &o.internal_error
		{
			out.fail(format!("internal error {}", e.chars().take(50).collect::<String>()), detail);
		}
		else if w.size > w.declared && o.ok
		{
			out.fail(format!("a word whose members need {} bytes is accepted as word{}", w.size, w.declared * 8), detail);
		}
		else if w.size > w.declared && !o.codes.contains(&380)
		{
			out.fail(format!("oversized word rejected with {:?} instead of E380: {}", o.codes, w.shape), detail);
		}
		else if w.size == w.declared && !o.ok
		{
			out.fail(format!("exactly filled word rejected {:?}: {}", o.codes, w.shape), detail);
		}
		if ctx.want_sample
		{
			out.sample = Some(json!({"word": w.shape, "members_need_bytes": w.size}));
		}
		out
	}
}

/// duplicates, over-filled words, non-constant array lengths, with random
/// surroundings
struct IllFormed;
impl Stream for IllFormed
{
	fn name(&self) -> String
	{
		"ill-formed-declarations".into()
	}
	fn count(&self, tier: Tier) -> u64
	{
		tier.pick(5000, 40_000)
	}
	fn choice_len(&self) -> usize
	{
		60
	}
	fn run(&self, _idx: u64, c: &mut Choices, ctx: &RunCtx) -> CaseOut
	{
		let mut out = CaseOut::default();
		let prims = ["i8", "i16", "i32", "i64", "u8", "u16", "u32", "u64", "bool"];
		let size = |t: &str| -> usize {
			match t
			{
				"i8" | "u8" | "bool" => 1,
				"i16" | "u16" => 2,
				"i32" | "u32" => 4,
				_ => 8,
			}
		};
		let kind = c.draw(8);
		let (bad, code): (String, u16) = match kind
		{
			0 => ("fn twice(a: i32)\n{\n}\n\nfn twice()\n{\n}".into(), 421),
			1 =>
			{
				let t = *c.pick(&prims);
				(format!("const TWICE: {} = 1;\n\nconst TWICE: i32 = 2;", if t == "bool" { "u8" } else { t }), 423)
			}
			2 => ("struct Twice\n{\n\ta: i32,\n}\n\nword32 Twice\n{\n\tb: i32,\n}".into(), 425),
			3 =>
			{
				let t = *c.pick(&prims);
				(format!("struct Members\n{{\n\tsame: {t},\n\tother: u8,\n\tsame: {t},\n}}"), 426)
			}
			4 =>
			{
				let t = *c.pick(&prims);
				(format!("fn params(same: {t}, other: bool, same: i32)\n{{\n}}"), 424)
			}
			5 =>
			{
				// a word whose members exceed the declared size by 1..16 bytes
				let word = *c.pick(&[1usize, 2, 4, 8, 16]);
				let mut members = Vec::new();
				let mut total = 0;
				let excess = 1 + c.draw(16);
				let mut k = 0;
				while total < word + excess
				{
					let t = *c.pick(&prims);
					members.push(format!("\tf{}: {},", k, t));
					total += size(t);
					k += 1;
				}
				(format!("word{} Big\n{{\n{}\n}}", word * 8, members.join("\n")), 380)
			}
			6 => ("fn lengths(n: usize)\n{\n\tvar a: [n]i32;\n}".into(), 433),
			_ => ("fn lengths2()\n{\n\tvar n: usize = 3;\n\tvar a: [n]u8;\n}".into(), 433),
		};
		// valid surroundings, any position
		let mut decls = vec![
			"const OK: i32 = 1;".to_string(),
			"struct Fine\n{\n\ta: [2]u8,\n}".to_string(),
			"fn fine(x: i32) -> i32\n{\n\treturn: x + OK\n}".to_string(),
			"fn main() -> i32\n{\n\treturn: fine(1)\n}".to_string(),
		];
		let at = c.draw(decls.len() + 1);
		decls.insert(at, bad);
		let src = decls.join("\n\n") + "\n";
		out.key = fnv(&src);
		out.nontrivial = true;
		out.class(format!("expected:E{}", code));
		let o = alpha::analyze_one(&src);
		if let Some(e) = &o.internal_error
		{
			out.fail(format!("internal error {}", e.chars().take(50).collect::<String>()), json!({"source": src}));
		}
		else if o.ok
		{
			out.fail(format!("ill-formed declaration accepted (expected E{})", code), json!({"source": src}));
		}
		else if !o.codes.contains(&code)
		{
			out.fail(
				format!("ill-formed declaration rejected with {:?} instead of E{}", o.codes, code),
				json!({"source": src, "codes": o.codes}),
			);
		}
		if ctx.want_sample
		{
			out.sample = Some(json!({"source": src, "expected_code": code}));
		}
		out
	}
}

impl Check for C11
{
	fn id(&self) -> &'static str
	{
		"C11"
	}
	fn rule(&self) -> String
	{
		"(a) generated executable programs (>= 3 top-level declarations), one third with a planted ill-formed declaration (13 kinds: E400/E401/E402/E405/E413/E415/E421/E423/E424/E425/E426/E380/E801), each printed in the generated, the reversed and 2 (quick) / 4 (thorough) random orders; (b) random dependency graphs over 3-8 constants and structures (constant uses constant, constant uses |:S|, structure embeds structure, array-length names a constant, pointer members that never count; in a quarter of the graphs one structure bears the name of a constant), half of them with a planted cycle of 1-3 nodes; (c) every documented type/position cell (var, const, parameter, return, struct member, word member, extern parameter/return, size-of) — 76 cells, exhaustive; (c2) EVERY type term of nesting depth <= 3 over {[2]T, []T, [..]T, &T} x {i32, u8, bool, S, W} in variable, struct-member and parameter position (1275 cells) against the rule of docs E350: an element type must have a compile-time known size, which []T and [..]T lack and &T has - invalid terms must be rejected with a code in E350-E359, terms built from [N] and & only must be accepted as variables and members (and as parameters when a pointer is outermost), views, endless arrays and pointers to views as structure members must be rejected (value_type.rs can_be_struct_member, E356), everything else is run but not asserted; (d) duplicate declarations of every kind, words over-filled by 1-16 bytes, words over-filled by alignment padding alone (C10's word generator), array lengths naming a variable or parameter, at a random position among valid declarations. Oracle: (a) same verdict, same multiset of codes and (accepted) same stdout == reference interpreter in every order, planted code among the codes; (b) acyclic => accepted and printed constants/sizes equal the dependency model, cycle => E413/E415/E416 by the kinds on the cycle; (c)(d) the documented code, or acceptance. Non-trivial: always for (a)(c)(d); graphs with >= 4 nodes and >= 2 edges; distinct by source.".into()
	}
	fn assumptions(&self) -> Vec<String>
	{
		vec![
			"cells the documentation does not settle (bool in extern, words as return type, sized arrays as parameters, under-filled words) are not asserted".into(),
			"with a planted cycle additional cycles may exist; only the presence of the planted cycle's code is asserted".into(),
		]
	}
	fn streams(&self) -> Vec<Box<dyn Stream>>
	{
		vec![
			Box::new(Permutations),
			Box::new(Graphs),
			Box::new(TypePositions),
			Box::new(TypeTerms),
			Box::new(WordSizes),
			Box::new(IllFormed),
		]
	}
}
