//! Driver, worker pool, crash isolation, shrinking, evidence, known findings.
//!
//! The whole per-case logic (generate from choices, run penne, oracle) runs in
//! `pv worker` subprocesses. The driver hands out index blocks, tracks the
//! in-flight case, classifies worker deaths (panic / LLVM abort / stack
//! overflow / signal / watchdog) and shrinks failures: first the choice vector
//! (shortest failing prefix, chunk deletion, zeroing), then, where the check's
//! oracle needs only the source, the source itself (files, lines, tokens).

use crate::choices::{case_tree, Choices};
use serde_json::{json, Map, Value};
use std::collections::{BTreeMap, HashSet};
use std::io::{BufRead, BufReader, Write};
use std::process::{Child, ChildStdin, Command, Stdio};
use std::sync::atomic::{AtomicU64, Ordering};
use std::sync::mpsc::{channel, Receiver, RecvTimeoutError};
use std::sync::{Arc, Mutex};
use std::time::{Duration, Instant};

#[derive(Clone, Copy, PartialEq, Eq, Debug)]
pub enum Tier
{
	Quick,
	Thorough,
}

impl Tier
{
	pub fn name(&self) -> &'static str
	{
		match self
		{
			Tier::Quick => "quick",
			Tier::Thorough => "thorough",
		}
	}
	pub fn pick(&self, quick: u64, thorough: u64) -> u64
	{
		match self
		{
			Tier::Quick => quick,
			Tier::Thorough => thorough,
		}
	}
}

#[derive(Default, Debug, Clone)]
pub struct Failure
{
	pub sig: String,
	pub detail: Value,
}

#[derive(Default, Debug)]
pub struct CaseOut
{
	/// hash identifying the case (distinctness)
	pub key: u64,
	pub nontrivial: bool,
	pub classes: Vec<String>,
	pub discarded: Option<String>,
	pub failures: Vec<Failure>,
	pub sample: Option<Value>,
	/// extra integer counters (e.g. IRs verified), summed into evidence
	pub counters: Vec<(String, u64)>,
}

impl CaseOut
{
	pub fn fail(&mut self, sig: impl Into<String>, detail: Value)
	{
		self.failures.push(Failure {
			sig: sig.into(),
			detail,
		});
	}
	pub fn class(&mut self, c: impl Into<String>)
	{
		self.classes.push(c.into());
	}
	pub fn count(&mut self, c: impl Into<String>, n: u64)
	{
		self.counters.push((c.into(), n));
	}
}

pub struct RunCtx
{
	pub tier: Tier,
	pub seed: u64,
	pub want_sample: bool,
	/// strict = replay mode: nothing tolerated, full details
	pub replay: bool,
}

pub trait Stream: Sync + Send
{
	fn name(&self) -> String;
	fn count(&self, tier: Tier) -> u64;
	fn exhaustive(&self) -> bool
	{
		false
	}
	/// > 0: the case is decoded from a proptest-generated choice vector of at
	/// most this length; 0: the case is the `idx`-th element of an enumeration.
	fn choice_len(&self) -> usize
	{
		0
	}
	/// cases per progress block (cheap cases use large strides)
	fn stride(&self) -> u64
	{
		1
	}
	/// false: a worker crash on a case of this stream is some other
	/// property's subject; the case is discarded and counted
	fn crash_is_failure(&self) -> bool
	{
		true
	}
	/// override of Check::crash_sig_per_stream for this stream
	fn crash_sig_per_stream(&self) -> Option<bool>
	{
		None
	}
	/// per-block watchdog
	fn timeout(&self) -> Duration
	{
		Duration::from_secs(60)
	}
	fn run(&self, idx: u64, choices: &mut Choices, ctx: &RunCtx) -> CaseOut;
}

pub trait Check: Sync + Send
{
	fn id(&self) -> &'static str;
	fn level(&self) -> &'static str
	{
		"exploration"
	}
	fn rule(&self) -> String;
	fn assumptions(&self) -> Vec<String>;
	fn streams(&self) -> Vec<Box<dyn Stream>>;
	/// crash signatures carry the stream name (so that a recorded crash of a
	/// probe stream cannot hide a crash elsewhere); false for checks whose
	/// very subject is crashes, where the crash site alone is the class
	fn crash_sig_per_stream(&self) -> bool
	{
		true
	}
	/// The oracle of this check applied to literal source files, for checks
	/// whose oracle needs nothing but the source. Used to reduce a failing
	/// case at the level of lines and tokens once the choice vector has been
	/// shrunk, and to replay the reduced source without any generator.
	fn judge_source(&self, _stream: &str, _files: &[(String, String)], _ctx: &RunCtx) -> Option<CaseOut>
	{
		None
	}
	/// whether `judge_source` is implemented (for this stream)
	fn source_level(&self, _stream: &str) -> bool
	{
		false
	}
	/// The oracle of this check applied to one input given as bytes: the body
	/// of the coverage-guided fuzz targets and of their replay.
	fn judge_bytes(&self, _bytes: &[u8]) -> Option<CaseOut>
	{
		None
	}
	/// coverage-guided campaigns of this check (libFuzzer + ASan), per tier
	fn fuzz_specs(&self, _tier: Tier) -> Vec<FuzzSpec>
	{
		Vec::new()
	}
}

pub struct FuzzSpec
{
	/// binary of /verif/fuzz
	pub target: &'static str,
	/// executions per job (fixed work, not a time limit)
	pub runs_per_job: u64,
	pub jobs: usize,
	pub max_len: usize,
	/// initial corpus
	pub seeds: Vec<Vec<u8>>,
	pub dictionary: Vec<String>,
}

// ------------------------------------------------------------------ worker

/// A stream may name the class of the case it is about to run (for example
/// "planted cycle" / "acyclic"); if the compiler then kills the worker, the
/// class becomes part of the crash signature, so that a recorded crash of one
/// class cannot excuse a crash of another.
pub fn note_case_class(class: &str)
{
	CLASS_NOTED.store(1, Ordering::SeqCst);
	eprintln!("CASE-CLASS {}", class);
}

static CLASS_NOTED: AtomicU64 = AtomicU64::new(0);

/// before every case: a class noted for an earlier case does not apply
fn forget_case_class()
{
	if CLASS_NOTED.swap(0, Ordering::SeqCst) != 0
	{
		eprintln!("CASE-CLASS -");
	}
}


/// Best effort: name the penne function in which a segmentation fault (or a
/// stack overflow) happened, so that crash signatures are specific.
extern "C" fn on_segv(_sig: libc::c_int)
{
	let bt = std::backtrace::Backtrace::force_capture();
	let text = format!("{}", bt);
	let mut frames: Vec<&str> = Vec::new();
	for l in text.lines()
	{
		let l = l.trim();
		if let Some((_, f)) = l.split_once(": ")
		{
			if f.starts_with("penne::") || f.starts_with("<penne::")
			{
				frames.push(f);
				if frames.len() >= 400
				{
					break;
				}
			}
		}
	}
	let first = frames.first().copied().unwrap_or("?");
	// deep recursion: hundreds of compiler frames on the stack. Where exactly
	// the stack ran out is an accident of the build; it is not named.
	if frames.len() >= 400
	{
		eprintln!("SEGV deep recursion ({} ...)", first);
		eprintln!("thread has overflowed its stack");
	}
	else
	{
		eprintln!("SEGV in {}", first);
	}
	unsafe { libc::_exit(139) };
}

pub fn install_segv_handler()
{
	unsafe {
		// a generous alternate stack: the handler symbolises a backtrace
		let size = 1 << 20;
		let stack = libc::mmap(
			std::ptr::null_mut(),
			size,
			libc::PROT_READ | libc::PROT_WRITE,
			libc::MAP_PRIVATE | libc::MAP_ANONYMOUS,
			-1,
			0,
		);
		if stack != libc::MAP_FAILED
		{
			let ss = libc::stack_t {
				ss_sp: stack,
				ss_flags: 0,
				ss_size: size,
			};
			libc::sigaltstack(&ss, std::ptr::null_mut());
		}
		let mut sa: libc::sigaction = std::mem::zeroed();
		sa.sa_sigaction = on_segv as usize;
		sa.sa_flags = libc::SA_ONSTACK | libc::SA_RESETHAND;
		libc::sigemptyset(&mut sa.sa_mask);
		libc::sigaction(libc::SIGSEGV, &sa, std::ptr::null_mut());
		libc::sigaction(libc::SIGBUS, &sa, std::ptr::null_mut());
	}
}

pub fn install_panic_hook()
{
	std::panic::set_hook(Box::new(|info| {
		let loc = info
			.location()
			.map(|l| format!("{}:{}", l.file(), l.line()))
			.unwrap_or_else(|| "?".to_string());
		let msg = if let Some(s) = info.payload().downcast_ref::<&str>()
		{
			s.to_string()
		}
		else if let Some(s) = info.payload().downcast_ref::<String>()
		{
			s.clone()
		}
		else
		{
			"?".to_string()
		};
		let msg: String = msg.chars().take(300).collect();
		let msg = msg.replace('\n', " ");
		// the innermost penne function on the stack: stable under edits that
		// merely shift line numbers, and specific where messages are not
		let bt = format!("{}", std::backtrace::Backtrace::force_capture());
		let func = bt
			.lines()
			.filter_map(|l| l.trim().split_once(": ").map(|(_, f)| f))
			.find(|f| {
				(f.starts_with("penne::") || f.starts_with("<penne::"))
					&& !f.contains("panic") && !f.contains("{{closure}}")
			})
			.unwrap_or("?")
			.to_string();
		let func = match func.rfind("::h")
		{
			Some(i) if func.len() - i == 19 => func[..i].to_string(),
			_ => func,
		};
		eprintln!("PANIC {} [{}] {}", loc, func, msg);
	}));
}

fn caseout_to_agg(agg: &mut Agg, idx: u64, out: CaseOut, keep_keys: bool)
{
	agg.evals += 1;
	if let Some(d) = out.discarded
	{
		*agg.discards.entry(d).or_insert(0) += 1;
	}
	if out.nontrivial
	{
		agg.nt += 1;
		if keep_keys
		{
			agg.keys.push(out.key);
		}
	}
	for c in out.classes
	{
		*agg.classes.entry(c).or_insert(0) += 1;
	}
	for (c, n) in out.counters
	{
		*agg.counters.entry(c).or_insert(0) += n;
	}
	if let Some(s) = out.sample
	{
		if agg.samples.len() < 3
		{
			agg.samples.push(s);
		}
	}
	for f in out.failures
	{
		let n = agg.fail_counts.entry(f.sig.clone()).or_insert(0);
		*n += 1;
		if *n <= 2
		{
			agg.failures.push((idx, f));
		}
	}
}

#[derive(Default)]
struct Agg
{
	evals: u64,
	nt: u64,
	keys: Vec<u64>,
	classes: BTreeMap<String, u64>,
	counters: BTreeMap<String, u64>,
	discards: BTreeMap<String, u64>,
	samples: Vec<Value>,
	fail_counts: BTreeMap<String, u64>,
	failures: Vec<(u64, Failure)>,
}

impl Agg
{
	fn to_json(&self, upto: u64) -> Value
	{
		json!({
			"upto": upto,
			"evals": self.evals,
			"nt": self.nt,
			"keys": self.keys,
			"classes": self.classes,
			"counters": self.counters,
			"discards": self.discards,
			"samples": self.samples,
			"fail_counts": self.fail_counts,
			"failures": self.failures.iter().map(|(i, f)| json!({"idx": i, "sig": f.sig, "detail": f.detail})).collect::<Vec<_>>(),
		})
	}
}

pub fn worker_main(checks: &[Box<dyn Check>])
{
	install_panic_hook();
	install_segv_handler();
	let stdin = std::io::stdin();
	let stdout = std::io::stdout();
	let mut streams_cache: BTreeMap<String, Vec<Box<dyn Stream>>> = BTreeMap::new();
	for line in stdin.lock().lines()
	{
		let line = match line
		{
			Ok(l) => l,
			Err(_) => break,
		};
		if line.trim().is_empty()
		{
			continue;
		}
		let req: Value = serde_json::from_str(&line).expect("worker: bad request");
		let id = req["id"].as_str().unwrap().to_string();
		let sname = req["stream"].as_str().unwrap().to_string();
		let tier = if req["tier"].as_str() == Some("thorough")
		{
			Tier::Thorough
		}
		else
		{
			Tier::Quick
		};
		let seed = req["seed"].as_u64().unwrap_or(0);
		if !streams_cache.contains_key(&id)
		{
			let check = checks
				.iter()
				.find(|c| c.id() == id)
				.unwrap_or_else(|| panic!("unknown check {}", id));
			streams_cache.insert(id.clone(), check.streams());
		}
		if let Some(hex) = req.get("bytes_hex").and_then(|c| c.as_str())
		{
			let bytes = unhex(hex);
			let check = checks.iter().find(|c| c.id() == id).unwrap();
			{
				let mut o = stdout.lock();
				writeln!(o, "S 0").unwrap();
				o.flush().unwrap();
			}
			if let Ok(path) = std::env::var("PV_RECORD_INPUT")
			{
				let _ = std::fs::write(path, json!({"bytes_hex": hex}).to_string());
			}
			let out = check.judge_bytes(&bytes).unwrap_or_default();
			let mut agg = Agg::default();
			caseout_to_agg(&mut agg, 0, out, true);
			let mut o = stdout.lock();
			writeln!(o, "R {}", agg.to_json(1)).unwrap();
			o.flush().unwrap();
			continue;
		}
		if let Some(src) = req.get("source").and_then(|c| c.as_array())
		{
			let files = files_of_json(src);
			let check = checks.iter().find(|c| c.id() == id).unwrap();
			{
				let mut o = stdout.lock();
				writeln!(o, "S 0").unwrap();
				o.flush().unwrap();
			}
			let ctx = RunCtx {
				tier,
				seed,
				want_sample: false,
				replay: true,
			};
			let out = check.judge_source(&sname, &files, &ctx).unwrap_or_default();
			let mut agg = Agg::default();
			caseout_to_agg(&mut agg, 0, out, true);
			let mut o = stdout.lock();
			writeln!(o, "R {}", agg.to_json(1)).unwrap();
			o.flush().unwrap();
			continue;
		}
		let streams = &streams_cache[&id];
		let stream = streams
			.iter()
			.find(|s| s.name() == sname)
			.unwrap_or_else(|| panic!("unknown stream {}", sname));
		let replay = req["replay"].as_bool().unwrap_or(false);
		if let Some(ch) = req.get("choices").and_then(|c| c.as_array())
		{
			// single explicit case (shrinking / replay)
			let data: Vec<u32> =
				ch.iter().map(|v| v.as_u64().unwrap_or(0) as u32).collect();
			let idx = req["idx"].as_u64().unwrap_or(0);
			{
				let mut o = stdout.lock();
				writeln!(o, "S {}", idx).unwrap();
				o.flush().unwrap();
			}
			let ctx = RunCtx {
				tier,
				seed,
				want_sample: true,
				replay,
			};
			let mut c = Choices::new(&data);
			forget_case_class();
			let out = stream.run(idx, &mut c, &ctx);
			let mut agg = Agg::default();
			caseout_to_agg(&mut agg, idx, out, true);
			let mut o = stdout.lock();
			writeln!(o, "R {}", agg.to_json(idx + 1)).unwrap();
			o.flush().unwrap();
			continue;
		}
		let from = req["from"].as_u64().unwrap();
		let to = req["to"].as_u64().unwrap();
		let stride = req["stride"].as_u64().unwrap_or(1).max(1);
		let sample_upto = req["sample_upto"].as_u64().unwrap_or(0);
		let keep_keys = !stream.exhaustive();
		let clen = stream.choice_len();
		let mut idx = from;
		while idx < to
		{
			let end = (idx + stride).min(to);
			{
				let mut o = stdout.lock();
				writeln!(o, "S {}", idx).unwrap();
				o.flush().unwrap();
			}
			let mut agg = Agg::default();
			for i in idx..end
			{
				let ctx = RunCtx {
					tier,
					seed,
					want_sample: i < sample_upto,
					replay,
				};
				let data: Vec<u32> = if clen > 0
				{
					case_tree(seed, &id, &sname, i, clen).current()
				}
				else
				{
					Vec::new()
				};
				let mut c = Choices::new(&data);
				forget_case_class();
				let mut out = stream.run(i, &mut c, &ctx);
				if clen > 0
				{
					for f in out.failures.iter_mut()
					{
						if let Value::Object(m) = &mut f.detail
						{
							m.insert("choices".into(), json!(data));
						}
					}
				}
				caseout_to_agg(&mut agg, i, out, keep_keys);
			}
			let mut o = stdout.lock();
			writeln!(o, "R {}", agg.to_json(end)).unwrap();
			o.flush().unwrap();
			idx = end;
		}
		let mut o = stdout.lock();
		writeln!(o, "D").unwrap();
		o.flush().unwrap();
	}
}

// ------------------------------------------------------------------ driver

struct Worker
{
	child: Child,
	stdin: ChildStdin,
	rx: Receiver<String>,
	stderr_path: std::path::PathBuf,
	served: u64,
}

static WORKER_SEQ: AtomicU64 = AtomicU64::new(0);
static PER_STREAM_SIGS: AtomicU64 = AtomicU64::new(1);

pub fn scratch_dir() -> std::path::PathBuf
{
	let base = std::env::var("PV_SCRATCH")
		.unwrap_or_else(|_| "/verif/target/scratch".to_string());
	let p = std::path::PathBuf::from(base);
	let _ = std::fs::create_dir_all(&p);
	p
}

impl Worker
{
	fn spawn() -> Worker
	{
		Self::spawn_with(None)
	}

	fn spawn_with(record_input: Option<&std::path::Path>) -> Worker
	{
		let exe = std::env::current_exe().expect("current_exe");
		let n = WORKER_SEQ.fetch_add(1, Ordering::SeqCst);
		let stderr_path = scratch_dir()
			.join(format!("worker-{}-{}.stderr", std::process::id(), n));
		let errf = std::fs::File::create(&stderr_path).expect("stderr file");
		let mut cmd = Command::new(exe);
		if let Some(p) = record_input
		{
			cmd.env("PV_RECORD_INPUT", p);
		}
		let mut child = cmd
			.arg("worker")
			.stdin(Stdio::piped())
			.stdout(Stdio::piped())
			.stderr(Stdio::from(errf))
			.spawn()
			.expect("spawn worker");
		let stdin = child.stdin.take().unwrap();
		let stdout = child.stdout.take().unwrap();
		let (tx, rx) = channel();
		std::thread::spawn(move || {
			let r = BufReader::new(stdout);
			for line in r.lines()
			{
				match line
				{
					Ok(l) =>
					{
						if tx.send(l).is_err()
						{
							break;
						}
					}
					Err(_) => break,
				}
			}
		});
		Worker {
			child,
			stdin,
			rx,
			stderr_path,
			served: 0,
		}
	}

	fn kill(mut self)
	{
		let _ = self.child.kill();
		let _ = self.child.wait();
		let _ = std::fs::remove_file(&self.stderr_path);
	}

	/// classify the death of this worker from wait status and stderr tail
	fn death_signature(&mut self) -> (String, String)
	{
		let status = self.child.wait().ok();
		let tail = std::fs::read(&self.stderr_path)
			.map(|b| {
				let s = String::from_utf8_lossy(&b).to_string();
				let n = s.len();
				let mut start = n.saturating_sub(4000);
				while !s.is_char_boundary(start)
				{
					start += 1;
				}
				s[start..].to_string()
			})
			.unwrap_or_default();
		let sig = classify_death(status, &tail);
		(sig, tail)
	}
}

pub fn normalize_panic(loc: &str, msg: &str) -> String
{
	// drop the line number (it shifts under unrelated edits); keep file + message head
	let file = loc.rsplit_once(':').map(|(f, _)| f).unwrap_or(loc);
	let file = file
		.rsplit_once("/repo/")
		.map(|(_, f)| f)
		.unwrap_or(file);
	// a message that is the Debug dump of a value: keep only its head
	let msg = match msg.find(" {")
	{
		// the Debug dump of some value: the value varies, the site does not
		Some(i) if i < 40 && !msg[..i].contains(' ') => "<value dump>",
		Some(i) if i < 40 => &msg[..i],
		_ => msg,
	};
	let mut head = String::new();
	for ch in msg.chars()
	{
		if ch.is_ascii_digit()
		{
			head.push('#');
		}
		else
		{
			head.push(ch);
		}
		if head.len() >= 60
		{
			break;
		}
	}
	while head.contains("##")
	{
		head = head.replace("##", "#");
	}
	format!("panic {} {}", file, head.trim())
}

fn classify_death(status: Option<std::process::ExitStatus>, tail: &str) -> String
{
	let base = classify_death_base(status, tail);
	// the class noted last by the stream, if any (see note_case_class)
	match tail.lines().rev().find(|l| l.starts_with("CASE-CLASS "))
	{
		Some(l) if l[11..].trim() != "-" => format!("{} [case: {}]", base, l[11..].trim()),
		_ => base,
	}
}

fn classify_death_base(status: Option<std::process::ExitStatus>, tail: &str) -> String
{
	use std::os::unix::process::ExitStatusExt;
	if let Some(line) = tail.lines().rev().find(|l| l.starts_with("PANIC "))
	{
		let rest = &line[6..];
		let (loc, msg) = rest.split_once(' ').unwrap_or((rest, ""));
		// "[function] message"
		let (func, msg) = match msg.strip_prefix('[').and_then(|m| m.split_once("] "))
		{
			Some((f, m)) => (f.to_string(), m),
			None => (String::new(), msg),
		};
		let base = normalize_panic(loc, msg);
		return if func.is_empty() || func == "?" { base } else { format!("{} in {}", base, func) };
	}
	if tail.lines().rev().any(|l| l.starts_with("SEGV deep recursion"))
	{
		return "stack-overflow".to_string();
	}
	if let Some(line) = tail.lines().rev().find(|l| l.starts_with("SEGV in "))
	{
		let f: String = line[8..].chars().take(90).collect();
		// strip the hash suffix of the symbol
		let f = match f.rfind("::h")
		{
			Some(i) if f.len() - i == 19 => f[..i].to_string(),
			_ => f,
		};
		return format!("segv {}", f);
	}
	if let Some(line) = tail.lines().rev().find(|l| l.contains("error: Linking globals named"))
	{
		let what = line.rsplit(": ").next().unwrap_or("").trim();
		return format!("llvm-linker-exit {}", what);
	}
	if tail.contains("has overflowed its stack")
	{
		return "stack-overflow".to_string();
	}
	if let Some(line) = tail.lines().rev().find(|l| l.contains("LLVM ERROR"))
	{
		let from = line.find("LLVM ERROR").unwrap_or(0);
		let l: String = line[from..].chars().take(80).collect();
		// the verifier's first complaint names the class of breakage
		let complaint = tail
			.lines()
			.find(|x| {
				let x = x.trim_start_matches(|c: char| !c.is_ascii_uppercase());
				x.ends_with('!') && !x.contains("LLVM ERROR") && x.len() < 90
			})
			.map(|x| x.trim_start_matches(|c: char| !c.is_ascii_uppercase()).to_string())
			.or_else(|| {
				// complaints without an exclamation mark (`Invalid bitcast`): the
				// heading of the block of indented instructions right above
				let lines: Vec<&str> = tail.lines().collect();
				let at = lines.iter().rposition(|l| l.contains("LLVM ERROR"))?;
				let head = lines[..at].iter().rev().find(|l| !l.starts_with(' ') && !l.starts_with('\t') && !l.trim().is_empty())?;
				let ok = head.len() < 90 && head.chars().next().map(|c| c.is_ascii_uppercase()).unwrap_or(false) && lines[..at].last().map(|l| l.starts_with(' ')).unwrap_or(false);
				if ok { Some(head.trim().to_string()) } else { None }
			})
			.unwrap_or_default();
		return format!("llvm-abort {} {}", l.trim(), complaint).trim().to_string();
	}
	if let Some(line) = tail
		.lines()
		.rev()
		.find(|l| l.contains("Assertion") || l.contains("UNREACHABLE"))
	{
		let l: String = line.chars().take(80).collect();
		return format!("llvm-assert {}", l.trim());
	}
	match status
	{
		Some(s) =>
		{
			if let Some(sig) = s.signal()
			{
				format!("signal {}", sig)
			}
			else
			{
				format!("exit {}", s.code().unwrap_or(-1))
			}
		}
		None => "died".to_string(),
	}
}

#[derive(Default)]
pub struct Totals
{
	pub evals: u64,
	pub nt_exhaustive: u64,
	pub keys: HashSet<u64>,
	pub classes: BTreeMap<String, u64>,
	pub counters: BTreeMap<String, u64>,
	pub discards: BTreeMap<String, u64>,
	pub samples: Vec<Value>,
	pub fail_counts: BTreeMap<String, u64>,
	/// first representative per signature: (stream, idx, detail)
	pub reps: BTreeMap<String, (String, u64, Value)>,
	pub timeouts: u64,
	pub per_stream: BTreeMap<String, u64>,
}

fn merge(tot: &mut Totals, sname: &str, r: &Value)
{
	tot.evals += r["evals"].as_u64().unwrap_or(0);
	*tot.per_stream.entry(sname.to_string()).or_insert(0) +=
		r["evals"].as_u64().unwrap_or(0);
	let keys = r["keys"].as_array();
	let nt = r["nt"].as_u64().unwrap_or(0);
	match keys
	{
		Some(k) if !k.is_empty() =>
		{
			for x in k
			{
				tot.keys.insert(x.as_u64().unwrap_or(0) ^ crate::choices::fnv(sname));
			}
		}
		_ => tot.nt_exhaustive += nt,
	}
	for (name, target) in [
		("classes", &mut tot.classes),
		("counters", &mut tot.counters),
		("discards", &mut tot.discards),
		("fail_counts", &mut tot.fail_counts),
	]
	{
		if let Some(m) = r[name].as_object()
		{
			for (k, v) in m
			{
				*target.entry(k.clone()).or_insert(0) += v.as_u64().unwrap_or(0);
			}
		}
	}
	if let Some(s) = r["samples"].as_array()
	{
		for x in s
		{
			let n_of_stream = tot
				.samples
				.iter()
				.filter(|v| v["stream"].as_str() == Some(sname))
				.count();
			if n_of_stream < 2 && tot.samples.len() < 12
			{
				tot.samples.push(json!({"stream": sname, "case": x}));
			}
		}
	}
	if let Some(fs) = r["failures"].as_array()
	{
		for f in fs
		{
			let sig = f["sig"].as_str().unwrap_or("?").to_string();
			let idx = f["idx"].as_u64().unwrap_or(0);
			let e = tot.reps.entry(sig);
			match e
			{
				std::collections::btree_map::Entry::Vacant(v) =>
				{
					v.insert((sname.to_string(), idx, f["detail"].clone()));
				}
				std::collections::btree_map::Entry::Occupied(mut o) =>
				{
					// keep the smallest index: deterministic representative
					if (sname, idx) < (o.get().0.as_str(), o.get().1)
					{
						o.insert((sname.to_string(), idx, f["detail"].clone()));
					}
				}
			}
		}
	}
}

struct Block
{
	stream: usize,
	from: u64,
	to: u64,
	stride: u64,
}

pub struct RunConfig
{
	pub tier: Tier,
	pub seed: u64,
	pub threads: usize,
}

enum BlockEnd
{
	Done,
	Crashed
	{
		at: u64,
		stride_end: u64,
		sig: String,
		tail: String,
	},
	TimedOut
	{
		at: u64,
		stride_end: u64,
	},
}

fn run_block(
	w: &mut Worker,
	id: &str,
	sname: &str,
	b: &Block,
	cfg: &RunConfig,
	timeout: Duration,
	sample_upto: u64,
	tot: &Mutex<Totals>,
) -> BlockEnd
{
	let req = json!({"id": id, "stream": sname, "tier": cfg.tier.name(), "seed": cfg.seed,
		"from": b.from, "to": b.to, "stride": b.stride, "sample_upto": sample_upto});
	if writeln!(w.stdin, "{}", req).is_err() || w.stdin.flush().is_err()
	{
		let (sig, tail) = w.death_signature();
		return BlockEnd::Crashed {
			at: b.from,
			stride_end: (b.from + b.stride).min(b.to),
			sig,
			tail,
		};
	}
	let mut started = b.from;
	loop
	{
		match w.rx.recv_timeout(timeout)
		{
			Ok(line) =>
			{
				if let Some(rest) = line.strip_prefix("S ")
				{
					started = rest.trim().parse().unwrap_or(started);
				}
				else if let Some(rest) = line.strip_prefix("R ")
				{
					let r: Value = serde_json::from_str(rest).unwrap_or(Value::Null);
					let mut t = tot.lock().unwrap();
					merge(&mut t, sname, &r);
					w.served += r["evals"].as_u64().unwrap_or(0);
				}
				else if line == "D"
				{
					return BlockEnd::Done;
				}
			}
			Err(RecvTimeoutError::Timeout) =>
			{
				return BlockEnd::TimedOut {
					at: started,
					stride_end: (started + b.stride).min(b.to),
				};
			}
			Err(RecvTimeoutError::Disconnected) =>
			{
				let (sig, tail) = w.death_signature();
				return BlockEnd::Crashed {
					at: started,
					stride_end: (started + b.stride).min(b.to),
					sig,
					tail,
				};
			}
		}
	}
}

pub fn files_of_json(a: &[Value]) -> Vec<(String, String)>
{
	a.iter()
		.map(|f| {
			(
				f["file"].as_str().unwrap_or("main.pn").to_string(),
				f["source"].as_str().unwrap_or("").to_string(),
			)
		})
		.collect()
}

pub fn files_to_json(files: &[(String, String)]) -> Value
{
	json!(files.iter().map(|(n, s)| json!({"file": n, "source": s})).collect::<Vec<_>>())
}

fn run_single(
	id: &str,
	sname: &str,
	idx: u64,
	choices: &[u32],
	cfg: &RunConfig,
	timeout: Duration,
	replay: bool,
) -> Vec<(String, Value)>
{
	let req = json!({"id": id, "stream": sname, "tier": cfg.tier.name(), "seed": cfg.seed,
		"idx": idx, "choices": choices, "replay": replay});
	run_request(sname, req, timeout)
}

/// the check's source-level oracle on literal files, in a fresh worker
fn run_source(
	id: &str,
	sname: &str,
	files: &[(String, String)],
	cfg: &RunConfig,
	timeout: Duration,
) -> Vec<(String, Value)>
{
	let req = json!({"id": id, "stream": sname, "tier": cfg.tier.name(), "seed": cfg.seed,
		"source": files_to_json(files)});
	run_request(sname, req, timeout)
}

pub fn hex(b: &[u8]) -> String
{
	let mut s = String::with_capacity(b.len() * 2);
	for x in b
	{
		s.push_str(&format!("{:02x}", x));
	}
	s
}

pub fn unhex(h: &str) -> Vec<u8>
{
	let h = h.as_bytes();
	(0..h.len() / 2)
		.map(|i| u8::from_str_radix(std::str::from_utf8(&h[2 * i..2 * i + 2]).unwrap_or("00"), 16).unwrap_or(0))
		.collect()
}

/// the check's byte-level oracle on one input, in a fresh worker
fn run_bytes(id: &str, sname: &str, bytes: &[u8], cfg: &RunConfig, timeout: Duration) -> Vec<(String, Value)>
{
	let req = json!({"id": id, "stream": sname, "tier": cfg.tier.name(), "seed": cfg.seed,
		"bytes_hex": hex(bytes)});
	run_request(sname, req, timeout)
}

fn run_request(sname: &str, req: Value, timeout: Duration) -> Vec<(String, Value)>
{
	let per_stream_sigs = PER_STREAM_SIGS.load(Ordering::SeqCst) != 0;
	let input_path = scratch_dir().join(format!(
		"last-input-{}-{}.txt",
		std::process::id(),
		WORKER_SEQ.fetch_add(1, Ordering::SeqCst)
	));
	let mut w = Worker::spawn_with(Some(&input_path));
	let mut res = Vec::new();
	if writeln!(w.stdin, "{}", req).is_err() || w.stdin.flush().is_err()
	{
		let (sig, tail) = w.death_signature();
		res.push((sig, json!({"stderr_tail": tail})));
		w.kill();
		return res;
	}
	loop
	{
		match w.rx.recv_timeout(timeout)
		{
			Ok(line) =>
			{
				if let Some(rest) = line.strip_prefix("R ")
				{
					let r: Value = serde_json::from_str(rest).unwrap_or(Value::Null);
					if let Some(fs) = r["failures"].as_array()
					{
						for f in fs
						{
							res.push((
								f["sig"].as_str().unwrap_or("?").to_string(),
								f["detail"].clone(),
							));
						}
					}
					break;
				}
			}
			Err(RecvTimeoutError::Timeout) =>
			{
				res.push(("timeout".to_string(), json!({})));
				break;
			}
			Err(RecvTimeoutError::Disconnected) =>
			{
				let (sig, tail) = w.death_signature();
				let sig = if per_stream_sigs { format!("{} [stream {}]", sig, sname) } else { sig };
				let last: Value = std::fs::read_to_string(&input_path)
					.ok()
					.and_then(|t| serde_json::from_str(&t).ok())
					.unwrap_or(Value::Null);
				res.push((sig, json!({"stderr_tail": tail, "crashed": true, "last_input": last})));
				break;
			}
		}
	}
	let _ = std::fs::remove_file(&input_path);
	w.kill();
	res
}

pub struct KnownFindings
{
	pub entries: Vec<(String, String, String)>, // (property, signature, what)
}

impl KnownFindings
{
	pub fn load() -> KnownFindings
	{
		let path = verif_root().join("known_findings.json");
		let mut entries = Vec::new();
		if let Ok(text) = std::fs::read_to_string(&path)
		{
			if let Ok(v) = serde_json::from_str::<Value>(&text)
			{
				if let Some(a) = v["findings"].as_array()
				{
					for f in a
					{
						entries.push((
							f["property"].as_str().unwrap_or("").to_string(),
							f["signature"].as_str().unwrap_or("").to_string(),
							f["what"].as_str().unwrap_or("").to_string(),
						));
					}
				}
			}
		}
		KnownFindings { entries }
	}
	pub fn find(&self, id: &str, sig: &str) -> Option<&str>
	{
		self.entries
			.iter()
			.find(|(p, s, _)| p == id && s == sig)
			.map(|(_, _, w)| w.as_str())
	}
}

pub fn verif_root() -> std::path::PathBuf
{
	std::path::PathBuf::from(
		std::env::var("PV_ROOT").unwrap_or_else(|_| "/verif".to_string()),
	)
}

fn shrink(
	id: &str,
	sname: &str,
	idx: u64,
	clen: usize,
	sig: &str,
	cfg: &RunConfig,
	timeout: Duration,
) -> (Vec<u32>, Value, u32)
{
	let mut best = case_tree(cfg.seed, id, sname, idx, clen).current();
	let mut best_detail = Value::Null;
	let mut steps = 0u32;
	let budget = 250u32;
	let deadline = Instant::now() + Duration::from_secs(180);
	// confirm and fetch detail
	let r = run_single(id, sname, idx, &best, cfg, timeout, false);
	if let Some((_, d)) = r.iter().find(|(s, _)| s == sig)
	{
		best_detail = d.clone();
	}
	else
	{
		return (best, best_detail, 0);
	}
	// pass 1: shortest failing prefix (an exhausted choice vector decodes to
	// the simplest alternatives, so truncation removes whole sub-structures)
	let still_fails = |v: &[u32], steps: &mut u32| -> Option<Value> {
		*steps += 1;
		let r = run_single(id, sname, idx, v, cfg, timeout, false);
		r.into_iter().find(|(s, _)| s == sig).map(|(_, d)| d)
	};
	{
		let (mut lo, mut hi) = (0usize, best.len());
		while lo < hi && Instant::now() < deadline
		{
			let mid = (lo + hi) / 2;
			if let Some(d) = still_fails(&best[..mid], &mut steps)
			{
				hi = mid;
				best_detail = d;
			}
			else
			{
				lo = mid + 1;
			}
		}
		best.truncate(hi);
	}
	// pass 2: delete chunks, then zero single choices
	let mut chunk = (best.len() / 2).max(1);
	while chunk >= 1 && steps < 600 && Instant::now() < deadline
	{
		let mut i = 0;
		let mut progressed = false;
		while i + chunk <= best.len() && steps < 600 && Instant::now() < deadline
		{
			let mut cand = best.clone();
			cand.drain(i..i + chunk);
			if let Some(d) = still_fails(&cand, &mut steps)
			{
				best = cand;
				best_detail = d;
				progressed = true;
			}
			else
			{
				i += chunk;
			}
		}
		if chunk == 1 && !progressed
		{
			break;
		}
		if !progressed || chunk > 1
		{
			chunk /= 2;
		}
		if chunk == 0
		{
			break;
		}
	}
	let mut i = 0;
	while i < best.len() && steps < 900 && Instant::now() < deadline
	{
		if best[i] != 0
		{
			let mut cand = best.clone();
			cand[i] = 0;
			if let Some(d) = still_fails(&cand, &mut steps)
			{
				best = cand;
				best_detail = d;
			}
		}
		i += 1;
	}
	(best, best_detail, steps)
}

/// the source files of a failing case, from the failure's detail
fn source_of_detail(detail: &Value) -> Option<Vec<(String, String)>>
{
	for key in ["last_input", "files"]
	{
		if let Some(a) = detail.get(key).and_then(|v| v.as_array())
		{
			if !a.is_empty() && a.iter().all(|f| f.get("source").map(|s| s.is_string()).unwrap_or(false))
			{
				return Some(files_of_json(a));
			}
		}
	}
	None
}

/// Delta debugging over a list of pieces: delete chunks of halving size while
/// `fails` still holds for the concatenation.
fn ddmin(
	mut pieces: Vec<Vec<u8>>,
	fails: &mut dyn FnMut(&[u8]) -> bool,
	out_of_budget: &dyn Fn() -> bool,
) -> Vec<Vec<u8>>
{
	let mut chunk = (pieces.len() / 2).max(1);
	loop
	{
		let mut i = 0;
		let mut progressed = false;
		while i < pieces.len() && !out_of_budget()
		{
			let end = (i + chunk).min(pieces.len());
			let mut cand = pieces.clone();
			cand.drain(i..end);
			if fails(&cand.concat())
			{
				pieces = cand;
				progressed = true;
			}
			else
			{
				i = end;
			}
		}
		if out_of_budget()
		{
			break;
		}
		if chunk == 1
		{
			if !progressed
			{
				break;
			}
		}
		else
		{
			chunk /= 2;
		}
	}
	pieces
}

fn split_lines(t: &[u8]) -> Vec<Vec<u8>>
{
	t.split_inclusive(|b| *b == b'\n').map(|l| l.to_vec()).collect()
}

fn split_tokens(t: &[u8]) -> Vec<Vec<u8>>
{
	let toks = crate::reflex::lex(t).toks;
	let mut cuts: Vec<usize> = toks.iter().map(|k| k.start).filter(|&a| a > 0 && a < t.len()).collect();
	cuts.dedup();
	let mut out = Vec::new();
	let mut from = 0;
	for c in cuts
	{
		if c > from
		{
			out.push(t[from..c].to_vec());
			from = c;
		}
	}
	out.push(t[from..].to_vec());
	out
}

/// Reduce the source of a failing case while the same signature is produced:
/// whole files, then chunks of lines, then chunks of tokens (delta debugging).
fn reduce_source(
	id: &str,
	sname: &str,
	files: Vec<(String, String)>,
	sig: &str,
	cfg: &RunConfig,
	timeout: Duration,
) -> Option<(Vec<(String, String)>, u32)>
{
	let deadline = Instant::now() + Duration::from_secs(240);
	let steps = std::cell::Cell::new(0u32);
	let max_steps = 1500u32;
	let fails_files = |f: &[(String, String)]| -> bool {
		steps.set(steps.get() + 1);
		run_source(id, sname, f, cfg, timeout).iter().any(|(s, _)| s == sig)
	};
	if !fails_files(&files)
	{
		return None;
	}
	let mut best = files;
	// whole files (module sets)
	let mut i = 0;
	while best.len() > 1 && i < best.len()
	{
		let mut cand = best.clone();
		cand.remove(i);
		if fails_files(&cand)
		{
			best = cand;
		}
		else
		{
			i += 1;
		}
	}
	let out_of_budget = || steps.get() >= max_steps || Instant::now() >= deadline;
	for split in [split_lines as fn(&[u8]) -> Vec<Vec<u8>>, split_tokens, split_lines]
	{
		for fi in 0..best.len()
		{
			let pieces = split(best[fi].1.as_bytes());
			let snapshot = best.clone();
			let mut test = |text: &[u8]| -> bool {
				match std::str::from_utf8(text)
				{
					Ok(t) =>
					{
						let mut cand = snapshot.clone();
						cand[fi].1 = t.to_string();
						fails_files(&cand)
					}
					Err(_) => false,
				}
			};
			let pieces = ddmin(pieces, &mut test, &out_of_budget);
			if let Ok(t) = String::from_utf8(pieces.concat())
			{
				best[fi].1 = t;
			}
		}
	}
	Some((best, steps.get()))
}

/// the same for an input that is just bytes (fuzzing artifacts)
fn reduce_bytes(
	id: &str,
	sname: &str,
	bytes: Vec<u8>,
	sig: &str,
	cfg: &RunConfig,
	timeout: Duration,
) -> (Vec<u8>, u32)
{
	let deadline = Instant::now() + Duration::from_secs(180);
	let steps = std::cell::Cell::new(0u32);
	let out_of_budget = || steps.get() >= 1200 || Instant::now() >= deadline;
	let mut fails = |b: &[u8]| -> bool {
		steps.set(steps.get() + 1);
		run_bytes(id, sname, b, cfg, timeout).iter().any(|(s, _)| s == sig)
	};
	let mut best = bytes;
	for split in [split_lines as fn(&[u8]) -> Vec<Vec<u8>>, split_tokens]
	{
		best = ddmin(split(&best), &mut fails, &out_of_budget).concat();
	}
	if best.len() <= 4096
	{
		let single: Vec<Vec<u8>> = best.iter().map(|b| vec![*b]).collect();
		best = ddmin(single, &mut fails, &out_of_budget).concat();
	}
	(best, steps.get())
}

// ------------------------------------------------------------------ fuzzing

thread_local! {
	static LAST_PANIC: std::cell::RefCell<Option<String>> = const { std::cell::RefCell::new(None) };
}

/// Body of every libFuzzer target: the check's byte-level oracle on one
/// input. A failure or panic whose signature is a recorded known finding is
/// tolerated (so that a campaign continues past it); anything else aborts,
/// which makes libFuzzer save the input.
pub fn fuzz_one(check: &dyn Check, data: &[u8])
{
	static INIT: std::sync::Once = std::sync::Once::new();
	static KNOWN: std::sync::OnceLock<KnownFindings> = std::sync::OnceLock::new();
	INIT.call_once(|| {
		// replaces libfuzzer-sys's abort-on-panic hook: panics are classified first
		std::panic::set_hook(Box::new(|info| {
			let loc = info
				.location()
				.map(|l| format!("{}:{}", l.file(), l.line()))
				.unwrap_or_else(|| "?".to_string());
			let msg = if let Some(s) = info.payload().downcast_ref::<&str>()
			{
				s.to_string()
			}
			else if let Some(s) = info.payload().downcast_ref::<String>()
			{
				s.clone()
			}
			else
			{
				"?".to_string()
			};
			let msg: String = msg.chars().take(300).collect::<String>().replace('\n', " ");
			LAST_PANIC.with(|p| *p.borrow_mut() = Some(normalize_panic(&loc, &msg)));
		}));
		let _ = KNOWN.set(KnownFindings::load());
	});
	let known = KNOWN.get().unwrap();
	let id = check.id();
	let tolerated = |sig: &str| -> bool {
		known
			.entries
			.iter()
			.any(|(p, s, _)| p == id && (s == sig || s.starts_with(&format!("{} in ", sig)) || s.starts_with(&format!("{} [", sig))))
	};
	// deep recursion in a parser is not these properties' subject: give the
	// oracle a large stack of its own
	let r = std::thread::scope(|sc| {
		std::thread::Builder::new()
			.stack_size(1 << 30)
			.spawn_scoped(sc, || {
				let r = std::panic::catch_unwind(std::panic::AssertUnwindSafe(|| check.judge_bytes(data)));
				let sig = LAST_PANIC.with(|p| p.borrow_mut().take());
				(r, sig)
			})
			.expect("spawn")
			.join()
			.expect("join")
	});
	let (r, panic_sig) = r;
	match r
	{
		Ok(Some(out)) =>
		{
			for f in out.failures
			{
				if !tolerated(&f.sig)
				{
					eprintln!("ORACLE {}", f.sig);
					std::process::abort();
				}
			}
		}
		Ok(None) => (),
		Err(_) =>
		{
			let sig = panic_sig.unwrap_or_else(|| "panic ?".to_string());
			if !tolerated(&sig)
			{
				eprintln!("ORACLE {}", sig);
				std::process::abort();
			}
		}
	}
}

struct FuzzOutcome
{
	evidence: Value,
	executions: u64,
	corpus_units: u64,
	/// (signature, detail, bytes)
	failures: Vec<(String, Value, Vec<u8>)>,
	inconclusive: u64,
}

/// One coverage-guided campaign: build the target (libFuzzer, ASan, debug
/// assertions) from /repo's working tree, run `jobs` processes of
/// `runs_per_job` executions each over a fresh corpus directory, then judge
/// every saved artifact with the check's own oracle in a worker process.
fn run_fuzz(check: &dyn Check, spec: &FuzzSpec, cfg: &RunConfig) -> Result<FuzzOutcome, String>
{
	let id = check.id();
	let root = verif_root();
	let target_dir = root.join("target").join("fuzz");
	let log_dir = scratch_dir().join(format!("fuzz-{}-{}", spec.target, std::process::id()));
	let _ = std::fs::remove_dir_all(&log_dir);
	let corpus = log_dir.join("corpus");
	let artifacts = log_dir.join("artifacts");
	std::fs::create_dir_all(&corpus).map_err(|e| e.to_string())?;
	std::fs::create_dir_all(&artifacts).map_err(|e| e.to_string())?;
	let t0 = Instant::now();
	let build = Command::new("cargo")
		.args(["+nightly", "fuzz", "build", "--fuzz-dir"])
		.arg(root.join("fuzz"))
		.arg("--target-dir")
		.arg(&target_dir)
		.arg(spec.target)
		.current_dir(root.join("fuzz"))
		.env_remove("CARGO_TARGET_DIR")
		.output()
		.map_err(|e| format!("cannot run cargo fuzz: {}", e))?;
	if !build.status.success()
	{
		let err = String::from_utf8_lossy(&build.stderr);
		let tail: String = err.lines().rev().take(25).collect::<Vec<_>>().into_iter().rev().collect::<Vec<_>>().join("\n");
		return Err(format!("fuzz target {} does not build:\n{}", spec.target, tail));
	}
	let build_s = t0.elapsed().as_secs_f64();
	let bin = target_dir.join("x86_64-unknown-linux-gnu").join("release").join(spec.target);
	for (i, sd) in spec.seeds.iter().enumerate()
	{
		let _ = std::fs::write(corpus.join(format!("seed-{:04}", i)), sd);
	}
	let dict = log_dir.join("dict.txt");
	if !spec.dictionary.is_empty()
	{
		let mut text = String::new();
		for w in &spec.dictionary
		{
			let mut esc = String::new();
			for b in w.bytes()
			{
				if b == b'"' || b == b'\\' || !(0x20..0x7f).contains(&b)
				{
					esc.push_str(&format!("\\x{:02x}", b));
				}
				else
				{
					esc.push(b as char);
				}
			}
			text.push_str(&format!("\"{}\"\n", esc));
		}
		let _ = std::fs::write(&dict, text);
	}
	// development aid: PV_FUZZ_RUNS overrides the executions per job
	let runs_per_job = std::env::var("PV_FUZZ_RUNS").ok().and_then(|v| v.parse::<u64>().ok()).unwrap_or(spec.runs_per_job);
	let t1 = Instant::now();
	let mut children = Vec::new();
	for j in 0..spec.jobs.max(1)
	{
		let log = std::fs::File::create(log_dir.join(format!("job-{}.log", j))).map_err(|e| e.to_string())?;
		let mut cmd = Command::new(&bin);
		cmd.arg(format!("-runs={}", runs_per_job))
			// libFuzzer treats seed 0 as "random"
			.arg(format!("-seed={}", 1 + (cfg.seed.wrapping_mul(1000) + j as u64) % 4_000_000_000))
			.arg(format!("-max_len={}", spec.max_len))
			.arg("-timeout=60")
			.arg("-rss_limit_mb=6144")
			.arg("-print_final_stats=1")
			.arg(format!("-artifact_prefix={}/", artifacts.display()));
		if !spec.dictionary.is_empty()
		{
			cmd.arg(format!("-dict={}", dict.display()));
		}
		cmd.arg(&corpus)
			.env("PV_ROOT", &root)
			.env("ASAN_OPTIONS", "detect_leaks=0:abort_on_error=1:symbolize=1")
			.stdin(Stdio::null())
			.stdout(Stdio::null())
			.stderr(Stdio::from(log));
		children.push(cmd.spawn().map_err(|e| format!("cannot start {}: {}", bin.display(), e))?);
	}
	// fixed work; the watchdog only guards against a wedged process
	let watchdog = Duration::from_secs(1800 + runs_per_job / 200);
	let mut inconclusive = 0u64;
	for c in children.iter_mut()
	{
		loop
		{
			match c.try_wait()
			{
				Ok(Some(_)) => break,
				Ok(None) =>
				{
					if t1.elapsed() > watchdog
					{
						let _ = c.kill();
						let _ = c.wait();
						inconclusive += 1;
						break;
					}
					std::thread::sleep(Duration::from_millis(200));
				}
				Err(_) => break,
			}
		}
	}
	let run_s = t1.elapsed().as_secs_f64();
	// statistics from the logs
	let mut executions = 0u64;
	let mut cov = 0u64;
	let mut ft = 0u64;
	let mut logs_tail = Vec::new();
	for j in 0..spec.jobs.max(1)
	{
		let text = std::fs::read(log_dir.join(format!("job-{}.log", j)))
			.map(|b| String::from_utf8_lossy(&b).to_string())
			.unwrap_or_default();
		let mut execs_of_job = 0u64;
		for l in text.lines()
		{
			if let Some(rest) = l.strip_prefix("stat::number_of_executed_units:")
			{
				execs_of_job = rest.trim().parse().unwrap_or(0);
			}
			if l.starts_with('#')
			{
				let words: Vec<&str> = l.split_whitespace().collect();
				if execs_of_job == 0
				{
					if let Some(n) = words.first().and_then(|w| w[1..].parse::<u64>().ok())
					{
						execs_of_job = execs_of_job.max(n);
					}
				}
				for w in words.windows(2)
				{
					if w[0] == "cov:"
					{
						cov = cov.max(w[1].parse().unwrap_or(0));
					}
					if w[0] == "ft:"
					{
						ft = ft.max(w[1].parse().unwrap_or(0));
					}
				}
			}
		}
		executions += execs_of_job;
		logs_tail.push(text);
	}
	let corpus_units = std::fs::read_dir(&corpus).map(|d| d.count() as u64).unwrap_or(0);
	// artifacts
	let mut failures = Vec::new();
	let mut arts: Vec<std::path::PathBuf> = std::fs::read_dir(&artifacts)
		.map(|d| d.filter_map(|e| e.ok()).map(|e| e.path()).collect())
		.unwrap_or_default();
	arts.sort();
	let sname = format!("fuzz:{}", spec.target);
	let mut seen = HashSet::new();
	for a in arts.iter()
	{
		let name = a.file_name().map(|n| n.to_string_lossy().to_string()).unwrap_or_default();
		let bytes = std::fs::read(a).unwrap_or_default();
		if name.starts_with("timeout-") || name.starts_with("oom-") || name.starts_with("slow-unit-")
		{
			if !name.starts_with("slow-unit-")
			{
				inconclusive += 1;
				eprintln!("[{}] fuzz {}: {} (inconclusive, {} bytes)", id, spec.target, name, bytes.len());
			}
			continue;
		}
		let res = run_bytes(id, &sname, &bytes, cfg, Duration::from_secs(120));
		if res.is_empty()
		{
			// not reproduced by the oracle in a fresh process: take the class
			// from the fuzzer's own report (sanitizer findings end up here)
			let mut sig = String::from("fuzz artifact not reproduced outside the fuzzer");
			for t in &logs_tail
			{
				if let Some(l) = t.lines().find(|l| l.contains("ERROR: AddressSanitizer") || l.starts_with("ORACLE "))
				{
					let frame = t
						.lines()
						.skip_while(|x| !x.contains("ERROR: AddressSanitizer"))
						.find(|x| x.contains(" in penne::") || x.contains(" in <penne::"))
						.and_then(|x| x.split(" in ").nth(1))
						.map(|x| x.split(" /").next().unwrap_or(x).to_string())
						.unwrap_or_default();
					let l: String = l.chars().take(100).collect();
					let kind = l.split("AddressSanitizer:").nth(1).map(|k| k.split_whitespace().next().unwrap_or("").to_string());
					sig = match kind
					{
						Some(k) => format!("asan {} {}", k, frame).trim().to_string(),
						None => l.trim_start_matches("ORACLE ").to_string(),
					};
					break;
				}
			}
			if seen.insert(sig.clone())
			{
				failures.push((sig, json!({"artifact": name, "reproduced": false}), bytes));
			}
			continue;
		}
		for (sig, detail) in res
		{
			if sig == "timeout"
			{
				inconclusive += 1;
				continue;
			}
			if seen.insert(sig.clone())
			{
				failures.push((sig, detail, bytes.clone()));
			}
		}
	}
	// a few corpus units as samples
	let mut samples = Vec::new();
	if let Ok(rd) = std::fs::read_dir(&corpus)
	{
		let mut names: Vec<_> = rd.filter_map(|e| e.ok()).map(|e| e.path()).collect();
		names.sort();
		for pth in names.iter().rev().take(3)
		{
			if let Ok(b) = std::fs::read(pth)
			{
				let t: String = String::from_utf8_lossy(&b).chars().take(300).collect();
				samples.push(json!({"bytes": b.len(), "text": t}));
			}
		}
	}
	let evidence = json!({
		"target": spec.target,
		"engine": "libFuzzer (cargo-fuzz, AddressSanitizer, debug assertions on)",
		"jobs": spec.jobs,
		"runs_per_job": runs_per_job,
		"max_len": spec.max_len,
		"seed_corpus_units": spec.seeds.len(),
		"executions": executions,
		"final_corpus_units": corpus_units,
		"coverage_edges": cov,
		"coverage_features": ft,
		"artifacts": arts.len(),
		"build_s": build_s,
		"run_s": run_s,
		"samples": samples,
	});
	let _ = std::fs::remove_dir_all(&log_dir);
	Ok(FuzzOutcome {
		evidence,
		executions,
		corpus_units,
		failures,
		inconclusive,
	})
}

pub fn run_check(check: &dyn Check, cfg: &RunConfig) -> i32
{
	PER_STREAM_SIGS.store(check.crash_sig_per_stream() as u64, Ordering::SeqCst);
	let t0 = Instant::now();
	let id = check.id();
	let streams = check.streams();
	let tot = Arc::new(Mutex::new(Totals::default()));
	let mut exhaustive_all = true;
	let mut any = false;
	// development aid: PV_ONLY_FUZZ=1 skips the generated streams
	let only_fuzz = std::env::var("PV_ONLY_FUZZ").map(|v| v == "1").unwrap_or(false);
	for (si, s) in streams.iter().enumerate()
	{
		let n = if only_fuzz { 0 } else { s.count(cfg.tier) };
		if n == 0
		{
			continue;
		}
		any = true;
		if !s.exhaustive()
		{
			exhaustive_all = false;
		}
		let sname = s.name();
		let stride = s.stride();
		let timeout = s.timeout();
		let crash_counts = s.crash_is_failure();
		let per_stream_sigs = s.crash_sig_per_stream().unwrap_or(check.crash_sig_per_stream());
		// blocks of a multiple of stride
		let threads = cfg.threads.max(1) as u64;
		let mut per_block = (n / (threads * 8)).max(1);
		per_block = ((per_block + stride - 1) / stride) * stride;
		per_block = per_block.min(stride.max(2000));
		let queue: Arc<Mutex<Vec<Block>>> = Arc::new(Mutex::new(Vec::new()));
		{
			let mut q = queue.lock().unwrap();
			let mut a = 0;
			while a < n
			{
				let b = (a + per_block).min(n);
				q.push(Block {
					stream: si,
					from: a,
					to: b,
					stride,
				});
				a = b;
			}
			q.reverse();
		}
		std::thread::scope(|scope| {
			for _ in 0..cfg.threads.max(1).min(n as usize)
			{
				let queue = queue.clone();
				let tot = tot.clone();
				let sname = sname.clone();
				scope.spawn(move || {
					let mut w: Option<Worker> = None;
					loop
					{
						let blk = { queue.lock().unwrap().pop() };
						let blk = match blk
						{
							Some(b) => b,
							None => break,
						};
						let _ = blk.stream;
						if w.as_ref().map(|w| w.served > 3000).unwrap_or(false)
						{
							w.take().unwrap().kill();
						}
						if w.is_none()
						{
							w = Some(Worker::spawn());
						}
						let end = run_block(
							w.as_mut().unwrap(),
							id,
							&sname,
							&blk,
							cfg,
							timeout,
							3,
							&tot,
						);
						match end
						{
							BlockEnd::Done =>
							{}
							BlockEnd::Crashed {
								at,
								stride_end,
								sig,
								tail,
							} =>
							{
								// a crash is attributed to the stream it happened in, so
								// that a recorded crash of one stream cannot hide another
								let sig = if per_stream_sigs
								{
									format!("{} [stream {}]", sig, sname)
								}
								else
								{
									sig
								};
								w.take().unwrap().kill();
								let mut q = queue.lock().unwrap();
								if blk.stride > 1 && stride_end - at > 1
								{
									// pinpoint inside the stride block
									q.push(Block {
										stream: blk.stream,
										from: at,
										to: stride_end,
										stride: 1,
									});
								}
								else if !crash_counts
								{
									let mut t = tot.lock().unwrap();
									t.evals += 1;
									*t.discards
										.entry(format!("worker crashed ({}): not this property's subject", sig))
										.or_insert(0) += 1;
								}
								else
								{
									let mut t = tot.lock().unwrap();
									t.evals += 1;
									*t.fail_counts.entry(sig.clone()).or_insert(0) += 1;
									t.reps.entry(sig.clone()).or_insert((
										sname.clone(),
										at,
										json!({"crashed": true, "stderr_tail": tail}),
									));
								}
								if stride_end < blk.to
								{
									q.push(Block {
										stream: blk.stream,
										from: stride_end,
										to: blk.to,
										stride: blk.stride,
									});
								}
							}
							BlockEnd::TimedOut { at, stride_end } =>
							{
								w.take().unwrap().kill();
								let mut q = queue.lock().unwrap();
								if blk.stride > 1 && stride_end - at > 1
								{
									q.push(Block {
										stream: blk.stream,
										from: at,
										to: stride_end,
										stride: 1,
									});
								}
								else
								{
									let mut t = tot.lock().unwrap();
									t.timeouts += 1;
									eprintln!(
										"[{}] watchdog: stream {} case {} did not finish",
										id, sname, at
									);
								}
								if stride_end < blk.to
								{
									q.push(Block {
										stream: blk.stream,
										from: stride_end,
										to: blk.to,
										stride: blk.stride,
									});
								}
							}
						}
					}
					if let Some(w) = w
					{
						w.kill();
					}
				});
			}
		});
	}
	if !any
	{
		exhaustive_all = false;
	}

	let mut tot = Arc::try_unwrap(tot)
		.unwrap_or_else(|_| panic!("totals still shared"))
		.into_inner()
		.unwrap();

	// ---- coverage-guided campaigns
	let mut fuzz_evidence = Vec::new();
	let mut fuzz_failures: BTreeMap<String, (String, Value, Vec<u8>)> = BTreeMap::new();
	let mut fuzz_units = 0u64;
	for spec in check.fuzz_specs(cfg.tier)
	{
		exhaustive_all = false;
		match run_fuzz(check, &spec, cfg)
		{
			Ok(o) =>
			{
				tot.evals += o.executions;
				*tot.per_stream.entry(format!("fuzz:{}", spec.target)).or_insert(0) += o.executions;
				fuzz_units += o.corpus_units;
				tot.timeouts += o.inconclusive;
				fuzz_evidence.push(o.evidence);
				for (sig, detail, bytes) in o.failures
				{
					*tot.fail_counts.entry(sig.clone()).or_insert(0) += 1;
					fuzz_failures.entry(sig).or_insert((format!("fuzz:{}", spec.target), detail, bytes));
				}
			}
			Err(e) =>
			{
				// the campaign could not run: inconclusive, never a violation
				eprintln!("[{}] {}", id, e);
				tot.timeouts += 1;
				fuzz_evidence.push(json!({"target": spec.target, "error": e}));
			}
		}
	}

	// ---- triage failures
	let known = KnownFindings::load();
	let mut violations = 0;
	let mut excluded: BTreeMap<String, u64> = BTreeMap::new();
	let reps = std::mem::take(&mut tot.reps);
	let mut lines = Vec::new();
	for (sig, (sname, idx, detail)) in reps.iter()
	{
		let count = tot.fail_counts.get(sig).copied().unwrap_or(1);
		if let Some(what) = known.find(id, sig)
		{
			lines.push(format!(
				"KNOWN-FINDING: property={} {} [signature: {}; hit {} times]",
				id, what, sig, count
			));
			excluded.insert(sig.clone(), count);
			continue;
		}
		violations += 1;
		let stream = streams.iter().find(|s| &s.name() == sname).unwrap();
		PER_STREAM_SIGS.store(
			stream.crash_sig_per_stream().unwrap_or(check.crash_sig_per_stream()) as u64,
			Ordering::SeqCst,
		);
		let clen = stream.choice_len();
		// development aid: PV_NO_SHRINK=1 reports the unshrunk case at once
		let no_shrink = std::env::var("PV_NO_SHRINK").map(|v| v == "1").unwrap_or(false);
		let (choices, detail2, steps) = if clen > 0 && !no_shrink
		{
			let (c, d, st) =
				shrink(id, sname, *idx, clen, sig, cfg, stream.timeout());
			if d.is_null()
			{
				(c, detail.clone(), st)
			}
			else
			{
				(c, d, st)
			}
		}
		else
		{
			(Vec::new(), detail.clone(), 0)
		};
		// source-level reduction, for checks whose oracle needs only the source
		let reduced = match source_of_detail(&detail2)
		{
			Some(files) if check.source_level(sname) && !no_shrink =>
			{
				reduce_source(id, sname, files, sig, cfg, stream.timeout())
			}
			_ => None,
		};
		let dir = verif_root().join("replays").join(id);
		let _ = std::fs::create_dir_all(&dir);
		let h = crate::choices::fnv(&format!("{}|{}", sig, sname));
		let path = dir.join(format!("{:016x}.json", h));
		let replay = json!({
			"property": id,
			"stream": sname,
			"idx": idx,
			"seed": cfg.seed,
			"tier": cfg.tier.name(),
			"choices": choices,
			"signature": sig,
			"occurrences_in_run": count,
			"shrink_steps": steps,
			"detail": detail2,
			"reduced_source": reduced.as_ref().map(|(f, _)| files_to_json(f)),
			"reduce_steps": reduced.as_ref().map(|(_, n)| *n),
		});
		let _ = std::fs::write(&path, serde_json::to_string_pretty(&replay).unwrap());
		lines.push(format!("VIOLATION property={} replay={}", id, path.display()));
		eprintln!("[{}] new failure signature: {} ({} times)", id, sig, count);
	}

	for (sig, (sname, detail, bytes)) in fuzz_failures.iter()
	{
		let count = tot.fail_counts.get(sig).copied().unwrap_or(1);
		if let Some(what) = known.find(id, sig)
		{
			lines.push(format!(
				"KNOWN-FINDING: property={} {} [signature: {}; hit {} times]",
				id, what, sig, count
			));
			excluded.insert(sig.clone(), count);
			continue;
		}
		violations += 1;
		let reproduced = detail.get("reproduced").and_then(|r| r.as_bool()).unwrap_or(true);
		let (small, steps) = if reproduced
		{
			reduce_bytes(id, sname, bytes.clone(), sig, cfg, Duration::from_secs(120))
		}
		else
		{
			(bytes.clone(), 0)
		};
		let dir = verif_root().join("replays").join(id);
		let _ = std::fs::create_dir_all(&dir);
		let h = crate::choices::fnv(&format!("{}|{}", sig, sname));
		let path = dir.join(format!("{:016x}.json", h));
		let replay = json!({
			"property": id,
			"stream": sname,
			"seed": cfg.seed,
			"tier": cfg.tier.name(),
			"signature": sig,
			"bytes_hex": hex(&small),
			"text": String::from_utf8_lossy(&small),
			"original_bytes_hex": hex(bytes),
			"reduce_steps": steps,
			"detail": detail,
		});
		let _ = std::fs::write(&path, serde_json::to_string_pretty(&replay).unwrap());
		lines.push(format!("VIOLATION property={} replay={}", id, path.display()));
		eprintln!("[{}] new failure signature: {} (fuzzing)", id, sig);
	}

	// ---- evidence
	let distinct_nt = tot.keys.len() as u64 + tot.nt_exhaustive + fuzz_units;
	let wall = t0.elapsed().as_secs_f64();
	let mut coverage = Map::new();
	coverage.insert("evaluations".into(), json!(tot.evals));
	coverage.insert("distinct_nontrivial".into(), json!(distinct_nt));
	coverage.insert("rule".into(), json!(check.rule()));
	if tot.samples.is_empty()
	{
		// only a fuzz campaign ran: its corpus samples are the samples
		for f in &fuzz_evidence
		{
			if let Some(a) = f["samples"].as_array()
			{
				for x in a
				{
					tot.samples.push(json!({"stream": format!("fuzz:{}", f["target"].as_str().unwrap_or("?")), "case": x}));
				}
			}
		}
	}
	coverage.insert("samples".into(), json!(tot.samples));
	coverage.insert("exhaustive".into(), json!(exhaustive_all));
	coverage.insert("per_stream".into(), json!(tot.per_stream));
	coverage.insert("classes".into(), json!(tot.classes));
	coverage.insert("counters".into(), json!(tot.counters));
	coverage.insert("discarded".into(), json!(tot.discards));
	coverage.insert("excluded_by_signature".into(), json!(excluded));
	coverage.insert("inconclusive_timeouts".into(), json!(tot.timeouts));
	if !fuzz_evidence.is_empty()
	{
		coverage.insert("fuzzing".into(), json!(fuzz_evidence));
	}
	if check.level() == "translation_validation"
	{
		coverage.insert(
			"programs".into(),
			json!(tot.counters.get("programs").copied().unwrap_or(tot.evals)),
		);
		coverage.insert(
			"disagreements_checked".into(),
			json!(tot
				.counters
				.get("comparisons")
				.copied()
				.unwrap_or(tot.evals)),
		);
	}
	let evidence = json!({
		"property_id": id,
		"tier": cfg.tier.name(),
		"seed": cfg.seed,
		"level": check.level(),
		"coverage": Value::Object(coverage),
		"assumptions": check.assumptions(),
		"wall_s": wall,
		"violations": violations,
	});
	let evdir = verif_root().join("evidence");
	let _ = std::fs::create_dir_all(&evdir);
	let _ = std::fs::write(
		evdir.join(format!("{}.json", id)),
		serde_json::to_string_pretty(&evidence).unwrap(),
	);
	for l in &lines
	{
		println!("{}", l);
	}
	println!(
		"[{}] tier={} seed={} evaluations={} distinct_nontrivial={} violations={} known={} timeouts={} wall={:.1}s",
		id,
		cfg.tier.name(),
		cfg.seed,
		tot.evals,
		distinct_nt,
		violations,
		excluded.len(),
		tot.timeouts,
		wall
	);
	if violations > 0
	{
		1
	}
	else if tot.timeouts > 0
	{
		2
	}
	else
	{
		0
	}
}

/// development aid: reduce the files of a replay (or a JSON list of
/// {file, source}) while `check`'s source-level oracle keeps producing `sig`
pub fn reduce_files(check: &dyn Check, path: &str, sig: &str, sname: &str) -> i32
{
	let text = std::fs::read_to_string(path).expect("read");
	let v: Value = serde_json::from_str(&text).expect("json");
	let files = if let Some(a) = v.as_array()
	{
		files_of_json(a)
	}
	else
	{
		match source_of_detail(&v["detail"])
		{
			Some(f) => f,
			None =>
			{
				eprintln!("no files in {}", path);
				return 2;
			}
		}
	};
	PER_STREAM_SIGS.store(check.crash_sig_per_stream() as u64, Ordering::SeqCst);
	let cfg = RunConfig {
		tier: Tier::Quick,
		seed: 0,
		threads: 1,
	};
	match reduce_source(check.id(), sname, files.clone(), sig, &cfg, Duration::from_secs(60))
	{
		Some((small, steps)) =>
		{
			eprintln!("reduced in {} steps", steps);
			for (n, s) in small
			{
				println!("==== {}\n{}", n, s);
			}
			0
		}
		None =>
		{
			let got = run_source(check.id(), sname, &files, &cfg, Duration::from_secs(60));
			eprintln!("signature not reproduced; got {:?}", got.iter().map(|(s, _)| s).collect::<Vec<_>>());
			1
		}
	}
}

pub fn replay(check: &dyn Check, path: &str) -> i32
{
	let text = match std::fs::read_to_string(path)
	{
		Ok(t) => t,
		Err(e) =>
		{
			eprintln!("cannot read {}: {}", path, e);
			return 2;
		}
	};
	let v: Value = serde_json::from_str(&text).expect("replay json");
	PER_STREAM_SIGS.store(check.crash_sig_per_stream() as u64, Ordering::SeqCst);
	let id = check.id();
	let sname = v["stream"].as_str().unwrap_or("").to_string();
	let idx = v["idx"].as_u64().unwrap_or(0);
	let seed = v["seed"].as_u64().unwrap_or(0);
	let tier = if v["tier"].as_str() == Some("thorough")
	{
		Tier::Thorough
	}
	else
	{
		Tier::Quick
	};
	let choices: Vec<u32> = v["choices"]
		.as_array()
		.map(|a| a.iter().map(|x| x.as_u64().unwrap_or(0) as u32).collect())
		.unwrap_or_default();
	let cfg = RunConfig {
		tier,
		seed,
		threads: 1,
	};
	if let Some(h) = v["bytes_hex"].as_str()
	{
		// a fuzzing artifact: the oracle on the saved bytes, no fuzzer involved
		let res = run_bytes(id, &sname, &unhex(h), &cfg, Duration::from_secs(120));
		return report_replay(id, path, &res);
	}
	let streams = check.streams();
	let stream = match streams.iter().find(|s| s.name() == sname)
	{
		Some(s) => s,
		None =>
		{
			eprintln!("unknown stream {}", sname);
			return 2;
		}
	};
	PER_STREAM_SIGS.store(
		stream.crash_sig_per_stream().unwrap_or(check.crash_sig_per_stream()) as u64,
		Ordering::SeqCst,
	);
	let choices = if stream.choice_len() > 0 && v["choices"].is_null()
	{
		case_tree(seed, id, &sname, idx, stream.choice_len()).current()
	}
	else
	{
		choices
	};
	let mut res = run_single(id, &sname, idx, &choices, &cfg, stream.timeout(), true);
	if let Some(a) = v["reduced_source"].as_array()
	{
		// the reduced source, with no generator involved
		let files = files_of_json(a);
		for (sig, detail) in run_source(id, &sname, &files, &cfg, stream.timeout())
		{
			if !res.iter().any(|(s, _)| *s == sig)
			{
				res.push((sig, detail));
			}
		}
	}
	report_replay(id, path, &res)
}

fn report_replay(id: &str, path: &str, res: &[(String, Value)]) -> i32
{
	let known = KnownFindings::load();
	let mut bad = 0;
	for (sig, detail) in res
	{
		if sig == "timeout"
		{
			println!("replay inconclusive: watchdog");
			return 2;
		}
		if let Some(what) = known.find(id, sig)
		{
			println!("KNOWN-FINDING: property={} {} [signature: {}]", id, what, sig);
		}
		else
		{
			bad += 1;
			println!("VIOLATION property={} replay={}", id, path);
			println!("signature: {}", sig);
			println!("{}", serde_json::to_string_pretty(detail).unwrap());
		}
	}
	if bad > 0
	{
		1
	}
	else
	{
		println!("replay: no failure reproduced");
		0
	}
}
