//! C03 — every successful compilation yields valid LLVM IR.

use crate::alpha;
use crate::ast::*;
use crate::choices::{fnv, Choices};
use crate::engine::*;
use crate::progen;
use serde_json::json;
use std::io::Write;

pub struct C03;

fn run_tool(tool: &str, args: &[&str], input: &str) -> (bool, String)
{
	let mut child = match std::process::Command::new(tool)
		.args(args)
		.stdin(std::process::Stdio::piped())
		.stdout(std::process::Stdio::null())
		.stderr(std::process::Stdio::piped())
		.spawn()
	{
		Ok(c) => c,
		Err(e) => return (false, format!("cannot spawn {}: {}", tool, e)),
	};
	{
		let mut stdin = child.stdin.take().unwrap();
		let _ = stdin.write_all(input.as_bytes());
	}
	let out = child.wait_with_output().expect("tool wait");
	let err = String::from_utf8_lossy(&out.stderr).to_string();
	(out.status.success() && err.trim().is_empty(), err)
}

/// independent tools reading the printed text
pub fn verify_ir(ir: &str, what: &str, both: bool, out: &mut CaseOut)
{
	out.count("irs_verified", 1);
	let (ok, err) = run_tool("opt-14", &["-passes=verify", "-disable-output", "-"], ir);
	if !ok
	{
		let head: String = err.lines().next().unwrap_or("").chars().take(70).collect();
		out.fail(
			format!("{}: opt -passes=verify rejects the IR: {}", what, head),
			json!({"stderr": err.chars().take(800).collect::<String>(), "ir_head": ir.chars().take(1500).collect::<String>()}),
		);
		return;
	}
	if both
	{
		let (ok, err) = run_tool("llvm-as-14", &["-o", "/dev/null", "-"], ir);
		if !ok
		{
			let head: String = err.lines().next().unwrap_or("").chars().take(70).collect();
			out.fail(
				format!("{}: llvm-as rejects the IR: {}", what, head),
				json!({"stderr": err.chars().take(800).collect::<String>()}),
			);
		}
	}
}

pub struct FnInfo
{
	pub name: String,
	pub has_body: bool,
	pub visible: bool,
}

/// every function the source defines is defined exactly once; `main` and
/// `pub` functions are externally visible; heads are declared
pub fn check_definitions(ir: &str, funcs: &[FnInfo], what: &str, out: &mut CaseOut)
{
	let lines: Vec<&str> = ir.lines().collect();
	for f in funcs
	{
		let needle = format!("@{}(", f.name);
		let quoted = format!("@\"{}\"(", f.name);
		let defs: Vec<&&str> = lines
			.iter()
			.filter(|l| l.starts_with("define ") && (l.contains(&needle) || l.contains(&quoted)))
			.collect();
		let decls = lines
			.iter()
			.filter(|l| l.starts_with("declare ") && (l.contains(&needle) || l.contains(&quoted)))
			.count();
		if f.has_body
		{
			if defs.len() != 1
			{
				out.fail(
					format!("{}: function defined {} times in the IR", what, defs.len()),
					json!({"function": f.name, "ir_head": ir.chars().take(1500).collect::<String>()}),
				);
			}
			else if f.visible
				&& (defs[0].contains(" private ") || defs[0].contains(" internal "))
			{
				out.fail(
					format!("{}: main/pub function is not externally visible", what),
					json!({"function": f.name, "define": defs[0]}),
				);
			}
			else if !f.visible && !defs[0].contains(" private ") && !defs[0].contains(" internal ")
			{
				out.class("note:private-function-externally-visible");
			}
		}
		else if decls != 1 && defs.is_empty()
		{
			out.fail(
				format!("{}: function head is not declared in the IR", what),
				json!({"function": f.name, "declares": decls}),
			);
		}
	}
}

/// turn an executable program into a compile-only one: visibility flags,
/// extern heads, exported extern functions, unbounded loops, unreachable code
pub fn decorate(c: &mut Choices, prog: &mut Program)
{
	for f in prog.funcs.iter_mut()
	{
		if f.name != "main" && c.chance(1, 3)
		{
			f.public = true;
		}
	}
	for s in prog.structs.iter_mut()
	{
		if c.chance(1, 4)
		{
			s.public = true;
		}
	}
	for k in prog.consts.iter_mut()
	{
		if c.chance(1, 4)
		{
			k.public = true;
		}
	}
	let abi: &[Prim] = &[
		Prim::I8,
		Prim::I16,
		Prim::I32,
		Prim::I64,
		Prim::U8,
		Prim::U16,
		Prim::U32,
		Prim::U64,
		Prim::Usize,
	];
	let extras = c.draw(4);
	for k in 0..extras
	{
		let idx = prog.funcs.len();
		let mut params = Vec::new();
		for j in 0..c.draw(4)
		{
			let p = *c.pick(abi);
			let ty = match c.draw(4)
			{
				0 => Ty::Slice(Box::new(Ty::Prim(p))),
				1 => Ty::Ptr(Box::new(Ty::Prim(p))),
				_ => Ty::Prim(p),
			};
			params.push(Param {
				name: format!("x{}_{}", k, j),
				ty,
			});
		}
		let ret = if c.flag() { Some(*c.pick(abi)) } else { None };
		let kind = c.draw(3);
		let (body, ret_expr, head_only, external) = match kind
		{
			// extern head (a C function)
			0 => (Vec::new(), None, true, true),
			// exported extern function with a body
			1 => (
				vec![Stmt::Block(Vec::new())],
				ret.map(|t| Expr::Lit(1, t, Spell::default())),
				false,
				true,
			),
			// an ordinary function that never returns
			_ => (
				vec![
					Stmt::Var {
						name: format!("z{}", k),
						ty: Ty::Prim(Prim::U32),
						annotate: true,
						init: Some(Expr::Lit(0, Prim::U32, Spell::default())),
					},
					Stmt::Block(vec![
						Stmt::Assign(
							Place::var(&format!("z{}", k)),
							Expr::Bin(
								BinOp::Add,
								Box::new(Expr::Read(Place::var(&format!("z{}", k)), Ty::Prim(Prim::U32))),
								Box::new(Expr::Lit(1, Prim::U32, Spell::default())),
								Prim::U32,
							),
						),
						Stmt::Loop,
					]),
					// unreachable code after the loop
					Stmt::Print(vec![Expr::Str(b"never\n".to_vec())]),
				],
				ret.map(|t| Expr::Lit(0, t, Spell::default())),
				false,
				false,
			),
		};
		prog.funcs.push(FuncDecl {
			name: format!("e{}", idx),
			params,
			ret,
			body,
			ret_expr,
			public: c.flag(),
			external,
			head_only,
		});
		let at = c.draw(prog.order.len() + 1);
		prog.order.insert(at, Top::Func(idx));
	}
	// the entry point may take parameters (it is still `main`, and exported)
	if c.chance(1, 4)
	{
		if let Some(mi) = prog.funcs.iter().position(|f| f.name == "main")
		{
			prog.funcs[mi].params.push(Param {
				name: "argc".into(),
				ty: Ty::Prim(Prim::I32),
			});
		}
	}
	// sometimes drop main: a module without an entry point is a valid module
	if c.chance(1, 5)
	{
		if let Some(mi) = prog.funcs.iter().position(|f| f.name == "main")
		{
			prog.funcs[mi].name = "not_main".to_string();
		}
	}
}

pub fn fn_infos(prog: &Program) -> Vec<FnInfo>
{
	prog.funcs
		.iter()
		.map(|f| FnInfo {
			name: f.name.clone(),
			has_body: !f.head_only,
			visible: f.public || f.name == "main",
		})
		.collect()
}

struct Generated;
impl Stream for Generated
{
	fn name(&self) -> String
	{
		"generated-modules".into()
	}
	fn count(&self, tier: Tier) -> u64
	{
		tier.pick(3000, 60_000)
	}
	fn choice_len(&self) -> usize
	{
		1600
	}
	fn run(&self, idx: u64, c: &mut Choices, ctx: &RunCtx) -> CaseOut
	{
		let mut out = CaseOut::default();
		let mut prog = progen::generate(c, progen::Profile::exec());
		let compile_only = idx % 3 != 0;
		if compile_only
		{
			decorate(c, &mut prog);
			out.class("kind:compile-only");
		}
		else
		{
			out.class("kind:executable");
		}
		let wasm = compile_only && c.chance(1, 4);
		if wasm
		{
			out.class("target:wasm");
		}
		let src = print_program(&prog, Layout::plain(), None);
		out.key = fnv(&src);
		let o = alpha::compile_one(
			&src,
			alpha::Options {
				want_ir: true,
				link: true,
				wasm,
				..Default::default()
			},
		);
		out.nontrivial = prog.funcs.len() >= 2 || !prog.structs.is_empty() || !prog.consts.is_empty();
		if let Some(e) = &o.internal_error
		{
			out.fail(
				format!("internal error {}", e.chars().take(50).collect::<String>()),
				json!({"source": src, "error": e}),
			);
		}
		else if !o.ok
		{
			let mut codes = o.codes.clone();
			codes.sort();
			codes.dedup();
			out.fail(
				format!("well-formed module rejected {:?}{}", codes, if wasm { " (wasm)" } else { "" }),
				json!({"source": src, "codes": o.codes}),
			);
		}
		else
		{
			let infos = fn_infos(&prog);
			verify_ir(&o.module_irs[0], "module", idx % 4 == 0, &mut out);
			check_definitions(&o.module_irs[0], &infos, "module", &mut out);
			if let Some(linked) = &o.linked_ir
			{
				verify_ir(linked, "linked", idx % 4 == 0, &mut out);
				// the linker drops unreferenced private definitions and unused
				// declarations: only the visible functions must survive
				let visible: Vec<FnInfo> =
					infos.into_iter().filter(|f| f.visible && f.has_body).collect();
				check_definitions(linked, &visible, "linked", &mut out);
			}
			for f in out.failures.iter_mut()
			{
				if let serde_json::Value::Object(m) = &mut f.detail
				{
					m.insert("source".into(), json!(src));
				}
			}
		}
		if ctx.want_sample
		{
			out.sample = Some(json!({"source": src, "wasm": wasm}));
		}
		out
	}
}

/// a generated program split over 2-4 modules with the `pub`/`import`
/// declarations the split needs, compiled through one Compiler and linked
struct SplitModules;
impl Stream for SplitModules
{
	fn name(&self) -> String
	{
		"split-module-sets".into()
	}
	fn count(&self, tier: Tier) -> u64
	{
		tier.pick(2500, 30_000)
	}
	fn choice_len(&self) -> usize
	{
		1700
	}
	fn timeout(&self) -> std::time::Duration
	{
		std::time::Duration::from_secs(120)
	}
	fn run(&self, idx: u64, c: &mut Choices, ctx: &RunCtx) -> CaseOut
	{
		let mut out = CaseOut::default();
		let prog = progen::generate(c, progen::Profile::exec());
		if prog.order.len() < 2
		{
			out.discarded = Some("fewer than two top-level declarations".into());
			return out;
		}
		let nfiles = 2 + c.draw(3);
		let split = crate::modsplit::split(c, &prog, nfiles);
		let mut files = crate::c12::render_files(&split);
		// file order: as split, or rotated
		let rot = c.draw(nfiles);
		files.rotate_left(rot);
		let mut progs: Vec<&Program> = split.files.iter().map(|(_, p)| p).collect();
		progs.rotate_left(rot);
		out.key = fnv(&files.iter().map(|(_, s)| s.as_str()).collect::<Vec<_>>().join("\x00"));
		out.nontrivial = !split.crossing.is_empty();
		out.class(format!("files:{}", nfiles));
		let o = alpha::compile_modules(
			&files,
			alpha::Options {
				want_ir: true,
				link: true,
				..Default::default()
			},
		);
		let detail_files = json!(files.iter().map(|(n, s)| json!({"file": n, "source": s})).collect::<Vec<_>>());
		if let Some(e) = &o.internal_error
		{
			out.fail(format!("internal error {}", e.chars().take(50).collect::<String>()), json!({"files": detail_files, "error": e}));
		}
		else if !o.ok
		{
			// acceptance of split programs is C12's subject
			out.discarded = Some("split program not accepted (C12's subject)".into());
		}
		else
		{
			let own = |p: &Program| -> Vec<FnInfo> {
				p.order
					.iter()
					.filter_map(|t| match t
					{
						Top::Func(i) => Some(&p.funcs[*i]),
						_ => None,
					})
					.map(|f| FnInfo {
						name: f.name.clone(),
						has_body: !f.head_only,
						visible: f.public || f.name == "main",
					})
					.collect()
			};
			let mut all_visible = Vec::new();
			for (k, ir) in o.module_irs.iter().enumerate()
			{
				let what = "module of a set";
				verify_ir(ir, what, idx % 4 == 0, &mut out);
				if let Some(p) = progs.get(k)
				{
					let infos = own(p);
					check_definitions(ir, &infos, what, &mut out);
					all_visible.extend(infos.into_iter().filter(|f| f.visible && f.has_body));
				}
			}
			out.count("module IRs verified", o.module_irs.len() as u64);
			match &o.linked_ir
			{
				Some(linked) =>
				{
					verify_ir(linked, "linked set", idx % 4 == 0, &mut out);
					check_definitions(linked, &all_visible, "linked set", &mut out);
				}
				None => out.fail("linked set: no linked IR although every module compiled", json!({})),
			}
			for f in out.failures.iter_mut()
			{
				if let serde_json::Value::Object(m) = &mut f.detail
				{
					m.insert("files".into(), detail_files.clone());
				}
			}
		}
		if ctx.want_sample
		{
			out.sample = Some(json!({"files": detail_files}));
		}
		out
	}
}

struct Corpus;
impl Stream for Corpus
{
	fn name(&self) -> String
	{
		"repository-samples".into()
	}
	fn count(&self, _tier: Tier) -> u64
	{
		crate::c15::corpus_files().len() as u64
	}
	fn exhaustive(&self) -> bool
	{
		true
	}
	fn crash_is_failure(&self) -> bool
	{
		// a sample that crashes the compiler is C02's subject
		false
	}
	fn run(&self, idx: u64, _c: &mut Choices, ctx: &RunCtx) -> CaseOut
	{
		let mut out = CaseOut::default();
		let files = crate::c15::corpus_files();
		let path = &files[idx as usize];
		let src = match std::fs::read_to_string(path)
		{
			Ok(s) => s,
			Err(_) =>
			{
				out.discarded = Some("not UTF-8".into());
				return out;
			}
		};
		out.key = idx;
		let name = path.to_string_lossy().to_string();
		let o = alpha::compile_modules(
			&[(name.clone(), src.clone())],
			alpha::Options {
				want_ir: true,
				link: true,
				..Default::default()
			},
		);
		if !o.ok
		{
			out.discarded = Some("sample does not compile on its own".into());
			return out;
		}
		out.nontrivial = true;
		// function names and flags from the first-generation parser
		use penne::alpha::common::{Declaration, DeclarationFlag};
		let decls = penne::alpha::parser::parse(penne::alpha::lexer::lex(&src, &name));
		let mut infos = Vec::new();
		for d in &decls
		{
			match d
			{
				Declaration::Function { name, flags, .. } => infos.push(FnInfo {
					name: name.name.clone(),
					has_body: true,
					visible: flags.contains(DeclarationFlag::Public) || name.name == "main",
				}),
				Declaration::FunctionHead { name, .. } => infos.push(FnInfo {
					name: name.name.clone(),
					has_body: false,
					visible: true,
				}),
				_ => (),
			}
		}
		// a head followed by its definition is one function with a body
		let with_body: Vec<String> =
			infos.iter().filter(|f| f.has_body).map(|f| f.name.clone()).collect();
		infos.retain(|f| f.has_body || !with_body.contains(&f.name));
		verify_ir(&o.module_irs[0], "module", true, &mut out);
		check_definitions(&o.module_irs[0], &infos, "module", &mut out);
		if let Some(linked) = &o.linked_ir
		{
			verify_ir(linked, "linked", true, &mut out);
		}
		for f in out.failures.iter_mut()
		{
			if let serde_json::Value::Object(m) = &mut f.detail
			{
				m.insert("file".into(), json!(name));
			}
		}
		if ctx.want_sample
		{
			out.sample = Some(json!({"file": name}));
		}
		out
	}
}

/// the bundled libraries (`core:` / `vendor:` modules) as part of a module
/// set: the linked program defines their functions like anybody else's
struct BundledLibraries;
const LIBRARIES: &[(&str, &str)] = &[
	("core:text/char.pn", ""),
	("core:text/char.pn", "\tif is_control_char(7) == true\n\t{\n\t\tr = 1;\n\t}\n"),
	("vendor:libc/ctype.pn", ""),
	("vendor:libc/ctype.pn", "\tif is_digit('7') == true\n\t{\n\t\tr = 1;\n\t}\n"),
	("vendor:libc/ctype.pn", "\tif is_alpha('7') == true\n\t{\n\t\tr = 1;\n\t}\n\tif is_upper('A') == true\n\t{\n\t\tr = r + 2;\n\t}\n"),
	("vendor:libc/stdlib.pn", ""),
	("vendor:libc/string.pn", ""),
	("vendor:wasm4/wasm4.pn", ""),
];
impl Stream for BundledLibraries
{
	fn name(&self) -> String
	{
		"bundled-libraries".into()
	}
	fn count(&self, _tier: Tier) -> u64
	{
		LIBRARIES.len() as u64 * 2
	}
	fn exhaustive(&self) -> bool
	{
		true
	}
	fn run(&self, idx: u64, _c: &mut Choices, ctx: &RunCtx) -> CaseOut
	{
		use penne::alpha::common::{Declaration, DeclarationFlag};
		let mut out = CaseOut::default();
		out.key = idx;
		out.nontrivial = true;
		let (lib, calls) = LIBRARIES[(idx / 2) as usize];
		let library_first = idx % 2 == 1;
		let text = match penne::alpha::included::find(lib).and_then(|(e, _)| e.as_file()).and_then(|f| f.contents_utf8())
		{
			Some(t) => t.to_string(),
			None =>
			{
				out.discarded = Some(format!("{} is not bundled", lib));
				return out;
			}
		};
		let main = format!("import \"{}\";\n\nfn main() -> i32\n{{\n\tvar r: i32 = 0;\n{}\treturn: r\n}}\n", lib, calls);
		let mut files = vec![("main.pn".to_string(), main), (lib.to_string(), text.clone())];
		if library_first
		{
			files.reverse();
		}
		out.class(format!("library:{}", lib));
		out.class(if library_first { "order:library first" } else { "order:library last" });
		let o = alpha::compile_modules(
			&files,
			alpha::Options {
				want_ir: true,
				link: true,
				..Default::default()
			},
		);
		if let Some(e) = &o.internal_error
		{
			out.fail(format!("internal error {}", e.chars().take(50).collect::<String>()), json!({"files": crate::c02::files_json(&files)}));
		}
		else if !o.ok
		{
			// (whether such a set is accepted is not this property's subject)
			out.discarded = Some(format!("rejected {:?}", o.codes));
		}
		else
		{
			let decls = penne::alpha::parser::parse(penne::alpha::lexer::lex(&text, lib));
			let mut infos = vec![FnInfo {
				name: "main".into(),
				has_body: true,
				visible: true,
			}];
			for d in &decls
			{
				if let Declaration::Function { name, flags, .. } = d
				{
					if flags.contains(DeclarationFlag::Public)
					{
						infos.push(FnInfo {
							name: name.name.clone(),
							has_body: true,
							visible: true,
						});
					}
				}
			}
			out.count("library_functions_with_a_body", infos.len() as u64 - 1);
			for (i, ir) in o.module_irs.iter().enumerate()
			{
				verify_ir(ir, &format!("module {}", files[i].0), true, &mut out);
			}
			if let Some(linked) = &o.linked_ir
			{
				verify_ir(linked, "linked", true, &mut out);
				check_definitions(linked, &infos, "linked", &mut out);
			}
		}
		if ctx.want_sample
		{
			out.sample = Some(json!({"files": files.iter().map(|(n, _)| n.clone()).collect::<Vec<_>>(), "calls": calls}));
		}
		out
	}
}

impl Check for C03
{
	fn id(&self) -> &'static str
	{
		"C03"
	}
	fn level(&self) -> &'static str
	{
		"translation_validation"
	}
	fn rule(&self) -> String
	{
		"accepted modules from (a) the program generator, one third executable and two thirds decorated into compile-only modules (random pub flags, extern function heads, exported extern functions with ABI types, functions that never return with unreachable code behind the loop, modules without main, a main with parameters, wasm32 target), (b) generated executable programs split over 2-4 modules with the pub/import declarations the split needs, in a rotated file order, compiled through one Compiler and linked (only sets the compiler accepts; acceptance of splits is C12's subject), (c) every file of the repository corpus that compiles on its own, and (d) each bundled `core:` / `vendor:` library module next to a main module that imports it and calls none, one or two of its functions, library first or last (16 sets). Oracle: the textual IR of every module and of the linked program is accepted by `opt-14 -passes=verify` (all) and `llvm-as-14` (every 4th generated, all corpus) run as independent processes with empty stderr; every function with a body has exactly one `define`, main/pub/extern functions carry no private/internal linkage, heads are `declare`d; the linked IR of a module set defines every visible function of every module, bundled libraries included. Non-trivial: >= 2 functions or a struct/constant; distinct by source.".into()
	}
	fn assumptions(&self) -> Vec<String>
	{
		vec![
			"LLVM 14's assembler and verifier define 'valid IR'".into(),
			"function names in generated programs need no quoting; corpus names are matched both plain and quoted".into(),
		]
	}
	fn streams(&self) -> Vec<Box<dyn Stream>>
	{
		vec![Box::new(Generated), Box::new(SplitModules), Box::new(Corpus), Box::new(BundledLibraries)]
	}
}
