//! C05 — no variable is used out of scope, shadowed, or with its declaration skipped.

use crate::alpha;
use crate::choices::{fnv, Choices};
use crate::engine::*;
use crate::treegen::{self, Counter, Grammar, Node};
use serde_json::json;
use std::collections::{BTreeSet, HashMap};

pub struct C05;

#[derive(Clone, Debug, PartialEq)]
enum Atom
{
	Decl(&'static str),
	Use(&'static str),
	Bump(&'static str),
	Label(&'static str),
	Goto(&'static str),
	IfGoto(&'static str),
	/// `if v == 0 goto l;` — a use inside a condition
	CondGoto(&'static str, &'static str),
	/// `var v: i32 = v + 1;` — the initialiser is analysed before the variable exists
	DeclSelf(&'static str),
	/// `sink(0);`
	Nop,
}

fn atoms_small() -> Vec<Atom>
{
	vec![
		Atom::Decl("v"),
		Atom::Decl("w"),
		Atom::Use("v"),
		Atom::Use("w"),
		Atom::Label("a"),
		Atom::Goto("a"),
		Atom::IfGoto("a"),
	]
}

fn atoms_large() -> Vec<Atom>
{
	let mut v = Vec::new();
	for n in ["v", "w", "z"]
	{
		v.push(Atom::Decl(n));
		v.push(Atom::Use(n));
		v.push(Atom::Use(n));
		v.push(Atom::Bump(n));
	}
	// parameter, constant, and a name that is never declared
	v.push(Atom::Decl("p"));
	v.push(Atom::Decl("K"));
	v.push(Atom::Use("K"));
	v.push(Atom::Use("p"));
	v.push(Atom::Use("u"));
	for l in ["a", "b"]
	{
		v.push(Atom::Label(l));
		v.push(Atom::Goto(l));
		v.push(Atom::IfGoto(l));
		v.push(Atom::IfGoto(l));
	}
	v.push(Atom::CondGoto("v", "a"));
	v.push(Atom::CondGoto("w", "b"));
	v.push(Atom::DeclSelf("v"));
	v.push(Atom::DeclSelf("z"));
	v.push(Atom::Goto("return"));
	v.push(Atom::IfGoto("return"));
	v
}

fn atom_text(a: &Atom) -> String
{
	match a
	{
		Atom::Decl(n) => format!("var {}: i32 = {};", n, init_value(n)),
		Atom::Use(n) => format!("sink({});", n),
		Atom::Bump(n) => format!("{} = {} + 100;", n, n),
		Atom::Label(l) => format!("{}:", l),
		Atom::Goto(l) => format!("goto {};", l),
		Atom::IfGoto(l) => format!("if p == 0 goto {};", l),
		Atom::CondGoto(n, l) => format!("if {} == 0 goto {};", n, l),
		Atom::DeclSelf(n) => format!("var {}: i32 = {} + 1;", n, n),
		Atom::Nop => "sink(0);".to_string(),
	}
}

fn init_value(n: &str) -> i64
{
	match n
	{
		"v" => 11,
		"w" => 22,
		"z" => 33,
		"K" => 44,
		_ => 55,
	}
}

// ---------------------------------------------------------------- label model

/// resolve every goto to the path of its label (None = unresolved), and tell
/// whether any label clashes; the same reverse-scope rule as C04's model
fn labels_ok(seq: &[Node], atoms: &[Atom], outer: &[&str], tail: &[&str]) -> bool
{
	for (i, n) in seq.iter().enumerate()
	{
		let mut visible: Vec<&str> = seq
			.iter()
			.skip(i + 1)
			.filter_map(|n| match n
			{
				Node::Atom(k) => match &atoms[*k]
				{
					Atom::Label(l) => Some(*l),
					_ => None,
				},
				_ => None,
			})
			.collect();
		visible.extend_from_slice(tail);
		visible.extend_from_slice(outer);
		let ok = match n
		{
			Node::Atom(k) => match &atoms[*k]
			{
				Atom::Label(l) => !visible.contains(l),
				Atom::Goto(l) | Atom::IfGoto(l) | Atom::CondGoto(_, l) => visible.contains(l),
				_ => true,
			},
			Node::Block(b) => labels_ok(b, atoms, &visible, &[]),
			Node::If(b) => match &**b
			{
				Node::Block(b) => labels_ok(b, atoms, &visible, &[]),
				_ => false,
			},
			Node::IfElse(x, y) => [x, y].iter().all(|br| match &***br
			{
				Node::Block(b) => labels_ok(b, atoms, &visible, &[]),
				_ => false,
			}),
		};
		if !ok
		{
			return false;
		}
	}
	true
}

// ------------------------------------------------------- static scope model

#[derive(Default, Debug)]
struct Verdict
{
	undefined: bool, // E402
	duplicate: bool, // E422
	skipped: bool,   // E482
	nontrivial: bool,
}

/// Static model, written from docs/features.md and docs/errors.md
/// E402/E422/E482. Positions are textual: statements get a running number.
struct Model<'a>
{
	atoms: &'a [Atom],
	/// scope stack: each layer is a list of (name, binding id)
	scopes: Vec<Vec<(&'a str, usize)>>,
	next_binding: usize,
	/// bindings whose declaration some goto may skip, once the label is passed
	dubious: BTreeSet<usize>,
	v: Verdict,
	/// name used by the return value of the outermost layer
	ret_use: Option<&'a str>,
}

impl<'a> Model<'a>
{
	fn lookup(&self, name: &str) -> Option<usize>
	{
		// innermost binding wins (with duplicates the program is rejected anyway)
		for layer in self.scopes.iter()
		{
			if let Some((_, id)) = layer.iter().find(|(n, _)| *n == name)
			{
				return Some(*id);
			}
		}
		None
	}

	fn use_name(&mut self, name: &str)
	{
		match self.lookup(name)
		{
			None => self.v.undefined = true,
			Some(id) =>
			{
				if self.dubious.contains(&id)
				{
					self.v.skipped = true;
				}
			}
		}
	}

	/// does statement `n` contain a goto to `label` that is not caught by a
	/// nearer label of that name (labels are unique among visible ones here)
	fn contains_goto(&self, n: &Node, label: &str) -> bool
	{
		match n
		{
			Node::Atom(k) => match &self.atoms[*k]
			{
				Atom::Goto(l) | Atom::IfGoto(l) | Atom::CondGoto(_, l) => *l == label,
				_ => false,
			},
			Node::Block(b) => self.seq_contains_goto(b, label),
			Node::If(b) => self.contains_goto(b, label),
			Node::IfElse(x, y) => self.contains_goto(x, label) || self.contains_goto(y, label),
		}
	}

	fn seq_contains_goto(&self, seq: &[Node], label: &str) -> bool
	{
		// a goto binds to the nearest later label: if this nested sequence has
		// its own later label of that name the goto is not ours — cannot
		// happen in label-valid bodies (that would be a clash), so plain search
		seq.iter().any(|n| self.contains_goto(n, label))
	}

	fn walk(&mut self, seq: &'a [Node], tail_label: Option<&'a str>)
	{
		self.scopes.push(Vec::new());
		// declarations of this layer by statement index
		let mut decl_at: Vec<(usize, usize)> = Vec::new(); // (index, binding)
		let n = seq.len();
		for i in 0..=n
		{
			// the label at position i (a real statement or the closing `return:`)
			let label: Option<&str> = if i < n
			{
				match &seq[i]
				{
					Node::Atom(k) => match &self.atoms[*k]
					{
						Atom::Label(l) => Some(*l),
						_ => None,
					},
					_ => None,
				}
			}
			else
			{
				tail_label
			};
			if let Some(l) = label
			{
				// first statement of this layer that holds an in-bound goto
				let first_goto = (0..i).find(|j| self.contains_goto(&seq[*j], l));
				if let Some(g) = first_goto
				{
					for (di, b) in &decl_at
					{
						if *di > g
						{
							self.dubious.insert(*b);
							self.v.nontrivial = true;
						}
					}
				}
				continue;
			}
			if i == n
			{
				break;
			}
			match &seq[i]
			{
				Node::Atom(k) => match &self.atoms[*k]
				{
					Atom::Decl(name) | Atom::DeclSelf(name) =>
					{
						if let Atom::DeclSelf(_) = &self.atoms[*k]
						{
							// the initialiser reads the name before it is declared;
							// if the name is visible the statement is a duplicate
							// declaration and reported as that alone
							match self.lookup(name)
							{
								None => self.use_name(name),
								Some(id) =>
								{
									// The read in the initialiser is analysed
									// first; if it is a skipped variable the
									// compiler notes E482 once for that variable,
									// but the statement is then replaced by the
									// duplicate-declaration error: that E482 is
									// lost and later uses stay silent. The
									// program is rejected either way (E422).
									self.dubious.remove(&id);
								}
							}
						}
						if self.lookup(name).is_some()
						{
							self.v.duplicate = true;
						}
						let id = self.next_binding;
						self.next_binding += 1;
						self.scopes.last_mut().unwrap().push((name, id));
						decl_at.push((i, id));
					}
					Atom::Use(name) | Atom::Bump(name) | Atom::CondGoto(name, _) =>
					{
						if self.scopes.len() > 3
						{
							self.v.nontrivial = true;
						}
						self.use_name(name)
					}
					_ => (),
				},
				Node::Block(b) => self.walk(b, None),
				Node::If(b) =>
				{
					if let Node::Block(b) = &**b
					{
						self.walk(b, None)
					}
				}
				Node::IfElse(x, y) =>
				{
					for br in [x, y]
					{
						if let Node::Block(b) = &**br
						{
							self.walk(b, None)
						}
					}
				}
			}
		}
		if tail_label.is_some()
		{
			if let Some(name) = self.ret_use.take()
			{
				self.use_name(name);
			}
		}
		self.scopes.pop();
	}
}

fn static_model(body: &[Node], atoms: &[Atom], ret: Option<&'static str>) -> Verdict
{
	let mut m = Model {
		atoms,
		// layer 0: constants; layer 1: parameters
		scopes: vec![vec![("K", 0)], vec![("p", 1)]],
		next_binding: 2,
		dubious: BTreeSet::new(),
		v: Verdict::default(),
		ret_use: ret,
	};
	// the closing `return:` label and the return value belong to the body layer
	m.walk(body, if ret.is_some() { Some("return") } else { None });
	m.v
}

// ---------------------------------------------- dynamic model (interpreter)

#[derive(Debug, Clone)]
enum Op
{
	EnterScope,
	ExitScope(usize), // number of bindings to drop is tracked by scope stack
	Decl(&'static str),
	Use(&'static str),
	Bump(&'static str),
	Jump(usize),
	JumpIfPZero(usize),
	JumpIfPNonZero(usize),
	JumpIfVarZero(&'static str, usize),
	Nop,
}

/// Flatten a label-valid body into a linear program. Label targets are
/// resolved by the reverse-scope rule (nearest later label of the same or an
/// enclosing sequence). `depth_at[i]` = scope depth in force before op i.
struct Linear
{
	ops: Vec<Op>,
	depth_at: Vec<usize>,
}

fn flatten(body: &[Node], atoms: &[Atom], has_return: bool) -> Linear
{
	struct B<'a>
	{
		atoms: &'a [Atom],
		ops: Vec<Op>,
		depth_at: Vec<usize>,
		/// pending gotos: (op index, label name, chain of enclosing sequence ids)
		pending: Vec<(usize, &'static str, Vec<usize>)>,
		/// labels: (sequence id, name, op index)
		labels: Vec<(usize, &'static str, usize)>,
		next_seq: usize,
	}
	impl<'a> B<'a>
	{
		fn emit(&mut self, op: Op, depth: usize) -> usize
		{
			self.ops.push(op);
			self.depth_at.push(depth);
			self.ops.len() - 1
		}
		fn seq(&mut self, seq: &[Node], chain: &[usize], depth: usize) -> usize
		{
			let id = self.next_seq;
			self.next_seq += 1;
			let mut chain = chain.to_vec();
			chain.push(id);
			for n in seq
			{
				match n
				{
					Node::Atom(k) => match self.atoms[*k].clone()
					{
						Atom::Decl(n) | Atom::DeclSelf(n) =>
						{
							// (a body with DeclSelf is never accepted: either the
							// name is unknown or it is a duplicate)
							self.emit(Op::Decl(n), depth);
						}
						Atom::Use(n) =>
						{
							self.emit(Op::Use(n), depth);
						}
						Atom::Bump(n) =>
						{
							self.emit(Op::Bump(n), depth);
						}
						Atom::Nop =>
						{
							self.emit(Op::Nop, depth);
						}
						Atom::Label(l) =>
						{
							let at = self.emit(Op::Nop, depth);
							self.labels.push((id, l, at));
						}
						Atom::Goto(l) =>
						{
							let at = self.emit(Op::Jump(0), depth);
							self.pending.push((at, l, chain.clone()));
						}
						Atom::IfGoto(l) =>
						{
							let at = self.emit(Op::JumpIfPZero(0), depth);
							self.pending.push((at, l, chain.clone()));
						}
						Atom::CondGoto(v, l) =>
						{
							let at = self.emit(Op::JumpIfVarZero(v, 0), depth);
							self.pending.push((at, l, chain.clone()));
						}
					},
					Node::Block(b) => self.block(b, &chain, depth),
					Node::If(b) =>
					{
						let j = self.emit(Op::JumpIfPNonZero(0), depth);
						if let Node::Block(b) = &**b
						{
							self.block(b, &chain, depth);
						}
						let end = self.ops.len();
						self.ops[j] = Op::JumpIfPNonZero(end);
					}
					Node::IfElse(x, y) =>
					{
						let j = self.emit(Op::JumpIfPNonZero(0), depth);
						if let Node::Block(b) = &**x
						{
							self.block(b, &chain, depth);
						}
						let j2 = self.emit(Op::Jump(0), depth);
						let else_at = self.ops.len();
						self.ops[j] = Op::JumpIfPNonZero(else_at);
						if let Node::Block(b) = &**y
						{
							self.block(b, &chain, depth);
						}
						let end = self.ops.len();
						self.ops[j2] = Op::Jump(end);
					}
				}
			}
			id
		}
		fn block(&mut self, b: &[Node], chain: &[usize], depth: usize)
		{
			self.emit(Op::EnterScope, depth);
			self.seq(b, chain, depth + 1);
			self.emit(Op::ExitScope(0), depth + 1);
		}
	}
	let mut b = B {
		atoms,
		ops: Vec::new(),
		depth_at: Vec::new(),
		pending: Vec::new(),
		labels: Vec::new(),
		next_seq: 0,
	};
	let root = b.seq(body, &[], 0);
	if has_return
	{
		let at = b.emit(Op::Nop, 0);
		b.labels.push((root, "return", at));
	}
	// resolve: innermost enclosing sequence that has a later label of that name
	let pending = std::mem::take(&mut b.pending);
	for (at, name, chain) in pending
	{
		let mut target = None;
		for sid in chain.iter().rev()
		{
			if let Some((_, _, pos)) = b
				.labels
				.iter()
				.filter(|(s, n, p)| s == sid && *n == name && *p > at)
				.min_by_key(|(_, _, p)| *p)
			{
				target = Some(*pos);
				break;
			}
		}
		let t = target.expect("label-valid body");
		b.ops[at] = match b.ops[at].clone()
		{
			Op::Jump(_) => Op::Jump(t),
			Op::JumpIfPZero(_) => Op::JumpIfPZero(t),
			Op::JumpIfVarZero(v, _) => Op::JumpIfVarZero(v, t),
			o => o,
		};
	}
	b.depth_at.push(0);
	Linear {
		ops: b.ops,
		depth_at: b.depth_at,
	}
}

/// Execute for one value of p. Returns Err(name) when a variable is read whose
/// declaration did not execute in the current activation of its scope.
fn execute(lin: &Linear, p: i64, ret: Option<&'static str>) -> Result<(Vec<i64>, i64), String>
{
	// scope stack of name -> value; globals: K, parameter p
	let mut scopes: Vec<HashMap<&'static str, i64>> = vec![HashMap::new()];
	let globals: HashMap<&str, i64> = [("K", 44), ("p", p)].into_iter().collect();
	let mut out = Vec::new();
	let mut pc = 0;
	let mut steps = 0;
	let read = |scopes: &Vec<HashMap<&'static str, i64>>, n: &str| -> Result<i64, String> {
		for s in scopes.iter().rev()
		{
			if let Some(v) = s.get(n)
			{
				return Ok(*v);
			}
		}
		globals.get(n).copied().ok_or_else(|| n.to_string())
	};
	while pc < lin.ops.len()
	{
		steps += 1;
		if steps > 100_000
		{
			break;
		}
		// a jump may leave scopes: drop down to the depth of the target
		let depth = lin.depth_at[pc];
		while scopes.len() > depth + 1
		{
			scopes.pop();
		}
		match &lin.ops[pc]
		{
			Op::EnterScope =>
			{
				scopes.push(HashMap::new());
				pc += 1;
			}
			Op::ExitScope(_) =>
			{
				scopes.pop();
				pc += 1;
			}
			Op::Decl(n) =>
			{
				scopes.last_mut().unwrap().insert(n, init_value(n));
				pc += 1;
			}
			Op::Use(n) =>
			{
				out.push(read(&scopes, n)?);
				pc += 1;
			}
			Op::Bump(n) =>
			{
				let v = read(&scopes, n)?;
				// write to the innermost binding
				let mut done = false;
				for s in scopes.iter_mut().rev()
				{
					if let Some(x) = s.get_mut(n)
					{
						*x = (v + 100) as i32 as i64;
						done = true;
						break;
					}
				}
				if !done
				{
					return Err(n.to_string());
				}
				pc += 1;
			}
			Op::Jump(t) => pc = *t,
			Op::JumpIfPZero(t) => pc = if p == 0 { *t } else { pc + 1 },
			Op::JumpIfPNonZero(t) => pc = if p != 0 { *t } else { pc + 1 },
			Op::JumpIfVarZero(v, t) =>
			{
				let x = read(&scopes, v)?;
				pc = if x == 0 { *t } else { pc + 1 };
			}
			Op::Nop => pc += 1,
		}
	}
	while scopes.len() > 1
	{
		scopes.pop();
	}
	let r = match ret
	{
		Some(n) => read(&scopes, n)?,
		None => 0,
	};
	Ok((out, r))
}

// -------------------------------------------------------------------- judge

fn render(body: &[Node], atoms: &[Atom], ret: Option<&'static str>) -> String
{
	let mut s = String::from(
		"const K: i32 = 44;\n\nfn sink(x: i32)\n{\n\tprint!(x, \"\\n\");\n}\n\n",
	);
	let at = |k: usize| atom_text(&atoms[k]);
	let mut body_text = String::new();
	treegen::print_seq(body, 1, &at, &mut body_text);
	// Neighbouring declarations that use the same names must not matter:
	// parameters of function heads and the variables and parameters of other
	// functions are not in scope here. One of four surroundings per body (the fourth: functions without parameters, with bodies, before it).
	match crate::choices::fnv(&body_text) % 4
	{
		3 => s.push_str("fn before() -> i32\n{\n\tvar v: i32 = K;\n\treturn: v\n}\n\nfn nothing()\n{\n}\n\n"),
		1 => s.push_str("fn head_one(v: i32, w: i32) -> i32;\n\nfn head_two(z: i32, u: i32, p: i32);\n\n"),
		2 => s.push_str("fn other(u: i32, z: i32) -> i32\n{\n\tvar v: i32 = u;\n\tvar w: i32 = z;\n\treturn: v + w\n}\n\n"),
		_ => (),
	}
	if ret.is_some()
	{
		s.push_str("fn f(p: i32) -> i32\n{\n");
	}
	else
	{
		s.push_str("fn f(p: i32)\n{\n");
	}
	s.push_str(&body_text);
	if let Some(r) = ret
	{
		s.push_str(&format!("\treturn: {}\n", r));
	}
	s.push_str("}\n\nfn main() -> i32\n{\n");
	if ret.is_some()
	{
		s.push_str("\tvar r0: i32 = f(0);\n\tsink(r0);\n\tvar r1: i32 = f(1);\n\tsink(r1);\n");
	}
	else
	{
		s.push_str("\tf(0);\n\tf(1);\n");
	}
	s.push_str("\treturn: 0\n}\n");
	s
}

fn judge(
	body: &[Node],
	atoms: &[Atom],
	ret: Option<&'static str>,
	execute_sample: bool,
	ctx: &RunCtx,
	out: &mut CaseOut,
)
{
	let tail: Vec<&str> = if ret.is_some() { vec!["return"] } else { vec![] };
	if !labels_ok(body, atoms, &[], &tail)
	{
		out.discarded = Some("label structure invalid (that is C04's subject)".into());
		return;
	}
	let v = static_model(body, atoms, ret);
	let src = render(body, atoms, ret);
	let mut expected: Vec<u16> = Vec::new();
	if v.undefined
	{
		expected.push(402);
	}
	if v.duplicate
	{
		expected.push(422);
	}
	if v.skipped
	{
		expected.push(482);
	}
	let o = if execute_sample && expected.is_empty()
	{
		alpha::compile_one(
			&src,
			alpha::Options {
				want_ir: true,
				..Default::default()
			},
		)
	}
	else
	{
		alpha::analyze_one(&src)
	};
	let scoping: BTreeSet<u16> = o
		.codes
		.iter()
		.copied()
		.filter(|c| [402, 422, 424, 482].contains(c))
		.collect();
	let others: Vec<u16> = o
		.codes
		.iter()
		.copied()
		.filter(|c| ![402, 422, 424, 482].contains(c))
		.collect();
	let exp_set: BTreeSet<u16> = expected.iter().copied().collect();
	out.nontrivial = v.nontrivial;
	out.key = fnv(&src);
	out.class(if expected.is_empty() { "expected:accept" } else { "expected:reject" });
	for c in &expected
	{
		out.class(format!("expected:E{}", c));
	}
	let detail = json!({"source": src, "expected_codes": expected, "actual": o.summary()});
	if let Some(err) = &o.internal_error
	{
		out.fail(format!("internal error: {}", err.chars().take(60).collect::<String>()), detail.clone());
	}
	else if expected.is_empty() && !o.ok
	{
		out.fail(format!("well-scoped body rejected: {:?}", o.codes.iter().collect::<BTreeSet<_>>()), detail.clone());
	}
	else if !expected.is_empty() && o.ok
	{
		out.fail(format!("ill-scoped body accepted (expected {:?})", expected), detail.clone());
	}
	else if scoping != exp_set
	{
		out.fail(format!("wrong scoping diagnostics: expected {:?} got {:?}", exp_set, scoping), detail.clone());
	}
	else if !others.is_empty() && expected.is_empty()
	{
		out.fail(format!("unexpected codes {:?}", others), detail.clone());
	}
	// dynamic leg: independent of the static model — an accepted program
	// must never read a variable whose declaration did not execute
	if o.ok
	{
		let lin = flatten(body, atoms, ret.is_some());
		let mut expected_out: Vec<i64> = Vec::new();
		let mut dynamic_skip = None;
		for p in [0i64, 1]
		{
			match execute(&lin, p, ret)
			{
				Ok((vals, r)) =>
				{
					expected_out.extend(vals);
					if ret.is_some()
					{
						expected_out.push(r);
					}
				}
				Err(name) =>
				{
					dynamic_skip = Some((p, name));
					break;
				}
			}
		}
		if let Some((p, name)) = dynamic_skip
		{
			out.fail(
				"accepted program reads a variable whose declaration is skipped at run time",
				json!({"source": src, "p": p, "variable": name}),
			);
		}
		else if let Some(ir) = o.module_irs.first()
		{
			out.class("executed");
			let r = alpha::run_ir(ir, 10);
			let want: String = expected_out.iter().map(|v| format!("{}\n", v)).collect();
			let got = String::from_utf8_lossy(&r.stdout).to_string();
			if r.timed_out
			{
				out.discarded = Some("lli timeout".into());
			}
			else if got != want || r.status != Some(0) || !r.stderr.is_empty()
			{
				out.fail(
					"executed output differs from the scope-aware interpreter",
					json!({"source": src, "expected_stdout": want, "stdout": got, "status": r.status, "stderr": String::from_utf8_lossy(&r.stderr)}),
				);
			}
		}
	}
	if ctx.want_sample
	{
		out.sample = Some(json!({"source": src, "expected_codes": expected}));
	}
}

/// one body of the exhaustive enumeration (quick bound), drawn at random (used by C02)
pub fn enumerated_source(c: &mut Choices) -> String
{
	thread_local! {
		static CNT: std::cell::RefCell<Option<Counter>> = std::cell::RefCell::new(None);
	}
	let r = c.u64();
	let body = CNT.with(|k| {
		let mut k = k.borrow_mut();
		if k.is_none()
		{
			*k = Some(Exhaustive::counter(Tier::Quick));
		}
		let k = k.as_ref().unwrap();
		k.unrank(((r as u128 * k.total() as u128) >> 64) as u64)
	});
	render(&body, &atoms_small(), None)
}

struct Exhaustive;
impl Exhaustive
{
	fn counter(tier: Tier) -> Counter
	{
		let g = Grammar {
			atoms: atoms_small().len(),
			naked_branches: false,
		};
		Counter::new(g, tier.pick(5, 6) as usize, 3)
	}
}
impl Stream for Exhaustive
{
	fn name(&self) -> String
	{
		"exhaustive-bodies".into()
	}
	fn count(&self, tier: Tier) -> u64
	{
		Self::counter(tier).total()
	}
	fn exhaustive(&self) -> bool
	{
		true
	}
	fn stride(&self) -> u64
	{
		512
	}
	fn run(&self, idx: u64, _c: &mut Choices, ctx: &RunCtx) -> CaseOut
	{
		thread_local! {
			static CNT: std::cell::RefCell<Option<(Tier, Counter)>> = std::cell::RefCell::new(None);
		}
		let mut out = CaseOut::default();
		let body = CNT.with(|c| {
			let mut c = c.borrow_mut();
			if c.as_ref().map(|(t, _)| *t != ctx.tier).unwrap_or(true)
			{
				*c = Some((ctx.tier, Self::counter(ctx.tier)));
			}
			c.as_ref().unwrap().1.unrank(idx)
		});
		let atoms = atoms_small();
		// execute a fixed sparse sample of the accepted bodies
		judge(&body, &atoms, None, idx % 997 == 0, ctx, &mut out);
		out.key = idx;
		out
	}
}

/// make the label structure valid by construction (reverse walk, exactly the
/// visibility rule): retarget or neutralise gotos without a visible target,
/// rename or neutralise clashing labels
fn repair_labels(seq: &mut Vec<Node>, atoms: &[Atom], outer: &[&'static str], tail: &[&'static str])
{
	// (the filler `sink(p);` becomes `sink(0);` where there is no parameter; a
	// goto form that the atom list lacks becomes the other form)
	let find = |a: Atom| {
		atoms
			.iter()
			.position(|x| *x == a)
			.or_else(|| match &a
			{
				Atom::IfGoto(l) => atoms.iter().position(|x| *x == Atom::Goto(l)),
				_ => None,
			})
			.or_else(|| atoms.iter().position(|x| *x == Atom::Nop))
			.unwrap()
	};
	let mut later: Vec<&'static str> = tail.to_vec();
	for i in (0..seq.len()).rev()
	{
		let mut visible = later.clone();
		visible.extend_from_slice(outer);
		match &mut seq[i]
		{
			Node::Atom(k) =>
			{
				let a = atoms[*k].clone();
				match a
				{
					Atom::Label(l) =>
					{
						if visible.contains(&l)
						{
							let other = if l == "a" { "b" } else { "a" };
							if visible.contains(&other)
							{
								*k = find(Atom::Use("p"));
							}
							else
							{
								*k = find(Atom::Label(other));
								later.push(other);
							}
						}
						else
						{
							later.push(l);
						}
					}
					Atom::Goto(l) | Atom::IfGoto(l) | Atom::CondGoto(_, l) =>
					{
						if !visible.contains(&l)
						{
							let usable: Vec<&&'static str> =
								visible.iter().filter(|x| **x != "return").collect();
							if let Some(t) = usable.first()
							{
								*k = match a
								{
									Atom::Goto(_) => find(Atom::Goto(t)),
									_ => find(Atom::IfGoto(t)),
								};
							}
							else
							{
								*k = find(Atom::Use("p"));
							}
						}
					}
					_ => (),
				}
			}
			Node::Block(b) => repair_labels(b, atoms, &visible, &[]),
			Node::If(b) =>
			{
				if let Node::Block(b) = &mut **b
				{
					repair_labels(b, atoms, &visible, &[])
				}
			}
			Node::IfElse(x, y) =>
			{
				if let Node::Block(b) = &mut **x
				{
					repair_labels(b, atoms, &visible, &[])
				}
				if let Node::Block(b) = &mut **y
				{
					repair_labels(b, atoms, &visible, &[])
				}
			}
		}
	}
}

/// the source of one random body (also compiled to IR by C02)
pub fn random_source(c: &mut Choices) -> String
{
	let atoms = atoms_large();
	let g = Grammar {
		atoms: atoms.len(),
		naked_branches: false,
	};
	let mut budget = 30;
	let ret = match c.draw(4)
	{
		0 => None,
		1 => Some("v"),
		2 => Some("p"),
		_ => Some("w"),
	};
	let mut body = treegen::random_seq(c, g, &mut budget, 4, 10);
	if c.chance(3, 4)
	{
		let tail: Vec<&'static str> = if ret.is_some() { vec!["return"] } else { vec![] };
		repair_labels(&mut body, &atoms, &[], &tail);
	}
	render(&body, &atoms, ret)
}

struct RandomBodies;
impl Stream for RandomBodies
{
	fn name(&self) -> String
	{
		"random-bodies".into()
	}
	fn count(&self, tier: Tier) -> u64
	{
		tier.pick(150_000, 1_000_000)
	}
	fn choice_len(&self) -> usize
	{
		200
	}
	fn stride(&self) -> u64
	{
		64
	}
	fn run(&self, idx: u64, c: &mut Choices, ctx: &RunCtx) -> CaseOut
	{
		let mut out = CaseOut::default();
		let atoms = atoms_large();
		let g = Grammar {
			atoms: atoms.len(),
			naked_branches: false,
		};
		let mut budget = 30;
		let ret = match c.draw(4)
		{
			0 => None,
			1 => Some("v"),
			2 => Some("p"),
			_ => Some("w"),
		};
		let mut body = treegen::random_seq(c, g, &mut budget, 4, 10);
		let tail: Vec<&'static str> = if ret.is_some() { vec!["return"] } else { vec![] };
		repair_labels(&mut body, &atoms, &[], &tail);
		judge(&body, &atoms, ret, idx % 20 == 0, ctx, &mut out);
		out
	}
}

/// Bodies of a function WITHOUT parameters in a module WITHOUT constants: at
/// the first statements nothing at all is in scope (the scope bookkeeping at a
/// goto must not depend on something being declared before it).
struct BareFunctions;
fn atoms_bare() -> Vec<Atom>
{
	let mut v = Vec::new();
	for n in ["v", "w"]
	{
		v.push(Atom::Decl(n));
		v.push(Atom::Use(n));
		v.push(Atom::Bump(n));
	}
	for l in ["a", "b"]
	{
		v.push(Atom::Label(l));
		v.push(Atom::Goto(l));
		v.push(Atom::Goto(l));
	}
	v.push(Atom::CondGoto("v", "a"));
	v.push(Atom::CondGoto("w", "b"));
	v.push(Atom::Nop);
	v
}
impl Stream for BareFunctions
{
	fn name(&self) -> String
	{
		"bare-functions".into()
	}
	fn count(&self, tier: Tier) -> u64
	{
		tier.pick(60_000, 600_000)
	}
	fn choice_len(&self) -> usize
	{
		120
	}
	fn stride(&self) -> u64
	{
		64
	}
	fn run(&self, _idx: u64, c: &mut Choices, ctx: &RunCtx) -> CaseOut
	{
		let mut out = CaseOut::default();
		let atoms = atoms_bare();
		let g = Grammar {
			atoms: atoms.len(),
			naked_branches: false,
		};
		let mut budget = 14;
		let mut body = treegen::random_seq(c, g, &mut budget, 3, 8);
		repair_labels(&mut body, &atoms, &[], &[]);
		if !labels_ok(&body, &atoms, &[], &[])
		{
			out.discarded = Some("label structure invalid (that is C04's subject)".into());
			return out;
		}
		let mut m = Model {
			atoms: &atoms,
			scopes: Vec::new(),
			next_binding: 0,
			dubious: BTreeSet::new(),
			v: Verdict::default(),
			ret_use: None,
		};
		m.walk(&body, None);
		let v = m.v;
		let mut expected: BTreeSet<u16> = BTreeSet::new();
		if v.undefined
		{
			expected.insert(402);
		}
		if v.duplicate
		{
			expected.insert(422);
		}
		if v.skipped
		{
			expected.insert(482);
		}
		let mut src = String::from("fn sink(x: i32)\n{\n\tprint!(x, \"\\n\");\n}\n\nfn f()\n{\n");
		let at = |k: usize| atom_text(&atoms[k]);
		let mut body_text = String::new();
		treegen::print_seq(&body, 1, &at, &mut body_text);
		// there is no parameter: conditions compare literals
		src.push_str(&body_text.replace("if p == 0", "if 0i32 == 0"));
		src.push_str("}\n\nfn main() -> i32\n{\n\tf();\n\treturn: 0\n}\n");
		out.key = fnv(&src);
		out.nontrivial = v.nontrivial || v.skipped;
		let o = alpha::analyze_one(&src);
		let scoping: BTreeSet<u16> = o.codes.iter().copied().filter(|c| [402, 422, 424, 482].contains(c)).collect();
		let detail = json!({"source": src, "expected_codes": expected, "actual": o.summary()});
		if let Some(err) = &o.internal_error
		{
			out.fail(format!("internal error: {}", err.chars().take(60).collect::<String>()), detail);
		}
		else if expected.is_empty() && !o.ok
		{
			out.fail(format!("well-scoped body rejected: {:?}", o.codes.iter().collect::<BTreeSet<_>>()), detail);
		}
		else if !expected.is_empty() && o.ok
		{
			out.fail(format!("ill-scoped body accepted (expected {:?})", expected), detail);
		}
		else if scoping != expected
		{
			out.fail(format!("wrong scoping diagnostics: expected {:?} got {:?}", expected, scoping), detail);
		}
		if ctx.want_sample
		{
			out.sample = Some(json!({"source": src, "expected_codes": expected}));
		}
		out
	}
}

/// structured generator aimed at the E482 region: goto(s) / declarations /
/// label / uses in every relative order and nesting
struct SkipPatterns;
impl Stream for SkipPatterns
{
	fn name(&self) -> String
	{
		"skip-patterns".into()
	}
	fn count(&self, tier: Tier) -> u64
	{
		tier.pick(120_000, 1_000_000)
	}
	fn choice_len(&self) -> usize
	{
		120
	}
	fn stride(&self) -> u64
	{
		64
	}
	fn run(&self, idx: u64, c: &mut Choices, ctx: &RunCtx) -> CaseOut
	{
		let mut out = CaseOut::default();
		let atoms = atoms_large();
		let find = |a: Atom| Node::Atom(atoms.iter().position(|x| *x == a).unwrap());
		let vars = ["v", "w", "z"];
		fn wrap(c: &mut Choices, n: Node) -> Node
		{
			match c.draw(4)
			{
				0 | 1 => n,
				2 => Node::Block(vec![n]),
				_ => Node::If(Box::new(Node::Block(vec![n]))),
			}
		}
		let mut gpart = |c: &mut Choices, l: &'static str| -> Node {
			let g = if c.flag() { find(Atom::IfGoto(l)) } else { find(Atom::Goto(l)) };
			let g = wrap(c, g);
			wrap(c, g)
		};
		let mut region = |c: &mut Choices, label: &'static str, depth: usize| -> Vec<Node> {
			let mut seq = Vec::new();
			for _ in 0..c.draw(3)
			{
				seq.push(match c.draw(3)
				{
					0 => find(Atom::Decl(*c.pick(&vars))),
					1 => find(Atom::Use("p")),
					_ => find(Atom::Use(*c.pick(&vars))),
				});
			}
			if c.chance(3, 4)
			{
				seq.push(gpart(c, label));
			}
			for _ in 0..1 + c.draw(4)
			{
				seq.push(match c.draw(6)
				{
					0 | 1 | 2 => find(Atom::Decl(*c.pick(&vars))),
					3 => find(Atom::Use(*c.pick(&vars))),
					4 => Node::Block(vec![
						find(Atom::Decl(*c.pick(&vars))),
						find(Atom::Use(*c.pick(&vars))),
					]),
					_ => gpart(c, label),
				});
			}
			seq.push(find(Atom::Label(label)));
			for _ in 0..c.draw(5)
			{
				seq.push(match c.draw(7)
				{
					0 | 1 | 2 => find(Atom::Use(*c.pick(&vars))),
					3 => Node::Block(vec![find(Atom::Use(*c.pick(&vars)))]),
					4 => Node::If(Box::new(Node::Block(vec![find(Atom::Bump(*c.pick(&vars)))]))),
					5 => find(Atom::Decl(*c.pick(&vars))),
					_ => find(Atom::CondGoto("w", "b")),
				});
			}
			let _ = depth;
			seq
		};
		// outer region with label b at its end so that CondGoto(.., b) resolves
		let mut body = Vec::new();
		for _ in 0..c.draw(3)
		{
			body.push(find(Atom::Decl(*c.pick(&vars))));
		}
		let inner = region(c, "a", 0);
		if c.flag()
		{
			body.push(Node::Block(inner));
		}
		else
		{
			body.extend(inner);
		}
		for _ in 0..c.draw(3)
		{
			body.push(find(Atom::Use(*c.pick(&vars))));
		}
		body.push(find(Atom::Label("b")));
		for _ in 0..c.draw(3)
		{
			body.push(find(Atom::Use(*c.pick(&vars))));
		}
		let ret = match c.draw(3)
		{
			0 => None,
			1 => Some("v"),
			_ => Some("w"),
		};
		judge(&body, &atoms, ret, idx % 20 == 0, ctx, &mut out);
		out
	}
}

impl Check for C05
{
	fn id(&self) -> &'static str
	{
		"C05"
	}
	fn rule(&self) -> String
	{
		"function bodies over {var declaration, use in a call, use in an if condition, read-modify-write, label, goto, if-goto, block, if-block, if-else-blocks}: (a) every body of <= 5 (quick) / <= 6 (thorough) nodes, nesting <= 3, 2 variable names and 1 label name (exhaustive); (b) random bodies (label structure repaired to be valid by construction) up to 30 nodes with 3 variable names, the parameter name, a constant name, an undeclared name, 2 labels, `goto return`, and a use in the return value; (c) structured skip patterns: goto(s), declarations, label and uses in every relative order and nesting; (d) random bodies of a function without parameters in a module without constants (nothing in scope at the first statements), static oracle only. Random bodies also contain `var v: i32 = v + 1;` (the initialiser is analysed before the variable exists). Every body is surrounded by one of four neighbourhoods chosen by its hash: nothing, two function heads whose parameters carry the body's variable names, another function with variables and parameters of the same names (none of which is in scope), or two functions without parameters before it. Bodies whose label structure is invalid are discarded (C04's subject) and counted. Oracle 1 (static): an independent positional model predicts the set {E402, E422, E482}; verdict and the scoping subset of Errors::codes() must equal it. Oracle 2 (dynamic, independent of oracle 1): every ACCEPTED body is interpreted for p=0 and p=1 by a scope-aware interpreter that fails if a variable is read whose declaration did not execute; a sample is also run with lli and compared on stdout. Non-trivial: a goto/label pair spanning a declaration, or a use nested >= 2 blocks deep; distinct by body.".into()
	}
	fn assumptions(&self) -> Vec<String>
	{
		vec![
			"static model (harness/src/c05.rs::static_model): a declaration is dubious after a label iff some in-bound goto of that label lies textually before the declaration in the label's own block; constants and parameters are visible throughout".into(),
			"codes are compared as sets (multiplicity of E482/E402 after the first is not documented)".into(),
			"precision beyond the documented structural rule (unreachable gotos) is not demanded".into(),
		]
	}
	fn streams(&self) -> Vec<Box<dyn Stream>>
	{
		vec![Box::new(Exhaustive), Box::new(RandomBodies), Box::new(SkipPatterns), Box::new(BareFunctions)]
	}
}
