//! Splitting a generated program over several files with the `pub` / `import`
//! declarations that the split requires (C12, also used by C03 and C18).

use crate::ast::*;
use crate::choices::Choices;
use std::collections::BTreeSet;

#[derive(Default, Debug, Clone)]
pub struct Refs
{
	pub items: BTreeSet<Top>,
}

fn ty_refs(prog: &Program, t: &Ty, out: &mut BTreeSet<Top>)
{
	match t
	{
		Ty::Prim(_) => (),
		Ty::Array(e, _, named) =>
		{
			if let Some(n) = named
			{
				if let Some(i) = prog.consts.iter().position(|c| &c.name == n)
				{
					out.insert(Top::Const(i));
				}
			}
			ty_refs(prog, e, out);
		}
		Ty::Named(i) =>
		{
			out.insert(Top::Struct(*i));
		}
		Ty::Ptr(e) | Ty::Slice(e) | Ty::SlicePtr(e) => ty_refs(prog, e, out),
	}
}

fn place_refs(prog: &Program, p: &Place, out: &mut BTreeSet<Top>)
{
	if let Some(i) = prog.consts.iter().position(|c| c.name == p.base)
	{
		out.insert(Top::Const(i));
	}
	for s in &p.steps
	{
		if let Step::Index(e) = s
		{
			expr_refs(prog, e, out);
		}
	}
}

fn arg_refs(prog: &Program, a: &Arg, out: &mut BTreeSet<Top>)
{
	match a
	{
		Arg::Value(e) => expr_refs(prog, e, out),
		Arg::View(p) | Arg::Addr(p, _) => place_refs(prog, p, out),
	}
}

pub fn expr_refs(prog: &Program, e: &Expr, out: &mut BTreeSet<Top>)
{
	match e
	{
		Expr::Lit(..) | Expr::Str(_) => (),
		Expr::Read(p, t) =>
		{
			place_refs(prog, p, out);
			ty_refs(prog, t, out);
		}
		Expr::Bin(_, l, r, _) =>
		{
			expr_refs(prog, l, out);
			expr_refs(prog, r, out);
		}
		Expr::Un(_, x, _) | Expr::Cast(x, _, _) | Expr::Paren(x) => expr_refs(prog, x, out),
		Expr::Len(p) => place_refs(prog, p, out),
		Expr::SizeOf(t) => ty_refs(prog, t, out),
		Expr::Call(f, args, _) =>
		{
			out.insert(Top::Func(*f));
			for a in args
			{
				arg_refs(prog, a, out);
			}
		}
		Expr::StructLit(si, fields) =>
		{
			out.insert(Top::Struct(*si));
			for (_, e) in fields
			{
				expr_refs(prog, e, out);
			}
		}
		Expr::ArrayLit(es) =>
		{
			for e in es
			{
				expr_refs(prog, e, out);
			}
		}
	}
}

fn branch_refs(prog: &Program, b: &Branch, out: &mut BTreeSet<Top>)
{
	match b
	{
		Branch::Block(v) => stmts_refs(prog, v, out),
		Branch::Goto(_) => (),
		Branch::If(s) => stmts_refs(prog, std::slice::from_ref(s), out),
	}
}

pub fn stmts_refs(prog: &Program, v: &[Stmt], out: &mut BTreeSet<Top>)
{
	for s in v
	{
		match s
		{
			Stmt::Var { ty, init, .. } =>
			{
				ty_refs(prog, ty, out);
				if let Some(e) = init
				{
					expr_refs(prog, e, out);
				}
			}
			Stmt::Assign(p, e) =>
			{
				place_refs(prog, p, out);
				expr_refs(prog, e, out);
			}
			Stmt::Repoint(p, q, _) =>
			{
				place_refs(prog, p, out);
				place_refs(prog, q, out);
			}
			Stmt::Call(f, args) =>
			{
				out.insert(Top::Func(*f));
				for a in args
				{
					arg_refs(prog, a, out);
				}
			}
			Stmt::Print(items) =>
			{
				for e in items
				{
					expr_refs(prog, e, out);
				}
			}
			Stmt::Block(b) => stmts_refs(prog, b, out),
			Stmt::If(c, t, e) =>
			{
				expr_refs(prog, &c.left, out);
				expr_refs(prog, &c.right, out);
				branch_refs(prog, t, out);
				if let Some(e) = e
				{
					branch_refs(prog, e, out);
				}
			}
			Stmt::Goto(_) | Stmt::Label(_) | Stmt::Loop => (),
		}
	}
}

/// what the *interface* of an item mentions (what an importer must also see)
pub fn interface_refs(prog: &Program, t: Top) -> BTreeSet<Top>
{
	let mut out = BTreeSet::new();
	match t
	{
		Top::Func(i) =>
		{
			for p in &prog.funcs[i].params
			{
				ty_refs(prog, &p.ty, &mut out);
			}
		}
		Top::Struct(i) =>
		{
			for (_, t) in &prog.structs[i].members
			{
				ty_refs(prog, t, &mut out);
			}
		}
		Top::Const(i) =>
		{
			ty_refs(prog, &prog.consts[i].ty, &mut out);
			// the value of an imported constant is needed too (array lengths)
			expr_refs(prog, &prog.consts[i].init, &mut out);
		}
		Top::Raw(_) => (),
	}
	out.remove(&t);
	out
}

/// everything an item mentions anywhere
pub fn all_refs(prog: &Program, t: Top) -> BTreeSet<Top>
{
	let mut out = interface_refs(prog, t);
	if let Top::Func(i) = t
	{
		let f = &prog.funcs[i];
		stmts_refs(prog, &f.body, &mut out);
		if let Some(e) = &f.ret_expr
		{
			expr_refs(prog, e, &mut out);
		}
	}
	out.remove(&t);
	out
}

pub struct Split
{
	/// per file: name, the program to print (shared declarations, own order + imports)
	pub files: Vec<(String, Program)>,
	/// file index of every top-level item
	pub home: Vec<(Top, usize)>,
	/// (importing file, imported file)
	pub imports: Vec<(usize, usize)>,
	/// an item referenced from another file
	pub crossing: Vec<(Top, usize)>,
}

pub fn file_of(home: &[(Top, usize)], t: Top) -> usize
{
	home.iter().find(|(x, _)| *x == t).map(|(_, f)| *f).unwrap()
}

/// Assign every top-level item to one of `nfiles` files, mark what crosses a
/// file boundary `pub`, and give each file the imports it needs.
pub fn split(c: &mut Choices, prog: &Program, nfiles: usize) -> Split
{
	let mut base = prog.clone();
	let mut home: Vec<(Top, usize)> = Vec::new();
	for t in &prog.order
	{
		home.push((*t, c.draw(nfiles)));
	}
	// needs of each file: direct references of its items, closed under the
	// interface references of imported items
	let mut needs: Vec<BTreeSet<Top>> = vec![BTreeSet::new(); nfiles];
	for (t, f) in &home
	{
		for r in all_refs(prog, *t)
		{
			if file_of(&home, r) != *f
			{
				needs[*f].insert(r);
			}
		}
	}
	// Importing a file brings in ALL its `pub` items, and whatever their
	// interfaces mention must be visible in the importer as well. Iterate to
	// a fixed point over all files (what is `pub` grows as needs grow).
	loop
	{
		let mut changed = false;
		let public: BTreeSet<Top> = needs.iter().flat_map(|n| n.iter().copied()).collect();
		for f in 0..nfiles
		{
			let imported_files: BTreeSet<usize> =
				needs[f].iter().map(|n| file_of(&home, *n)).collect();
			let mut extra = BTreeSet::new();
			// every public item of every imported file is seen by f
			for p in &public
			{
				if imported_files.contains(&file_of(&home, *p))
				{
					for r in interface_refs(prog, *p)
					{
						if file_of(&home, r) != f && !needs[f].contains(&r)
						{
							extra.insert(r);
						}
					}
				}
			}
			for n in &needs[f]
			{
				for r in interface_refs(prog, *n)
				{
					if file_of(&home, r) != f && !needs[f].contains(&r)
					{
						extra.insert(r);
					}
				}
			}
			if !extra.is_empty()
			{
				needs[f].extend(extra);
				changed = true;
			}
		}
		if !changed
		{
			break;
		}
	}
	let mut imports = Vec::new();
	let mut crossing = Vec::new();
	for f in 0..nfiles
	{
		for n in &needs[f]
		{
			let g = file_of(&home, *n);
			if !imports.contains(&(f, g))
			{
				imports.push((f, g));
			}
			crossing.push((*n, f));
			match n
			{
				Top::Const(i) => base.consts[*i].public = true,
				Top::Struct(i) => base.structs[*i].public = true,
				Top::Func(i) => base.funcs[*i].public = true,
				Top::Raw(_) => (),
			}
		}
	}
	let mut files = Vec::new();
	for f in 0..nfiles
	{
		let mut p = base.clone();
		p.order = home.iter().filter(|(_, g)| *g == f).map(|(t, _)| *t).collect();
		p.imports = imports
			.iter()
			.filter(|(a, _)| *a == f)
			.map(|(_, b)| format!("m{}.pn", b))
			.collect();
		// importing a file twice is the same as importing it once
		if !p.imports.is_empty() && c.chance(1, 6)
		{
			let k = c.draw(p.imports.len());
			let again = p.imports[k].clone();
			p.imports.push(again);
		}
		// an import may stand anywhere among the declarations of a file
		if !p.imports.is_empty() && c.chance(1, 3)
		{
			p.imports_after = c.draw(p.order.len() + 1);
		}
		files.push((format!("m{}.pn", f), p));
	}
	// a file must not be empty (E101): give empty files one private constant
	for (k, (_, p)) in files.iter_mut().enumerate()
	{
		if p.order.is_empty() && p.imports.is_empty()
		{
			let idx = p.consts.len();
			p.consts.push(ConstDecl {
				name: format!("FILLER{}", k),
				ty: Ty::Prim(Prim::U8),
				init: Expr::Lit(k as u128, Prim::U8, Spell::default()),
				public: false,
			});
			p.order.push(Top::Const(idx));
		}
	}
	Split {
		files,
		home,
		imports,
		crossing,
	}
}
