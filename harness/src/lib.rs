//! `pv`: generators, reference models, oracles and the driver of the checks
//! C01-C20 (see /verif/DESIGN.md). The binary `pv` and the fuzz targets under
//! /verif/fuzz are thin entry points into this library.

pub mod alpha;
pub mod ast;
pub mod c01;
pub mod c02;
pub mod c03;
pub mod c04;
pub mod c05;
pub mod c06;
pub mod c07;
pub mod c08;
pub mod c09;
pub mod c10;
pub mod c11;
pub mod c12;
pub mod c13;
pub mod c14;
pub mod c15;
pub mod c16;
pub mod c17;
pub mod c18;
pub mod c19;
pub mod c20;
pub mod choices;
pub mod cli;
pub mod engine;
pub mod interp;
pub mod lexgen;
pub mod modsplit;
pub mod mutgen;
pub mod progen;
pub mod reflex;
pub mod syngen;
pub mod synterm;
pub mod treegen;
pub mod typedit;
