//! One type-breaking edit of a well-typed generated program (C07): a
//! sub-expression whose required type is fixed by its surroundings — a call
//! argument (any position), a typed initialiser, a return value, the right
//! operand of an operator or comparison whose left operand has an evident
//! type, an array index — is replaced by a literal of another, evident type,
//! or a structure argument by a literal of another structure.

use crate::ast::*;
use crate::choices::Choices;

#[derive(Debug, Clone, Copy, PartialEq, Eq)]
pub enum Site
{
	/// value argument number `usize` of a call with `usize` arguments
	Argument(usize, usize),
	StructArgument(usize, usize),
	Initialiser,
	Return,
	RightOperand,
	RightOfComparison,
	Index,
	/// a primitive member of a structure literal
	LiteralMember,
}

impl Site
{
	pub fn label(&self) -> String
	{
		match self
		{
			Site::Argument(i, n) => format!("argument {} of {}", if i + 1 == *n { "last".to_string() } else { format!("#{}", i + 1) }, n.min(&4)),
			Site::StructArgument(..) => "structure argument".to_string(),
			Site::Initialiser => "typed initialiser".to_string(),
			Site::Return => "return value".to_string(),
			Site::RightOperand => "right operand".to_string(),
			Site::RightOfComparison => "right side of comparison".to_string(),
			Site::Index => "array index".to_string(),
			Site::LiteralMember => "member of a structure literal".to_string(),
		}
	}
}

/// the type of the expression can be read off the expression itself
fn evident(e: &Expr) -> bool
{
	match e
	{
		Expr::Lit(_, p, s) => s.suffix || matches!(p, Prim::Bool | Prim::Char8),
		Expr::Read(..) | Expr::Call(..) | Expr::Cast(..) | Expr::Len(_) | Expr::SizeOf(_) => true,
		Expr::Paren(x) | Expr::Un(_, x, _) => evident(x),
		Expr::Bin(_, l, r, _) => evident(l) || evident(r),
		_ => false,
	}
}

fn other_literal(c: &mut Choices, not: Prim) -> Expr
{
	let pool: Vec<Prim> = ALL_PRIMS.iter().copied().filter(|p| *p != not && *p != Prim::Char8).collect();
	let q = *c.pick(&pool);
	let spell = Spell {
		suffix: true,
		..Spell::default()
	};
	Expr::Lit(1, q, spell)
}

struct Editor<'a, 'c, 'd>
{
	c: &'a mut Choices<'c>,
	/// parameter types of every function
	sigs: Vec<Vec<Ty>>,
	structs: &'d [StructDecl],
	/// count only (first pass) or apply at this site number of kind `kind`
	target: Option<usize>,
	kind: usize,
	seen: usize,
	/// sites per kind (first pass)
	per_kind: [usize; 8],
	done: Option<Site>,
	/// inside the condition of an `if`: a structure literal cannot be written there
	in_condition: bool,
}

impl<'a, 'c, 'd> Editor<'a, 'c, 'd>
{
	fn at_site(&mut self, kind: usize) -> bool
	{
		self.per_kind[kind] += 1;
		if kind != self.kind
		{
			return false;
		}
		let hit = self.target == Some(self.seen);
		self.seen += 1;
		hit && self.done.is_none()
	}

	fn literal_of_other_struct(&mut self, not: usize) -> Option<Expr>
	{
		// a structure (not a word) other than `not` whose members are all primitive
		let cands: Vec<usize> = self
			.structs
			.iter()
			.enumerate()
			.filter(|(i, s)| *i != not && s.members.iter().all(|(_, t)| t.prim().is_some()))
			.map(|(i, _)| i)
			.collect();
		if cands.is_empty()
		{
			return None;
		}
		let k = cands[self.c.draw(cands.len())];
		let members = self.structs[k]
			.members
			.iter()
			.map(|(n, t)| {
				let p = t.prim().unwrap();
				let v = if p == Prim::Bool { 0 } else { 1 };
				(n.clone(), Expr::Lit(v, p, Spell::default()))
			})
			.collect();
		Some(Expr::StructLit(k, members))
	}

	fn args(&mut self, f: usize, args: &mut Vec<Arg>)
	{
		let n = args.len();
		let sig = self.sigs.get(f).cloned().unwrap_or_default();
		for (i, a) in args.iter_mut().enumerate()
		{
			match a
			{
				Arg::Value(e) =>
				{
					if let Some(Ty::Prim(p)) = sig.get(i)
					{
						if self.at_site(0)
						{
							*e = other_literal(self.c, *p);
							self.done = Some(Site::Argument(i, n));
							continue;
						}
					}
					self.expr(e);
				}
				Arg::View(place) =>
				{
					if let Some(Ty::Named(s)) = sig.get(i)
					{
						if self.structs[*s].word_bytes.is_none() && !self.in_condition && self.at_site(1)
						{
							if let Some(lit) = self.literal_of_other_struct(*s)
							{
								*a = Arg::Value(lit);
								self.done = Some(Site::StructArgument(i, n));
								continue;
							}
						}
					}
					self.place(place);
				}
				Arg::Addr(place, _) => self.place(place),
			}
		}
	}

	fn place(&mut self, p: &mut Place)
	{
		for s in p.steps.iter_mut()
		{
			if let Step::Index(e) = s
			{
				if self.at_site(6)
				{
					**e = other_literal(self.c, Prim::Usize);
					self.done = Some(Site::Index);
				}
				else
				{
					self.expr(e);
				}
			}
		}
	}

	fn expr(&mut self, e: &mut Expr)
	{
		match e
		{
			Expr::Lit(..) | Expr::SizeOf(_) | Expr::Str(_) => (),
			Expr::Read(p, _) | Expr::Len(p) => self.place(p),
			Expr::Bin(_, l, r, p) =>
			{
				if evident(l) && self.at_site(4)
				{
					**r = other_literal(self.c, *p);
					self.done = Some(Site::RightOperand);
					return;
				}
				self.expr(l);
				self.expr(r);
			}
			Expr::Un(_, x, _) | Expr::Paren(x) | Expr::Cast(x, _, _) => self.expr(x),
			Expr::Call(f, args, _) =>
			{
				let f = *f;
				self.args(f, args);
			}
			Expr::StructLit(si, ms) =>
			{
				let decl = self.structs[*si].clone();
				for (name, m) in ms.iter_mut()
				{
					let declared = decl.members.iter().find(|(n, _)| n == name).and_then(|(_, t)| t.prim());
					if let Some(p) = declared
					{
						if self.at_site(7)
						{
							*m = other_literal(self.c, p);
							self.done = Some(Site::LiteralMember);
							continue;
						}
					}
					self.expr(m);
				}
			}
			Expr::ArrayLit(es) =>
			{
				for x in es.iter_mut()
				{
					self.expr(x);
				}
			}
		}
	}

	fn branch(&mut self, b: &mut Branch)
	{
		match b
		{
			Branch::Block(ss) => self.stmts(ss),
			Branch::Goto(_) => (),
			Branch::If(s) => self.stmt(s),
		}
	}

	fn stmt(&mut self, s: &mut Stmt)
	{
		match s
		{
			Stmt::Var {
				ty,
				annotate,
				init,
				..
			} =>
			{
				if let (Ty::Prim(p), true, Some(e)) = (&*ty, *annotate, init.as_mut())
				{
					if self.at_site(2)
					{
						*e = other_literal(self.c, *p);
						self.done = Some(Site::Initialiser);
						return;
					}
				}
				if let Some(e) = init
				{
					self.expr(e);
				}
			}
			Stmt::Assign(p, e) =>
			{
				self.place(p);
				self.expr(e);
			}
			Stmt::Repoint(..) | Stmt::Goto(_) | Stmt::Label(_) | Stmt::Loop => (),
			Stmt::Call(f, args) =>
			{
				let f = *f;
				self.args(f, args);
			}
			Stmt::Print(es) =>
			{
				for e in es.iter_mut()
				{
					self.expr(e);
				}
			}
			Stmt::Block(ss) => self.stmts(ss),
			Stmt::If(cmp, then, els) =>
			{
				if evident(&cmp.left) && self.at_site(5)
				{
					cmp.right = other_literal(self.c, cmp.ty);
					self.done = Some(Site::RightOfComparison);
				}
				else
				{
					self.in_condition = true;
					self.expr(&mut cmp.left);
					self.expr(&mut cmp.right);
					self.in_condition = false;
				}
				self.branch(then);
				if let Some(b) = els
				{
					self.branch(b);
				}
			}
		}
	}

	fn stmts(&mut self, ss: &mut Vec<Stmt>)
	{
		for s in ss.iter_mut()
		{
			self.stmt(s);
		}
	}

	fn program(&mut self, funcs: &mut Vec<FuncDecl>)
	{
		for f in funcs.iter_mut()
		{
			if f.head_only
			{
				continue;
			}
			self.stmts(&mut f.body);
			if let (Some(p), Some(e)) = (f.ret, f.ret_expr.as_mut())
			{
				if self.at_site(3)
				{
					*e = other_literal(self.c, p);
					self.done = Some(Site::Return);
				}
				else
				{
					self.expr(e);
				}
			}
		}
	}
}

/// Apply one type-breaking edit; None if the program offers no site.
pub fn break_one_type(prog: &mut Program, c: &mut Choices) -> Option<Site>
{
	let sigs: Vec<Vec<Ty>> = prog.funcs.iter().map(|f| f.params.iter().map(|p| p.ty.clone()).collect()).collect();
	let structs = prog.structs.clone();
	let mut funcs = std::mem::take(&mut prog.funcs);
	let per_kind = {
		let mut ed = Editor {
			c,
			sigs: sigs.clone(),
			structs: &structs,
			target: None,
			kind: usize::MAX,
			seen: 0,
			per_kind: [0; 8],
			done: None,
			in_condition: false,
		};
		ed.program(&mut funcs);
		ed.per_kind
	};
	// the kind first (arguments are rare and matter most), then the site
	let kinds: Vec<usize> = (0..8).filter(|k| per_kind[*k] > 0).collect();
	let weights: Vec<u32> = kinds.iter().map(|k| if *k == 0 { 5 } else if *k == 1 { 3 } else { 1 }).collect();
	let result = if kinds.is_empty()
	{
		None
	}
	else
	{
		let kind = kinds[c.weighted(&weights)];
		let k = c.draw(per_kind[kind]);
		let mut ed = Editor {
			c,
			sigs,
			structs: &structs,
			target: Some(k),
			kind,
			seen: 0,
			per_kind: [0; 8],
			done: None,
			in_condition: false,
		};
		ed.program(&mut funcs);
		ed.done
	};
	prog.funcs = funcs;
	result
}
