//! C19 — the token fuzzer emits only valid lexemes.

use crate::choices::Choices;
use crate::engine::*;
use crate::reflex;
use serde_json::json;

pub struct C19;

fn generate(seed: u64, kb: usize) -> String
{
	penne::delta::fuzzer::verif_hooks::set_seed(seed);
	let mut buffer = String::with_capacity(kb * 1096);
	penne::delta::fuzzer::fill_to_capacity_with_tokens(95, &mut buffer, 0)
		.expect("fuzzer returned an error");
	buffer
}

/// lexical errors of both lexers and the reference lexer: (who, code, byte offset)
fn lexical_errors(text: &str) -> Vec<(String, u16, usize)>
{
	let mut v = Vec::new();
	for t in penne::alpha::lexer::lex(text, "f.pn")
	{
		if let Err(e) = &t.result
		{
			v.push(("alpha".to_string(), reflex::lex_error_code(e), t.location.span.start));
		}
	}
	let d = penne::delta::lexer::lex(text.as_bytes(), "f.pn");
	if let Some(errors) = d.errors()
	{
		for e in errors.errors.iter()
		{
			let at = e.verif_location().span.start;
			v.push(("delta".to_string(), e.code(), at));
		}
	}
	let r = reflex::lex(text.as_bytes());
	for t in r.toks.iter().filter(|t| t.kind.starts_with('E'))
	{
		v.push(("reference".to_string(), t.kind[1..].parse().unwrap_or(0), t.start));
	}
	v
}

/// smallest line-aligned window that still has a lexical error
fn minimise(text: &str) -> String
{
	let lines: Vec<&str> = text.split_inclusive('\n').collect();
	for (i, l) in lines.iter().enumerate()
	{
		if !lexical_errors(l).is_empty()
		{
			let _ = i;
			return l.to_string();
		}
	}
	text.chars().take(400).collect()
}

struct Library;
impl Stream for Library
{
	fn name(&self) -> String
	{
		"library-seeded".into()
	}
	fn count(&self, tier: Tier) -> u64
	{
		tier.pick(3000, 20_000)
	}
	fn choice_len(&self) -> usize
	{
		4
	}
	fn stride(&self) -> u64
	{
		4
	}
	fn run(&self, _idx: u64, c: &mut Choices, ctx: &RunCtx) -> CaseOut
	{
		let mut out = CaseOut::default();
		let kb = 1 + c.draw(64);
		let seed = c.u64();
		let text = generate(seed, kb);
		if text.len() < 1000 * kb
		{
			out.fail(
				"output shorter than the requested number of kilobytes",
				json!({"seed": seed, "kb": kb, "len": text.len()}),
			);
		}
		let errs = lexical_errors(&text);
		if let Some((who, code, at)) = errs.first()
		{
			out.fail(
				format!("fuzzer output has a lexical error for the {} lexer: E{}", who, code),
				json!({"seed": seed, "kb": kb, "at_byte": at, "errors": errs.len(), "minimal_line": minimise(&text)}),
			);
		}
		// which token classes does the output contain?
		let r = reflex::lex(text.as_bytes());
		let mut classes = std::collections::BTreeSet::new();
		for t in &r.toks
		{
			classes.insert(t.kind.as_bytes()[0]);
		}
		out.key = seed ^ kb as u64;
		out.nontrivial = classes.len() >= 10;
		out.class(format!("kb:{}", if kb <= 4 { "1-4" } else if kb <= 16 { "5-16" } else { "17-64" }));
		out.count("bytes_generated", text.len() as u64);
		out.count("tokens_lexed", r.toks.len() as u64);
		if ctx.want_sample
		{
			out.sample = Some(json!({"seed": seed, "kb": kb, "len": text.len(), "head": text.chars().take(200).collect::<String>()}));
		}
		out
	}
}

/// through the real binary: `penne fuzz tokens --kb N --out-dir D`
struct Cli;
impl Stream for Cli
{
	fn name(&self) -> String
	{
		"cli".into()
	}
	fn count(&self, tier: Tier) -> u64
	{
		tier.pick(12, 200)
	}
	fn choice_len(&self) -> usize
	{
		2
	}
	fn run(&self, idx: u64, c: &mut Choices, ctx: &RunCtx) -> CaseOut
	{
		let mut out = CaseOut::default();
		let kb = 1 + c.draw(32);
		let bin = crate::cli::penne_bin();
		let dir = scratch_dir().join(format!("c19-{}-{}", std::process::id(), idx));
		let _ = std::fs::create_dir_all(&dir);
		let res = std::process::Command::new(&bin)
			.args(["fuzz", "tokens", "--kb", &kb.to_string(), "--out-dir"])
			.arg(&dir)
			.arg("--silent")
			.output();
		match res
		{
			Err(e) => out.fail("cannot run penne binary", json!({"error": e.to_string(), "bin": bin})),
			Ok(o) =>
			{
				let file = dir.join("fuzzed_tokens.pn");
				match std::fs::read(&file)
				{
					Err(_) => out.fail(
						"penne fuzz tokens did not write fuzzed_tokens.pn",
						json!({"status": o.status.code(), "stderr": String::from_utf8_lossy(&o.stderr)}),
					),
					Ok(bytes) =>
					{
						if !o.status.success()
						{
							out.fail("penne fuzz tokens exited non-zero", json!({"status": o.status.code()}));
						}
						match String::from_utf8(bytes)
						{
							Err(_) => out.fail("fuzzer output is not valid UTF-8", json!({"kb": kb})),
							Ok(text) =>
							{
								if text.len() < 1000 * kb
								{
									out.fail(
										"output shorter than the requested number of kilobytes",
										json!({"kb": kb, "len": text.len()}),
									);
								}
								let errs = lexical_errors(&text);
								if let Some((who, code, _)) = errs.first()
								{
									let keep = verif_root().join("replays").join("C19");
									let _ = std::fs::create_dir_all(&keep);
									let saved = keep.join(format!("cli-output-{}.pn", idx));
									let _ = std::fs::write(&saved, &text);
									out.fail(
										format!("fuzzer output has a lexical error for the {} lexer: E{}", who, code),
										json!({"kb": kb, "saved_output": saved, "minimal_line": minimise(&text)}),
									);
								}
								out.count("bytes_generated", text.len() as u64);
								out.key = crate::choices::fnv(&text);
							}
						}
					}
				}
			}
		}
		let _ = std::fs::remove_dir_all(&dir);
		out.nontrivial = true;
		out.class("via:cli");
		if ctx.want_sample
		{
			out.sample = Some(json!({"argv": format!("penne fuzz tokens --kb {} --out-dir <tmp> --silent", kb)}));
		}
		out
	}
}

impl Check for C19
{
	fn id(&self) -> &'static str
	{
		"C19"
	}
	fn rule(&self) -> String
	{
		"the generator is the unit under test: fill_to_capacity_with_tokens(95, String::with_capacity(kb*1096), 0) for kb in 1..=64 with an RNG seed drawn from the runner (hook H1 makes the output a function of the seed), plus runs of the real binary `penne fuzz tokens --kb N --out-dir D`. Oracle: valid UTF-8, >= 1000*kb bytes, no Err token from alpha::lexer::lex, delta errors() is None, and the independent reference lexer sees no illegal lexeme. Non-trivial: the output contains >= 10 different token classes; distinct by (seed, kb).".into()
	}
	fn assumptions(&self) -> Vec<String>
	{
		vec![
			"library runs use rand::rngs::StdRng seeded through the cfg(penne_verif) hook instead of rand::rng(); the sampling code is otherwise untouched".into(),
			"CLI runs use the binary built from /repo without the hook (OS randomness): a failing output is saved as the reproducible unit".into(),
		]
	}
	fn streams(&self) -> Vec<Box<dyn Stream>>
	{
		vec![Box::new(Library), Box::new(Cli)]
	}
}
