//! C01 — compiled programs behave as their source prescribes.

use crate::alpha;
use crate::ast::{self, Layout};
use crate::choices::{fnv, Choices};
use crate::engine::*;
use crate::interp;
use crate::progen;
use serde_json::json;

pub struct C01;

pub struct Observed
{
	pub stdout: Vec<u8>,
	pub status: Option<i32>,
}

/// compile one source text and run it; failures are reported into `out`
/// under `what`; returns the observation when the program ran
pub fn compile_and_run(src: &str, what: &str, out: &mut CaseOut) -> Option<Observed>
{
	let o = alpha::compile_one(
		src,
		alpha::Options {
			want_ir: true,
			..Default::default()
		},
	);
	if let Some(e) = &o.internal_error
	{
		out.fail(
			format!("{}: internal error {}", what, e.chars().take(50).collect::<String>()),
			json!({"source": src, "error": e}),
		);
		return None;
	}
	if !o.ok
	{
		let mut codes = o.codes.clone();
		codes.sort();
		codes.dedup();
		out.fail(
			format!("{}: well-formed program rejected {:?}", what, codes),
			json!({"source": src, "codes": o.codes, "diagnostics": o.diags.iter().map(|d| format!("E{} line {}", d.code, d.line)).collect::<Vec<_>>()}),
		);
		return None;
	}
	let ir = &o.module_irs[0];
	let r = alpha::run_ir(ir, 10);
	if r.timed_out
	{
		out.discarded = Some("lli watchdog".into());
		return None;
	}
	if !r.stderr.is_empty()
	{
		let err = String::from_utf8_lossy(&r.stderr).to_string();
		out.fail(
			format!("{}: lli reported an error", what),
			json!({"source": src, "stderr": err.chars().take(600).collect::<String>(), "status": r.status}),
		);
		return None;
	}
	Some(Observed {
		stdout: r.stdout,
		status: r.status,
	})
}

struct Programs;
impl Stream for Programs
{
	fn name(&self) -> String
	{
		"generated-programs".into()
	}
	fn count(&self, tier: Tier) -> u64
	{
		tier.pick(4000, 100_000)
	}
	fn choice_len(&self) -> usize
	{
		1600
	}
	fn timeout(&self) -> std::time::Duration
	{
		std::time::Duration::from_secs(90)
	}
	fn run(&self, _idx: u64, c: &mut Choices, ctx: &RunCtx) -> CaseOut
	{
		let mut out = CaseOut::default();
		let prog = progen::generate(c, progen::Profile::exec_with_inference());
		let plain = ast::print_program(&prog, Layout::plain(), None);
		out.key = fnv(&plain);
		let expected = match interp::Interp::new(&prog).run_main()
		{
			Ok(o) => o,
			Err(interp::Stop::Ub(why)) =>
			{
				out.discarded = Some(format!("interpreter: UB ({})", why));
				return out;
			}
			Err(interp::Stop::TooLong) =>
			{
				out.discarded = Some("interpreter: step limit".into());
				return out;
			}
			Err(interp::Stop::Bug(why)) =>
			{
				out.fail(
					format!("harness: generator/interpreter bug: {}", why.chars().take(40).collect::<String>()),
					json!({"source": plain, "why": why}),
				);
				return out;
			}
		};
		let st = &expected.stats;
		out.nontrivial = st.prints >= 3
			&& st.op_types.len() >= 6
			&& (st.gotos_taken > 0 || st.loop_backedges > 0);
		for (op, ty) in &st.op_types
		{
			out.class(format!("op:{}:{}", op, ty));
		}
		for (a, b) in &st.casts
		{
			out.class(format!("cast:{}->{}", a, b));
		}
		if st.gotos_taken > 0
		{
			out.class("flow:goto-taken");
		}
		if st.loop_backedges > 0
		{
			out.class("flow:loop-backedge");
		}
		if st.calls > 1
		{
			out.class("flow:calls");
		}
		out.count("programs", 1);
		// layout 1: plain
		let want_out = expected.stdout.clone();
		let want_status = expected.status;
		let check = |obs: &Observed, src: &str, what: &str, out: &mut CaseOut| {
			out.count("comparisons", 1);
			if obs.stdout != want_out
			{
				out.fail(
					format!("{}: stdout differs from the reference interpreter", what),
					json!({"source": src, "expected_stdout": String::from_utf8_lossy(&want_out), "stdout": String::from_utf8_lossy(&obs.stdout)}),
				);
			}
			else if obs.status != Some(want_status)
			{
				out.fail(
					format!("{}: exit status differs from the reference interpreter", what),
					json!({"source": src, "expected_status": want_status, "status": obs.status}),
				);
			}
		};
		if let Some(obs) = compile_and_run(&plain, "plain layout", &mut out)
		{
			check(&obs, &plain, "plain layout", &mut out);
			// layout 2: adversarial formatting, comments, redundant parentheses
			let layout = Layout::random(c);
			let fancy = ast::print_program(&prog, layout, Some(c));
			if fancy != plain
			{
				if let Some(obs2) = compile_and_run(&fancy, "random layout", &mut out)
				{
					check(&obs2, &fancy, "random layout", &mut out);
				}
			}
		}
		if ctx.want_sample
		{
			out.sample = Some(json!({"source": plain, "expected_stdout": String::from_utf8_lossy(&expected.stdout), "expected_status": expected.status}));
		}
		out
	}
}

/// The reference interpreter's integer primitives against Rust's native
/// fixed-width arithmetic (so that an interpreter bug cannot become an alarm).
struct SelfCheck;
impl Stream for SelfCheck
{
	fn name(&self) -> String
	{
		"interpreter-selfcheck".into()
	}
	fn count(&self, tier: Tier) -> u64
	{
		tier.pick(20_000, 400_000)
	}
	fn choice_len(&self) -> usize
	{
		12
	}
	fn stride(&self) -> u64
	{
		1024
	}
	fn run(&self, _idx: u64, c: &mut Choices, ctx: &RunCtx) -> CaseOut
	{
		use crate::ast::{BinOp, CmpOp, Prim, INT_PRIMS};
		let mut out = CaseOut::default();
		let ty = *c.pick(INT_PRIMS);
		let pick = |c: &mut Choices| -> u128 {
			let m = ty.mask();
			match c.draw(6)
			{
				0 => 0,
				1 => m,
				2 => m >> 1,
				3 => (m >> 1) + 1,
				4 => c.draw(16) as u128,
				_ => c.u128() & m,
			}
		};
		let a = pick(c);
		let b = pick(c);
		macro_rules! native {
			($t:ty) => {{
				let x = a as $t;
				let y = b as $t;
				let mut v: Vec<(BinOp, Option<u128>)> = vec![
					(BinOp::Add, Some(x.wrapping_add(y) as u128)),
					(BinOp::Sub, Some(x.wrapping_sub(y) as u128)),
					(BinOp::Mul, Some(x.wrapping_mul(y) as u128)),
					(BinOp::Div, x.checked_div(y).map(|q| q as u128)),
					(BinOp::Rem, x.checked_rem(y).map(|q| q as u128)),
				];
				v.push((BinOp::And, Some((x & y) as u128)));
				v.push((BinOp::Or, Some((x | y) as u128)));
				v.push((BinOp::Xor, Some((x ^ y) as u128)));
				let cmps = vec![
					(CmpOp::Eq, x == y),
					(CmpOp::Ne, x != y),
					(CmpOp::Lt, x < y),
					(CmpOp::Le, x <= y),
					(CmpOp::Gt, x > y),
					(CmpOp::Ge, x >= y),
				];
				let casts: Vec<(Prim, u128)> = vec![
					(Prim::I8, (x as i8) as u8 as u128),
					(Prim::I16, (x as i16) as u16 as u128),
					(Prim::I32, (x as i32) as u32 as u128),
					(Prim::I64, (x as i64) as u64 as u128),
					(Prim::I128, (x as i128) as u128),
					(Prim::U8, (x as u8) as u128),
					(Prim::U16, (x as u16) as u128),
					(Prim::U32, (x as u32) as u128),
					(Prim::U64, (x as u64) as u128),
					(Prim::U128, x as u128),
					(Prim::Usize, (x as u64) as u128),
				];
				(v, cmps, casts, (x.wrapping_neg()) as u128, (!x) as u128)
			}};
		}
		let (bins, cmps, casts, neg, not) = match ty
		{
			Prim::I8 => native!(i8),
			Prim::I16 => native!(i16),
			Prim::I32 => native!(i32),
			Prim::I64 => native!(i64),
			Prim::I128 => native!(i128),
			Prim::U8 => native!(u8),
			Prim::U16 => native!(u16),
			Prim::U32 => native!(u32),
			Prim::U64 | Prim::Usize => native!(u64),
			_ => native!(u128),
		};
		let m = ty.mask();
		for (op, want) in bins
		{
			let got = interp::binop(op, a, b, ty).ok();
			if got != want.map(|w| w & m)
			{
				out.fail(
					"harness: interpreter arithmetic disagrees with native Rust",
					json!({"op": op.text(), "type": ty.name(), "a": a.to_string(), "b": b.to_string(), "got": format!("{:?}", got), "want": format!("{:?}", want)}),
				);
			}
		}
		for (op, want) in cmps
		{
			if interp::compare(op, a, b, ty) != want
			{
				out.fail(
					"harness: interpreter comparison disagrees with native Rust",
					json!({"op": op.text(), "type": ty.name(), "a": a.to_string(), "b": b.to_string()}),
				);
			}
		}
		for (to, want) in casts
		{
			if to != ty && interp::cast(a, ty, to) != want & to.mask()
			{
				out.fail(
					"harness: interpreter cast disagrees with native Rust",
					json!({"from": ty.name(), "to": to.name(), "a": a.to_string()}),
				);
			}
		}
		let _ = (neg, not);
		out.key = crate::choices::fnv(&format!("{}:{}:{}", ty.name(), a, b));
		out.nontrivial = a != 0 && b != 0;
		out.class(format!("selfcheck:{}", ty.name()));
		if ctx.want_sample
		{
			out.sample = Some(json!({"selfcheck": ty.name(), "a": a.to_string(), "b": b.to_string()}));
		}
		out
	}
}

impl Check for C01
{
	fn id(&self) -> &'static str
	{
		"C01"
	}
	fn level(&self) -> &'static str
	{
		"translation_validation"
	}
	fn rule(&self) -> String
	{
		"well-typed, terminating, UB-free programs built top-down from a typed AST (all 13 primitive types, arrays incl. 2-D and named-constant lengths, structs, words, pointers incl. pointer-to-pointer and pointer-to-array, view / slice-pointer / pointer parameters, structure literals with their members in any order, constants, nested blocks, if/else-if, forward gotos out of nested blocks, counted loop blocks, chains of 1-6 declarations without annotation whose integer type is inferred backwards from a later typed use (1-2 inside nested blocks, where longer chains are observed to need an annotation, E581)), each printed in a plain and a randomised layout (indentation, CRLF, comments, redundant parentheses, trailing commas, tight operators). Oracle: full stdout and exit status of lli on the emitted IR must equal the reference interpreter's, for both layouts. Programs whose interpretation hits UB or the step limit are discarded and counted. Non-trivial: >= 3 print statements executed, >= 6 distinct (operator, type) pairs evaluated, and at least one goto taken or loop back-edge; distinct by plain source text.".into()
	}
	fn assumptions(&self) -> Vec<String>
	{
		vec![
			"the reference interpreter (harness/src/interp.rs) implements DESIGN.md appendix B; its integer primitives are self-checked against Rust's native wrapping arithmetic".into(),
			"operands and arguments are evaluated left to right; calls with side effects only occur as whole statements or initialisers".into(),
			"constructs that hit recorded compiler defects are excluded by construction and exercised by fixed probes".into(),
			"lli-14 executes the IR faithfully".into(),
		]
	}
	fn streams(&self) -> Vec<Box<dyn Stream>>
	{
		vec![Box::new(Programs), Box::new(SelfCheck)]
	}
}
