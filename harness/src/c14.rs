//! C14 — both lexers implement the same lexical grammar, with exact spans.

use crate::choices::{fnv, Choices};
use crate::engine::*;
use crate::lexgen;
use crate::reflex::{self, NTok};
use serde_json::json;

pub struct C14;

fn show(toks: &[NTok]) -> Vec<String>
{
	toks.iter()
		.take(40)
		.map(|t| format!("{}@{}..{}:{}", t.kind, t.start, t.end, t.line))
		.collect()
}

fn strip_errors(t: &[NTok]) -> Vec<NTok>
{
	t.iter().filter(|x| !x.kind.starts_with('E')).cloned().collect()
}

/// The three-way comparison. `expected`: tokens known by construction.
pub fn compare(src: &str, expected: Option<&[NTok]>, out: &mut CaseOut)
{
	let bytes = src.as_bytes();
	let r = reflex::lex(bytes);
	let a = reflex::alpha_tokens(src);
	let dl = penne::delta::lexer::lex(bytes, "x.pn");
	let d = reflex::delta_tokens(bytes, &dl);
	let mut dt = reflex::merge_bytewise_e110(bytes, &d.toks);
	let mut at = a;
	let mut rt = r.toks.clone();
	let detail = |what: &str, x: &[NTok], y: &[NTok], extra: String| {
		json!({"source": src, "what": what, "left": show(x), "right": show(y), "first_difference": extra})
	};
	if !d.tail_ok
	{
		out.fail(
			"delta token vector does not end in exactly two EndOfSource tokens",
			json!({"source": src}),
		);
	}
	let nerr = rt.iter().filter(|t| t.kind.starts_with('E')).count();
	if nerr > 100 || d.num_errors >= 100
	{
		// delta stops recording after 100 errors (documented cap)
		at = strip_errors(&at);
		dt = strip_errors(&dt);
		rt = strip_errors(&rt);
	}
	let crlf_before = |at: usize| -> bool {
		bytes[..at.min(bytes.len())].windows(2).any(|w| w == b"\r\n")
	};
	if let Some(exp) = expected
	{
		if let Some((_, w, cls, ex)) = reflex::first_diff(bytes, &rt, exp, true)
		{
			out.fail(
				format!("harness: reference lexer disagrees with generator ({} at {})", w, cls),
				detail("reflex-vs-generator", &rt, exp, ex),
			);
			return;
		}
	}
	if r.unspecified.is_empty()
	{
		if let Some((i, w, cls, ex)) = reflex::first_diff(bytes, &at, &rt, false)
		{
			let pos = rt.get(i).map(|t| t.start).unwrap_or(bytes.len());
			let sig = if w.starts_with("span") && crlf_before(pos)
			{
				"alpha-vs-reference span after-crlf".to_string()
			}
			else
			{
				format!("alpha-vs-reference {} at={}", w, cls)
			};
			out.fail(sig, detail("alpha (left) vs reference lexer (right)", &at, &rt, ex));
		}
		if let Some((_, w, cls, ex)) = reflex::first_diff(bytes, &dt, &rt, false)
		{
			out.fail(
				format!("delta-vs-reference {} at={}", w, cls),
				detail("delta (left) vs reference lexer (right)", &dt, &rt, ex),
			);
		}
		// error spans must lie inside the malformed lexeme
		for (name, list) in [("alpha", &at), ("delta", &dt)]
		{
			let errs: Vec<&NTok> =
				list.iter().filter(|t| t.kind.starts_with('E')).collect();
			if errs.len() == r.err_extents.len() && nerr <= 100
			{
				for (e, (lo, hi)) in errs.iter().zip(r.err_extents.iter())
				{
					// "at its position": the span must start inside the lexeme
					// (it may extend over the line terminator)
					if e.start < *lo || e.start > *hi || e.end > *hi + 2 || e.start > e.end
					{
						if name == "alpha" && crlf_before(*hi)
						{
							// reported through the span comparison above
							continue;
						}
						out.fail(
							format!("{} error span outside the offending lexeme ({})", name, e.kind),
							json!({"source": src, "error": format!("{:?}", e), "lexeme": [lo, hi]}),
						);
						break;
					}
				}
			}
		}
	}
	else
	{
		// behaviour the documentation leaves open: the two lexers must still
		// agree with each other
		if r.unspecified.contains(&"return-bang")
		{
			// `return!`: a builtin for the first generation; the reserved word
			// and whatever `!` starts for the second (granted by the property).
			// Give the first-generation lexer the same text with a space
			// between the two and map its spans back.
			let cuts: Vec<usize> = r.toks.iter().filter(|t| t.kind == "Breturn").map(|t| t.end - 1).collect();
			let mut spaced = String::with_capacity(src.len() + cuts.len());
			for (i, ch) in src.char_indices()
			{
				if cuts.contains(&i)
				{
					spaced.push(' ');
				}
				spaced.push(ch);
			}
			at = reflex::alpha_tokens(&spaced)
				.into_iter()
				.map(|mut t| {
					let back = |o: usize| o - cuts.iter().enumerate().filter(|(k, c)| **c + *k < o).count();
					t.start = back(t.start);
					t.end = back(t.end);
					if t.kind == "Ireturn"
					{
						t.kind = "return".into();
					}
					t
				})
				.collect();
			for t in dt.iter_mut()
			{
				if t.kind == "Breturn" || t.kind == "Ireturn" || t.kind == "Kreturn"
				{
					t.kind = "return".into();
				}
			}
			if nerr > 100 || d.num_errors >= 100
			{
				at = strip_errors(&at);
			}
		}
		if let Some((_, _w, _cls, ex)) = reflex::first_diff(bytes, &at, &dt, false)
		{
			// Is the disagreement exactly the open question and nothing more?
			// Normalise it away and compare again.
			let lone_cr = |p: usize| -> bool {
				p < bytes.len()
					&& bytes[p] == b'\r'
					&& !(p + 1 < bytes.len() && bytes[p + 1] == b'\n')
			};
			// string literals with a unicode escape of more than six digits:
			// accepted by one lexer, E162 for the other; whatever either
			// reports inside such a literal is set aside
			let long_escape_literals: Vec<(usize, usize)> = if r.unspecified.contains(&"long-unicode-escape")
			{
				rt.iter()
					.filter(|t| t.kind.starts_with('Q') || t.kind.starts_with('E'))
					.filter(|t| {
						let lit = &bytes[t.start.min(bytes.len())..t.end.min(bytes.len())];
						lit.windows(3).enumerate().any(|(k, w)| {
							w == b"\\u{" && lit[k + 3..].iter().take_while(|b| (**b as char).is_ascii_hexdigit()).count() > 6
						})
					})
					.map(|t| (t.start, t.end))
					.collect()
			}
			else
			{
				Vec::new()
			};
			let norm = |v: &[NTok]| -> Vec<NTok> {
				v.iter()
					.filter(|t| !long_escape_literals.iter().any(|(a, b)| t.start >= *a && t.end <= *b))
					.filter(|t| !(t.kind == "E110" && t.end == t.start + 1 && lone_cr(t.start)))
					.map(|t| {
						let mut t = t.clone();
						if t.kind.starts_with('E')
							&& r.unspecified.contains(&"crlf-unclosed-quote")
						{
							t.kind = "E".into();
						}
						t
					})
					.collect()
			};
			let (an, dn) = (norm(&at), norm(&dt));
			match reflex::first_diff(bytes, &an, &dn, false)
			{
				// the property itself grants that the second generation
				// reserves the word `return`
				None if r.unspecified.iter().all(|u| *u == "return-bang") =>
				{
					out.class("note:return-bang");
				}
				None => out.fail(
					format!("alpha-vs-delta [{}]", r.unspecified.iter().find(|u| **u != "return-bang").unwrap_or(&r.unspecified[0])),
					detail("alpha (left) vs delta (right)", &at, &dt, ex),
				),
				Some((_, w, cls, ex2)) => out.fail(
					format!(
						"alpha-vs-delta beyond [{}]: {} at={}",
						r.unspecified.iter().find(|u| **u != "return-bang").unwrap_or(&r.unspecified[0]), w, cls
					),
					detail("alpha (left) vs delta (right), normalised", &an, &dn, ex2),
				),
			}
		}
	}
	out.nontrivial = rt.iter().any(|t| {
		t.end - t.start > 1
			|| matches!(t.kind.as_bytes()[0], b'E' | b'N' | b'X' | b'S' | b'C' | b'Q' | b'L')
	});
}

struct Exhaustive;
impl Stream for Exhaustive
{
	fn name(&self) -> String
	{
		"exhaustive-strings".into()
	}
	fn count(&self, tier: Tier) -> u64
	{
		lexgen::enum_count(lexgen::ALPHABET.len() as u64, tier.pick(3, 4) as u32)
	}
	fn exhaustive(&self) -> bool
	{
		true
	}
	fn stride(&self) -> u64
	{
		4096
	}
	fn run(&self, idx: u64, _c: &mut Choices, ctx: &RunCtx) -> CaseOut
	{
		let mut out = CaseOut::default();
		let s = lexgen::enum_string(idx, lexgen::ALPHABET, ctx.tier.pick(3, 4) as u32);
		compare(&s, None, &mut out);
		out.key = idx;
		if ctx.want_sample || idx % 700_001 == 12345
		{
			out.sample = Some(json!({"source": s}));
		}
		out
	}
}

struct TokenStreams;
impl Stream for TokenStreams
{
	fn name(&self) -> String
	{
		"token-streams".into()
	}
	fn count(&self, tier: Tier) -> u64
	{
		tier.pick(300_000, 1_500_000)
	}
	fn choice_len(&self) -> usize
	{
		600
	}
	fn stride(&self) -> u64
	{
		256
	}
	fn run(&self, _idx: u64, c: &mut Choices, ctx: &RunCtx) -> CaseOut
	{
		let mut out = CaseOut::default();
		let crlf = c.chance(1, 4);
		let (src, toks) = lexgen::gen_token_stream(c, 40, crlf);
		compare(&src, Some(&toks), &mut out);
		out.key = fnv(&src);
		out.nontrivial = toks.len() >= 3;
		for t in &toks
		{
			out.class(format!("tok:{}", &t.kind[..1]));
		}
		if crlf
		{
			out.class("layout:crlf");
		}
		if ctx.want_sample
		{
			out.sample = Some(json!({"source": src, "expected_tokens": toks.len()}));
		}
		out
	}
}

struct Malformed;
impl Stream for Malformed
{
	fn name(&self) -> String
	{
		"planted-malformed-lexeme".into()
	}
	fn count(&self, tier: Tier) -> u64
	{
		tier.pick(100_000, 300_000)
	}
	fn choice_len(&self) -> usize
	{
		300
	}
	fn stride(&self) -> u64
	{
		256
	}
	fn run(&self, idx: u64, c: &mut Choices, ctx: &RunCtx) -> CaseOut
	{
		let mut out = CaseOut::default();
		// every malformed form is visited round-robin; the surroundings are random
		let (bad, code, eol) =
			lexgen::MALFORMED[(idx % lexgen::MALFORMED.len() as u64) as usize];
		let (pre, pre_toks) = lexgen::gen_token_stream(c, 8, false);
		let (post, post_toks) = lexgen::gen_token_stream(c, 8, false);
		let mut src = pre.clone();
		src.push(' ');
		let line = 1 + src.matches('\n').count();
		let bad_start = src.len();
		src.push_str(bad);
		let bad_end = src.len();
		src.push_str(if eol { "\n" } else { " " });
		let off = src.len();
		src.push_str(&post);
		// expected: pre tokens, the error, post tokens (shifted)
		let mut exp: Vec<NTok> = pre_toks.clone();
		exp.push(NTok {
			kind: format!("E{}", code),
			start: bad_start,
			end: bad_end,
			line,
		});
		let add_lines = src[..off].matches('\n').count();
		for t in &post_toks
		{
			exp.push(NTok {
				kind: t.kind.clone(),
				start: t.start + off,
				end: t.end + off,
				line: t.line + add_lines,
			});
		}
		// compare kinds and lines against the generator's expectation (spans of
		// error tokens are position-checked inside `compare`)
		let r = reflex::lex(src.as_bytes());
		let kinds = |v: &[NTok]| -> Vec<(String, usize)> {
			v.iter().map(|t| (t.kind.clone(), t.line)).collect()
		};
		if kinds(&r.toks) != kinds(&exp)
		{
			out.fail(
				format!("harness: reference lexer disagrees with planted expectation E{}", code),
				json!({"source": src, "reflex": show(&r.toks), "expected": show(&exp)}),
			);
		}
		else
		{
			compare(&src, None, &mut out);
		}
		out.key = fnv(&src);
		out.nontrivial = true;
		out.class(format!("planted:E{}", code));
		if ctx.want_sample
		{
			out.sample = Some(json!({"source": src, "planted": bad, "expected_code": code}));
		}
		out
	}
}

impl Check for C14
{
	fn id(&self) -> &'static str
	{
		"C14"
	}
	fn rule(&self) -> String
	{
		"streams: (a) every string of length <= 3 (quick) / <= 4 (thorough) over a 48-symbol alphabet of Penne-relevant characters (exhaustive); (b) random sequences of valid tokens in random spellings/layouts whose expected tokens, values, spans and lines are known from the generator; (c) each of 62 malformed lexemes (six of them literals with two different faults, of which the first is the one reported) planted between random valid tokens with its documented code. Oracle: alpha lexer, delta lexer and an independent reference lexer must agree on kinds, payloads, suffix types, byte spans and lines (error tokens: code, line, span inside the malformed lexeme). Non-trivial: the input contains a multi-character token, a literal or an error (a), >= 3 tokens (b), always (c); distinct by source text.".into()
	}
	fn assumptions(&self) -> Vec<String>
	{
		vec![
			"the reference lexer is an independent restatement of docs/errors.md E1xx and the token list; stream (b)/(c) expectations come from the generator, not from any lexer".into(),
			"granted normalisations: delta's `Return` keyword = identifier `return`; one E110 per scalar (delta reports one per byte); delta records at most 100 errors".into(),
			"inputs touching behaviour the docs leave open (lone CR, `return!`, >128 binary digits with a fitting value, CR before LF inside an unterminated literal) are compared alpha-vs-delta only".into(),
			"alpha spans are interpreted as char offsets into the source, as the renderer does".into(),
		]
	}
	fn judge_bytes(&self, bytes: &[u8]) -> Option<CaseOut>
	{
		let mut out = CaseOut::default();
		// the first-generation lexer takes text; other bytes are C15's subject
		if let Ok(src) = std::str::from_utf8(bytes)
		{
			// an empty file is E101 without a position to speak of; inputs
			// that touch behaviour the documentation leaves open (the recorded
			// disagreements of the two lexers: lone CR, CRLF in an unterminated
			// literal, long unicode escapes, over-long binary literals) are the
			// generated streams' business - coverage-guided search would only
			// keep recombining them
			let open_question = crate::reflex::lex(bytes).unspecified.iter().any(|u| *u != "return-bang");
			if !src.is_empty() && !open_question
			{
				compare(src, None, &mut out);
			}
			else if open_question
			{
				out.discarded = Some("input touches behaviour the documentation leaves open".into());
			}
		}
		Some(out)
	}
	fn fuzz_specs(&self, tier: Tier) -> Vec<FuzzSpec>
	{
		if tier == Tier::Quick
		{
			return Vec::new();
		}
		vec![FuzzSpec {
			target: "fuzz_lexdiff",
			runs_per_job: 200_000,
			jobs: 14,
			max_len: 2048,
			seeds: crate::c15::fuzz_seed_corpus(2048, 150),
			dictionary: crate::c15::fuzz_dictionary(),
		}]
	}
	fn streams(&self) -> Vec<Box<dyn Stream>>
	{
		vec![Box::new(Exhaustive), Box::new(TokenStreams), Box::new(Malformed)]
	}
}
