//! Reference lexer, written from docs/errors.md (E1xx), docs/syntax.md and the
//! token list, plus normalisers that bring the tokens of the two real lexers
//! into the same representation.
//!
//! A normalised token is (kind-string, byte start, byte end, line). Kind
//! strings: `P<op>` punctuation, `K<word>` keyword, `T<type>` type keyword,
//! `I<name>` identifier, `B<name>` builtin (without the `!`), `_` placeholder,
//! `N<value>` naked decimal, `X<value>` bit integer (0x / 0b), `S<value>:<type>`
//! suffixed integer, `C<byte>` char literal, `L0`/`L1` bool, `Q<hex bytes>`
//! string literal, `E<code>` lexical error.

use penne::alpha::lexer as alex;
use penne::delta::lexer as dlex;

#[derive(Debug, Clone, PartialEq, Eq)]
pub struct NTok
{
	pub kind: String,
	pub start: usize,
	pub end: usize,
	pub line: usize,
}

#[derive(Debug, Default)]
pub struct RefLex
{
	pub toks: Vec<NTok>,
	/// byte extent of the malformed lexeme for each error token (same index
	/// order as the E-tokens in `toks`)
	pub err_extents: Vec<(usize, usize)>,
	/// input touches behaviour the documentation does not settle; entries name
	/// the class
	pub unspecified: Vec<&'static str>,
}

pub const KEYWORDS: &[&str] = &[
	"fn", "var", "const", "if", "goto", "loop", "else", "cast", "as", "import", "pub",
	"extern", "struct", "word8", "word16", "word32", "word64", "word128",
];
pub const TYPES: &[&str] = &[
	"void", "i8", "i16", "i32", "i64", "i128", "u8", "u16", "u32", "u64", "u128", "usize",
	"char8", "bool",
];
pub const SUFFIXES: &[&str] = &[
	"i8", "i16", "i32", "i64", "i128", "u8", "u16", "u32", "u64", "u128", "usize",
];
pub const PUNCT2: &[&str] = &["<<", "<=", ">>", ">=", "|:", "!=", "..", "==", "->"];
pub const PUNCT1: &[&str] = &[
	"(", ")", "{", "}", "[", "]", "<", ">", "|", "&", "^", "!", "+", "-", "*", "/", "%", ":",
	";", ".", ",", "=",
];

fn is_ident_start(b: u8) -> bool
{
	b.is_ascii_alphabetic() || b == b'_'
}
fn is_ident_cont(b: u8) -> bool
{
	b.is_ascii_alphanumeric() || b == b'_'
}
fn hexval(b: u8) -> Option<u32>
{
	(b as char).to_digit(16)
}

/// Decode the inside of a quoted literal starting right after the opening
/// quote at `i`. Returns (result, index after the literal (after closing quote
/// or at end of line)). Result: Ok(bytes) or Err(code).
fn scan_quoted(
	src: &[u8],
	mut i: usize,
	quote: u8,
	allow_unicode_escape: bool,
) -> (Result<Vec<u8>, u16>, usize, (usize, usize))
{
	let mut bytes = Vec::new();
	let mut first_err: Option<(u16, (usize, usize))> = None;
	let mut closed = false;
	// end of line: LF, or CR LF
	let eol = |k: usize| -> bool {
		k >= src.len()
			|| src[k] == b'\n'
			|| (src[k] == b'\r' && k + 1 < src.len() && src[k + 1] == b'\n')
	};
	while !eol(i)
	{
		let x = src[i];
		let at = i;
		i += 1;
		if x == b'\\'
		{
			if eol(i)
			{
				first_err.get_or_insert((161, (at, i)));
				break;
			}
			let y = src[i];
			i += 1;
			match y
			{
				b'n' => bytes.push(b'\n'),
				b'r' => bytes.push(b'\r'),
				b't' => bytes.push(b'\t'),
				b'\\' => bytes.push(b'\\'),
				b'\'' => bytes.push(b'\''),
				b'"' => bytes.push(b'"'),
				b'0' => bytes.push(0),
				b'x' =>
				{
					let mut v = 0u32;
					let mut n = 0;
					while n < 2 && i < src.len() && hexval(src[i]).is_some()
					{
						v = v * 16 + hexval(src[i]).unwrap();
						i += 1;
						n += 1;
					}
					if n == 2
					{
						bytes.push(v as u8);
					}
					else
					{
						first_err.get_or_insert((162, (at, i)));
					}
				}
				b'u' if allow_unicode_escape =>
				{
					let mut ok = false;
					if i < src.len() && src[i] == b'{'
					{
						i += 1;
						let mut v: u64 = 0;
						let mut n = 0;
						while i < src.len() && hexval(src[i]).is_some()
						{
							v = (v * 16 + hexval(src[i]).unwrap() as u64).min(1 << 40);
							i += 1;
							n += 1;
						}
						if i < src.len() && src[i] == b'}'
						{
							i += 1;
							if n >= 1
							{
								if let Some(c) =
									u32::try_from(v).ok().and_then(char::from_u32)
								{
									let mut buf = [0u8; 4];
									bytes.extend_from_slice(
										c.encode_utf8(&mut buf).as_bytes(),
									);
									ok = true;
								}
							}
						}
					}
					if !ok
					{
						first_err.get_or_insert((162, (at, i)));
					}
				}
				_ =>
				{
					// the escaped character may be the first byte of a
					// multi-byte scalar: consume the whole scalar
					if y >= 0x80
					{
						while i < src.len() && (src[i] & 0xC0) == 0x80
						{
							i += 1;
						}
					}
					first_err.get_or_insert((162, (at, i)));
				}
			}
		}
		else if x == quote
		{
			closed = true;
			break;
		}
		else if x == b' ' || x.is_ascii_graphic() || x >= 0x80
		{
			bytes.push(x);
		}
		else
		{
			first_err.get_or_insert((110, (at, i)));
		}
	}
	if !closed
	{
		first_err.get_or_insert((160, (i, i)));
	}
	match first_err
	{
		Some((code, ext)) => (Err(code), i, ext),
		None => (Ok(bytes), i, (0, 0)),
	}
}

pub fn hex(bytes: &[u8]) -> String
{
	let mut s = String::with_capacity(bytes.len() * 2);
	for b in bytes
	{
		s.push_str(&format!("{:02x}", b));
	}
	s
}

/// Decode a complete, valid string literal lexeme (including quotes).
pub fn decode_string_lexeme(lexeme: &[u8]) -> Option<Vec<u8>>
{
	if lexeme.len() < 2 || lexeme[0] != b'"'
	{
		return None;
	}
	let (r, end, _) = scan_quoted(lexeme, 1, b'"', true);
	if end != lexeme.len()
	{
		return None;
	}
	r.ok()
}

pub fn lex(src: &[u8]) -> RefLex
{
	let mut out = RefLex::default();
	let mut i = 0;
	let mut line = 1;
	if src.is_empty()
	{
		out.toks.push(NTok {
			kind: "E101".into(),
			start: 0,
			end: 0,
			line: 1,
		});
		out.err_extents.push((0, 0));
		return out;
	}
	while i < src.len()
	{
		let x = src[i];
		let start = i;
		let push = |out: &mut RefLex, kind: String, end: usize| {
			out.toks.push(NTok {
				kind,
				start,
				end,
				line,
			});
		};
		match x
		{
			b' ' | b'\t' =>
			{
				i += 1;
			}
			b'\n' =>
			{
				i += 1;
				line += 1;
			}
			b'\r' =>
			{
				if i + 1 < src.len() && src[i + 1] == b'\n'
				{
					i += 1;
				}
				else
				{
					// docs: whitespace is space, tab, newline; a lone CR is
					// not mentioned either way
					out.unspecified.push("lone-cr");
					i += 1;
				}
			}
			b'/' if i + 1 < src.len() && src[i + 1] == b'/' =>
			{
				while i < src.len() && src[i] != b'\n'
				{
					if src[i] == b'\r' && !(i + 1 < src.len() && src[i + 1] == b'\n')
					{
						out.unspecified.push("lone-cr");
					}
					i += 1;
				}
			}
			_ if is_ident_start(x) =>
			{
				let mut j = i + 1;
				while j < src.len() && is_ident_cont(src[j])
				{
					j += 1;
				}
				let word = std::str::from_utf8(&src[i..j]).unwrap();
				let kind = if word == "_"
				{
					"_".to_string()
				}
				else if word == "true"
				{
					"L1".to_string()
				}
				else if word == "false"
				{
					"L0".to_string()
				}
				else if KEYWORDS.contains(&word)
				{
					format!("K{}", word)
				}
				else if TYPES.contains(&word)
				{
					format!("T{}", word)
				}
				else if j < src.len() && src[j] == b'!'
				{
					if word == "return"
					{
						out.unspecified.push("return-bang");
					}
					j += 1;
					format!("B{}", word)
				}
				else
				{
					format!("I{}", word)
				};
				push(&mut out, kind, j);
				i = j;
			}
			b'0'..=b'9' =>
			{
				let mut j = i + 1;
				let mut value: Option<u128> = Some(0);
				let mut base_prefix = false;
				let acc = |value: &mut Option<u128>, radix: u32, d: u32| {
					*value = value
						.and_then(|v| v.checked_mul(radix as u128))
						.and_then(|v| v.checked_add(d as u128));
				};
				if x == b'0'
				{
					if j < src.len() && (src[j] == b'x' || src[j] == b'b')
					{
						let radix = if src[j] == b'x' { 16 } else { 2 };
						let mut k = j + 1;
						let mut ndig = 0;
						let mut v = Some(0u128);
						while k < src.len()
						{
							if let Some(d) = (src[k] as char).to_digit(radix)
							{
								acc(&mut v, radix, d);
								ndig += 1;
								k += 1;
							}
							else if src[k] == b'_'
							{
								k += 1;
							}
							else
							{
								break;
							}
						}
						if ndig > 0
						{
							base_prefix = true;
							value = v;
							j = k;
							if radix == 2 && ndig > 128 && v.is_some()
							{
								// more than 128 binary digits whose value fits:
								// "too big to parse" is not defined for this
								out.unspecified.push("binary-leading-zeros");
							}
						}
					}
				}
				else
				{
					value = Some((x - b'0') as u128);
					while j < src.len()
					{
						if src[j].is_ascii_digit()
						{
							acc(&mut value, 10, (src[j] - b'0') as u32);
							j += 1;
						}
						else if src[j] == b'_'
						{
							j += 1;
						}
						else
						{
							break;
						}
					}
				}
				let suffix_start = j;
				while j < src.len() && is_ident_cont(src[j])
				{
					j += 1;
				}
				let suffix = std::str::from_utf8(&src[suffix_start..j]).unwrap();
				let kind = match value
				{
					None => "E140".to_string(),
					Some(v) =>
					{
						if suffix.is_empty()
						{
							if x == b'0' && (base_prefix || j - i > 1)
							{
								format!("X{}", v)
							}
							else
							{
								format!("N{}", v)
							}
						}
						else if SUFFIXES.contains(&suffix)
						{
							format!("S{}:{}", v, suffix)
						}
						else
						{
							"E141".to_string()
						}
					}
				};
				if kind.starts_with('E')
				{
					out.err_extents.push((i, j));
				}
				push(&mut out, kind, j);
				i = j;
			}
			b'\'' | b'"' =>
			{
				let (r, end, ext) = scan_quoted(src, i + 1, x, x == b'"');
				// `\u{...}` with more than six digits (leading zeros): the
				// documentation does not say how many digits there may be
				if x == b'"' && src[i..end.min(src.len())].windows(3).enumerate().any(|(k, w)| {
					w == b"\\u{" && {
						let from = i + k + 3;
						let n = src[from.min(src.len())..].iter().take_while(|b| hexval(**b).is_some()).count();
						n > 6
					}
				})
				{
					out.unspecified.push("long-unicode-escape");
				}
				match r
				{
					Ok(bytes) =>
					{
						if x == b'"'
						{
							push(&mut out, format!("Q{}", hex(&bytes)), end);
						}
						else if bytes.len() == 1
						{
							push(&mut out, format!("C{}", bytes[0]), end);
						}
						else
						{
							out.err_extents.push((i, end));
							push(&mut out, "E163".to_string(), end);
						}
					}
					Err(code) =>
					{
						out.err_extents.push((i, end));
						// error token: position = the offending part
						out.toks.push(NTok {
							kind: format!("E{}", code),
							start: ext.0,
							end: ext.1,
							line,
						});
						// a CR inside an unterminated literal on a CRLF line
						if end < src.len() && src[end] == b'\r'
						{
							out.unspecified.push("crlf-unclosed-quote");
						}
					}
				}
				i = end;
			}
			_ =>
			{
				let two = if i + 1 < src.len()
				{
					std::str::from_utf8(&src[i..i + 2]).ok()
				}
				else
				{
					None
				};
				if let Some(p) = two.filter(|p| PUNCT2.contains(p))
				{
					push(&mut out, format!("P{}", p), i + 2);
					i += 2;
				}
				else if x.is_ascii()
					&& PUNCT1.contains(&std::str::from_utf8(&src[i..i + 1]).unwrap())
				{
					push(&mut out, format!("P{}", x as char), i + 1);
					i += 1;
				}
				else
				{
					// unexpected character: one error per scalar value
					let mut j = i + 1;
					if x >= 0xC0
					{
						while j < src.len() && (src[j] & 0xC0) == 0x80
						{
							j += 1;
						}
					}
					out.err_extents.push((i, j));
					push(&mut out, "E110".to_string(), j);
					i = j;
				}
			}
		}
	}
	out
}

// ---------------------------------------------------------------- alpha side

pub fn alpha_type_name(t: &penne::alpha::common::ValueType) -> String
{
	use penne::alpha::value_type::ValueType as V;
	match t
	{
		V::Void => "void",
		V::Int8 => "i8",
		V::Int16 => "i16",
		V::Int32 => "i32",
		V::Int64 => "i64",
		V::Int128 => "i128",
		V::Uint8 => "u8",
		V::Uint16 => "u16",
		V::Uint32 => "u32",
		V::Uint64 => "u64",
		V::Uint128 => "u128",
		V::Usize => "usize",
		V::Char8 => "char8",
		V::Bool => "bool",
		_ => "?",
	}
	.to_string()
}

pub fn lex_error_code(e: &alex::Error) -> u16
{
	match e
	{
		alex::Error::UnexpectedZeroByteFile => 101,
		alex::Error::TooManySourceBytes => 102,
		alex::Error::TooManyTokens => 103,
		alex::Error::UnexpectedCharacter => 110,
		alex::Error::InvalidIntegerLength => 140,
		alex::Error::InvalidIntegerTypeSuffix => 141,
		alex::Error::MissingClosingQuote => 160,
		alex::Error::UnexpectedTrailingBackslash => 161,
		alex::Error::InvalidEscapeSequence => 162,
		alex::Error::InvalidCharLiteral => 163,
	}
}

/// char offset -> byte offset table for a source text
pub fn char_to_byte_table(src: &str) -> Vec<usize>
{
	let mut t: Vec<usize> = src.char_indices().map(|(b, _)| b).collect();
	t.push(src.len());
	t
}

pub fn alpha_tokens(src: &str) -> Vec<NTok>
{
	use alex::Token as T;
	let toks = alex::lex(src, "x.pn");
	// alpha spans are meant to be char offsets into the source (they are handed
	// to the renderer as such): map them to bytes with the true char table.
	let map = char_to_byte_table(src);
	let m = |o: usize| -> usize { map.get(o).copied().unwrap_or(src.len()) };
	toks.iter()
		.map(|t| {
			let kind = match &t.result
			{
				Err(e) => format!("E{}", lex_error_code(e)),
				Ok(tok) => match tok
				{
					T::ParenLeft => "P(".into(),
					T::ParenRight => "P)".into(),
					T::BraceLeft => "P{".into(),
					T::BraceRight => "P}".into(),
					T::BracketLeft => "P[".into(),
					T::BracketRight => "P]".into(),
					T::AngleLeft => "P<".into(),
					T::AngleRight => "P>".into(),
					T::Pipe => "P|".into(),
					T::Ampersand => "P&".into(),
					T::Caret => "P^".into(),
					T::Exclamation => "P!".into(),
					T::Placeholder => "_".into(),
					T::Plus => "P+".into(),
					T::Minus => "P-".into(),
					T::Times => "P*".into(),
					T::Divide => "P/".into(),
					T::Modulo => "P%".into(),
					T::Colon => "P:".into(),
					T::Semicolon => "P;".into(),
					T::Dot => "P.".into(),
					T::Comma => "P,".into(),
					T::Assignment => "P=".into(),
					T::Equals => "P==".into(),
					T::DoesNotEqual => "P!=".into(),
					T::IsGE => "P>=".into(),
					T::IsLE => "P<=".into(),
					T::ShiftLeft => "P<<".into(),
					T::ShiftRight => "P>>".into(),
					T::Arrow => "P->".into(),
					T::PipeForType => "P|:".into(),
					T::Dots => "P..".into(),
					T::Fn => "Kfn".into(),
					T::Var => "Kvar".into(),
					T::Const => "Kconst".into(),
					T::If => "Kif".into(),
					T::Goto => "Kgoto".into(),
					T::Loop => "Kloop".into(),
					T::Else => "Kelse".into(),
					T::Cast => "Kcast".into(),
					T::As => "Kas".into(),
					T::Import => "Kimport".into(),
					T::Pub => "Kpub".into(),
					T::Extern => "Kextern".into(),
					T::Struct => "Kstruct".into(),
					T::Word8 => "Kword8".into(),
					T::Word16 => "Kword16".into(),
					T::Word32 => "Kword32".into(),
					T::Word64 => "Kword64".into(),
					T::Word128 => "Kword128".into(),
					T::Identifier(s) => format!("I{}", s),
					T::Builtin(s) => format!("B{}", s),
					T::NakedDecimal(v) => format!("N{}", v),
					T::BitInteger(v) => format!("X{}", v),
					T::SuffixedInteger { value, suffix_type } =>
					{
						format!("S{}:{}", value, alpha_type_name(suffix_type))
					}
					T::CharLiteral(c) => format!("C{}", c),
					T::Bool(b) => format!("L{}", *b as u8),
					T::StringLiteral { bytes } => format!("Q{}", hex(bytes)),
					T::Type(t) => format!("T{}", alpha_type_name(t)),
				},
			};
			NTok {
				kind,
				start: m(t.location.span.start),
				end: m(t.location.span.end),
				line: t.location.line_number,
			}
		})
		.collect()
}

// ---------------------------------------------------------------- delta side

pub fn delta_type_name(k: dlex::ValueTypeKeyword) -> &'static str
{
	use dlex::ValueTypeKeyword as V;
	match k
	{
		V::NoKeyword => "?",
		V::Void => "void",
		V::Int8 => "i8",
		V::Int16 => "i16",
		V::Int32 => "i32",
		V::Int64 => "i64",
		V::Int128 => "i128",
		V::Uint8 => "u8",
		V::Uint16 => "u16",
		V::Uint32 => "u32",
		V::Uint64 => "u64",
		V::Uint128 => "u128",
		V::Usize => "usize",
		V::Char8 => "char8",
		V::Bool => "bool",
	}
}

pub struct DeltaLexed
{
	pub toks: Vec<NTok>,
	pub num_raw_tokens: usize,
	pub num_errors: usize,
	pub tail_ok: bool,
}

/// Normalised view of delta's token vector (the two trailing EndOfSource
/// tokens are checked and dropped).
pub fn delta_tokens(src: &[u8], tokens: &dlex::tokens::Tokens) -> DeltaLexed
{
	use dlex::BaseToken as B;
	let base = tokens.base_tokens();
	let codes: Vec<u16> = tokens
		.errors()
		.map(|e| e.codes())
		.unwrap_or_default();
	let mut ei = 0;
	let mut out = Vec::new();
	let mut id = tokens.first_token_id();
	let n = base.len();
	let mut tail_ok = n >= 2
		&& base[n - 1] == B::EndOfSource
		&& base[n - 2] == B::EndOfSource;
	if n == 1 && base[0] == B::Error
	{
		// empty_with_one_error
		tail_ok = true;
	}
	for i in 0..n
	{
		let b = base[i];
		let loc = tokens.get_location(id);
		let vap = tokens.get_value_type_and_payload(id);
		let payload = tokens.get_integer_payload(vap.payload_id());
		let text = src.get(loc.span.clone()).unwrap_or(&[]);
		let name = String::from_utf8_lossy(text).to_string();
		let kind: Option<String> = match b
		{
			B::EndOfSource =>
			{
				if i + 2 < n
				{
					tail_ok = false;
				}
				None
			}
			B::ParenLeft => Some("P(".into()),
			B::ParenRight => Some("P)".into()),
			B::BraceLeft => Some("P{".into()),
			B::BraceRight => Some("P}".into()),
			B::BracketLeft => Some("P[".into()),
			B::BracketRight => Some("P]".into()),
			B::AngleLeft => Some("P<".into()),
			B::AngleRight => Some("P>".into()),
			B::Pipe => Some("P|".into()),
			B::Ampersand => Some("P&".into()),
			B::Caret => Some("P^".into()),
			B::Exclamation => Some("P!".into()),
			B::Placeholder => Some("_".into()),
			B::Plus => Some("P+".into()),
			B::Minus => Some("P-".into()),
			B::Times => Some("P*".into()),
			B::Divide => Some("P/".into()),
			B::Modulo => Some("P%".into()),
			B::Colon => Some("P:".into()),
			B::Semicolon => Some("P;".into()),
			B::Dot => Some("P.".into()),
			B::Comma => Some("P,".into()),
			B::Assignment => Some("P=".into()),
			B::Equals => Some("P==".into()),
			B::DoesNotEqual => Some("P!=".into()),
			B::IsGE => Some("P>=".into()),
			B::IsLE => Some("P<=".into()),
			B::ShiftLeft => Some("P<<".into()),
			B::ShiftRight => Some("P>>".into()),
			B::Arrow => Some("P->".into()),
			B::PipeForType => Some("P|:".into()),
			B::Dots => Some("P..".into()),
			B::Fn => Some("Kfn".into()),
			B::Var => Some("Kvar".into()),
			B::Const => Some("Kconst".into()),
			B::If => Some("Kif".into()),
			B::Goto => Some("Kgoto".into()),
			B::Loop => Some("Kloop".into()),
			// granted by the property: the second generation reserves `return`
			B::Return => Some("Ireturn".into()),
			B::Else => Some("Kelse".into()),
			B::Cast => Some("Kcast".into()),
			B::As => Some("Kas".into()),
			B::Import => Some("Kimport".into()),
			B::Pub => Some("Kpub".into()),
			B::Extern => Some("Kextern".into()),
			B::Struct => Some("Kstruct".into()),
			B::Word8 => Some("Kword8".into()),
			B::Word16 => Some("Kword16".into()),
			B::Word32 => Some("Kword32".into()),
			B::Word64 => Some("Kword64".into()),
			B::Word128 => Some("Kword128".into()),
			B::ValueTypeKeyword =>
			{
				Some(format!("T{}", delta_type_name(vap.value_type())))
			}
			B::Identifier => Some(format!("I{}", name)),
			B::Builtin => Some(format!("B{}", name.trim_end_matches('!'))),
			B::NakedDecimal => Some(format!(
				"N{}",
				payload.map(|v| v.to_string()).unwrap_or("<none>".into())
			)),
			B::BitInteger => Some(format!(
				"X{}",
				payload.map(|v| v.to_string()).unwrap_or("<none>".into())
			)),
			B::SuffixedInteger => Some(format!(
				"S{}:{}",
				payload.map(|v| v.to_string()).unwrap_or("<none>".into()),
				delta_type_name(vap.value_type())
			)),
			B::CharLiteral => Some(format!(
				"C{}",
				payload.map(|v| v.to_string()).unwrap_or("<none>".into())
			)),
			B::BoolLiteral => Some(format!(
				"L{}",
				payload.map(|v| v.to_string()).unwrap_or("<none>".into())
			)),
			B::StringLiteral => Some(match decode_string_lexeme(text)
			{
				Some(bytes) => format!("Q{}", hex(&bytes)),
				None => format!("Q<undecodable:{}>", hex(text)),
			}),
			B::Error =>
			{
				let c = codes.get(ei).copied();
				ei += 1;
				Some(match c
				{
					Some(c) => format!("E{}", c),
					None => "E<unlisted>".to_string(),
				})
			}
		};
		if let Some(kind) = kind
		{
			out.push(NTok {
				kind,
				start: loc.span.start,
				end: loc.span.end,
				line: loc.line_number,
			});
		}
		if i + 1 < n
		{
			tokens.advance(&mut id);
		}
	}
	DeltaLexed {
		toks: out,
		num_raw_tokens: n,
		num_errors: codes.len(),
		tail_ok,
	}
}

/// merge runs of E110 that cover the bytes of one scalar value (delta reports
/// one per byte)
pub fn merge_bytewise_e110(src: &[u8], toks: &[NTok]) -> Vec<NTok>
{
	let mut out: Vec<NTok> = Vec::new();
	for t in toks
	{
		if t.kind == "E110" && t.end == t.start + 1 && t.start < src.len()
		{
			let b = src[t.start];
			if (b & 0xC0) == 0x80
			{
				if let Some(last) = out.last_mut()
				{
					if last.kind == "E110"
						&& last.end == t.start
						&& src[last.start] >= 0xC0
					{
						last.end = t.end;
						continue;
					}
				}
			}
		}
		out.push(t.clone());
	}
	out
}

pub fn lexeme_class(src: &[u8], at: usize) -> String
{
	if at >= src.len()
	{
		return "eof".into();
	}
	let b = src[at];
	match b
	{
		b'\r' => "cr".into(),
		b'\'' | b'"' =>
		{
			// name the first escape in the literal, if any
			let q = if b == b'\'' { "quote1" } else { "quote2" };
			let mut i = at + 1;
			while i < src.len() && src[i] != b'\n'
			{
				if src[i] == b'\\' && i + 1 < src.len()
				{
					let e = src[i + 1];
					let e = if e.is_ascii_graphic() { e as char } else { '?' };
					return format!("{}\\{}", q, e);
				}
				i += 1;
			}
			q.into()
		}
		b'0' if at + 1 < src.len() && src[at + 1] == b'x' => "num0x".into(),
		b'0' if at + 1 < src.len() && src[at + 1] == b'b' => "num0b".into(),
		b'0'..=b'9' => "num".into(),
		0 => "nul".into(),
		_ if b >= 0x80 => "nonascii".into(),
		_ if is_ident_start(b) => "word".into(),
		_ if b < 0x20 || b == 0x7f => "ctrl".into(),
		_ => "punct".into(),
	}
}

pub fn kind_class(k: &str) -> String
{
	match k.chars().next()
	{
		Some('E') => k.to_string(),
		Some('P') | Some('K') | Some('T') => k.to_string(),
		Some(c) => c.to_string(),
		None => "-".to_string(),
	}
}

/// Compare two normalised token lists; None if equal, otherwise
/// (index, description-signature-part).
pub fn first_diff(
	src: &[u8],
	a: &[NTok],
	b: &[NTok],
	compare_error_spans: bool,
) -> Option<(usize, String, String, String)>
{
	let n = a.len().max(b.len());
	for i in 0..n
	{
		let x = a.get(i);
		let y = b.get(i);
		let same = match (x, y)
		{
			(Some(x), Some(y)) =>
			{
				if x.kind != y.kind || x.line != y.line
				{
					false
				}
				else if x.kind.starts_with('E') && !compare_error_spans
				{
					true
				}
				else
				{
					x.start == y.start && x.end == y.end
				}
			}
			_ => false,
		};
		if !same
		{
			let at = x
				.map(|t| t.start)
				.into_iter()
				.chain(y.map(|t| t.start))
				.min()
				.unwrap_or(src.len());
			let ka = x.map(|t| kind_class(&t.kind)).unwrap_or("-".into());
			let kb = y.map(|t| kind_class(&t.kind)).unwrap_or("-".into());
			let what = match (x, y)
			{
				(Some(x), Some(y)) if x.kind == y.kind && x.line != y.line => "line",
				(Some(x), Some(y)) if x.kind == y.kind => "span",
				(Some(x), Some(y)) if kind_class(&x.kind) == kind_class(&y.kind) =>
				{
					"value"
				}
				_ => "kind",
			};
			return Some((i, format!("{} a={} b={}", what, ka, kb), lexeme_class(src, at), format!("{:?} vs {:?}", x, y)));
		}
	}
	None
}
