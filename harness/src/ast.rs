//! Typed AST of generated Penne programs and its printer (layout + literal
//! spelling variations). The same AST is evaluated by the reference
//! interpreter (interp.rs) and canonicalised for the syntax checks.

use crate::choices::Choices;

#[derive(Debug, Clone, Copy, PartialEq, Eq, Hash, PartialOrd, Ord)]
pub enum Prim
{
	I8,
	I16,
	I32,
	I64,
	I128,
	U8,
	U16,
	U32,
	U64,
	U128,
	Usize,
	Bool,
	Char8,
}

pub const INT_PRIMS: &[Prim] = &[
	Prim::I8,
	Prim::I16,
	Prim::I32,
	Prim::I64,
	Prim::I128,
	Prim::U8,
	Prim::U16,
	Prim::U32,
	Prim::U64,
	Prim::U128,
	Prim::Usize,
];
pub const ALL_PRIMS: &[Prim] = &[
	Prim::I8,
	Prim::I16,
	Prim::I32,
	Prim::I64,
	Prim::I128,
	Prim::U8,
	Prim::U16,
	Prim::U32,
	Prim::U64,
	Prim::U128,
	Prim::Usize,
	Prim::Bool,
	Prim::Char8,
];

impl Prim
{
	pub fn name(&self) -> &'static str
	{
		match self
		{
			Prim::I8 => "i8",
			Prim::I16 => "i16",
			Prim::I32 => "i32",
			Prim::I64 => "i64",
			Prim::I128 => "i128",
			Prim::U8 => "u8",
			Prim::U16 => "u16",
			Prim::U32 => "u32",
			Prim::U64 => "u64",
			Prim::U128 => "u128",
			Prim::Usize => "usize",
			Prim::Bool => "bool",
			Prim::Char8 => "char8",
		}
	}
	pub fn bits(&self) -> u32
	{
		match self
		{
			Prim::I8 | Prim::U8 | Prim::Char8 => 8,
			Prim::I16 | Prim::U16 => 16,
			Prim::I32 | Prim::U32 => 32,
			Prim::I64 | Prim::U64 | Prim::Usize => 64,
			Prim::I128 | Prim::U128 => 128,
			Prim::Bool => 1,
		}
	}
	pub fn bytes(&self) -> usize
	{
		match self
		{
			Prim::Bool => 1,
			p => (p.bits() / 8) as usize,
		}
	}
	pub fn signed(&self) -> bool
	{
		matches!(self, Prim::I8 | Prim::I16 | Prim::I32 | Prim::I64 | Prim::I128)
	}
	pub fn is_int(&self) -> bool
	{
		!matches!(self, Prim::Bool | Prim::Char8)
	}
	/// u8..u128: the types that allow & | ^ << >> and !
	pub fn is_bitwise(&self) -> bool
	{
		matches!(self, Prim::U8 | Prim::U16 | Prim::U32 | Prim::U64 | Prim::U128)
	}
	pub fn mask(&self) -> u128
	{
		let b = self.bits();
		if b >= 128
		{
			u128::MAX
		}
		else
		{
			(1u128 << b) - 1
		}
	}
	/// interpret masked bits as a signed number
	pub fn to_signed(&self, bits: u128) -> i128
	{
		let b = self.bits();
		if b >= 128
		{
			bits as i128
		}
		else if bits >> (b - 1) & 1 == 1
		{
			(bits | !self.mask()) as i128
		}
		else
		{
			bits as i128
		}
	}
	pub fn min_signed(&self) -> i128
	{
		if self.bits() >= 128
		{
			i128::MIN
		}
		else
		{
			-(1i128 << (self.bits() - 1))
		}
	}
	pub fn max_value(&self) -> u128
	{
		if self.signed()
		{
			self.mask() >> 1
		}
		else
		{
			self.mask()
		}
	}
}

#[derive(Debug, Clone, PartialEq, Eq, Hash)]
pub enum Ty
{
	Prim(Prim),
	/// element type, length, optional named constant used as length
	Array(Box<Ty>, usize, Option<String>),
	/// index into Program::structs (struct or word)
	Named(usize),
	Ptr(Box<Ty>),
	/// `[]T` parameter (view of an array)
	Slice(Box<Ty>),
	/// `&[]T` parameter
	SlicePtr(Box<Ty>),
}

impl Ty
{
	pub fn prim(&self) -> Option<Prim>
	{
		match self
		{
			Ty::Prim(p) => Some(*p),
			_ => None,
		}
	}
}

#[derive(Debug, Clone)]
pub struct StructDecl
{
	pub name: String,
	/// Some(bytes) for word8..word128
	pub word_bytes: Option<usize>,
	pub members: Vec<(String, Ty)>,
	pub public: bool,
}

#[derive(Debug, Clone)]
pub struct ConstDecl
{
	pub name: String,
	pub ty: Ty,
	pub init: Expr,
	pub public: bool,
}

#[derive(Debug, Clone)]
pub struct Param
{
	pub name: String,
	pub ty: Ty,
}

#[derive(Debug, Clone)]
pub struct FuncDecl
{
	pub name: String,
	pub params: Vec<Param>,
	pub ret: Option<Prim>,
	pub body: Vec<Stmt>,
	pub ret_expr: Option<Expr>,
	pub public: bool,
	/// `extern`: C ABI
	pub external: bool,
	/// declaration without a body (`fn f(..);`)
	pub head_only: bool,
}

#[derive(Debug, Clone, Copy, PartialEq, Eq, Hash, PartialOrd, Ord)]
pub enum Top
{
	Const(usize),
	Struct(usize),
	Func(usize),
	/// verbatim text (fault injection)
	Raw(usize),
}

#[derive(Debug, Clone, Default)]
pub struct Program
{
	pub consts: Vec<ConstDecl>,
	pub structs: Vec<StructDecl>,
	pub funcs: Vec<FuncDecl>,
	/// top-level print order
	pub order: Vec<Top>,
	/// `import "x";` lines printed first (used by the module splitter)
	pub imports: Vec<String>,
	/// verbatim top-level text chunks
	pub raws: Vec<String>,
	/// the imports are printed after this many top-level declarations
	/// (an import may stand anywhere among the declarations)
	pub imports_after: usize,
}

#[derive(Debug, Clone, Copy, PartialEq, Eq, Hash)]
pub enum BinOp
{
	Add,
	Sub,
	Mul,
	Div,
	Rem,
	And,
	Or,
	Xor,
	Shl,
	Shr,
}

impl BinOp
{
	pub fn text(&self) -> &'static str
	{
		match self
		{
			BinOp::Add => "+",
			BinOp::Sub => "-",
			BinOp::Mul => "*",
			BinOp::Div => "/",
			BinOp::Rem => "%",
			BinOp::And => "&",
			BinOp::Or => "|",
			BinOp::Xor => "^",
			BinOp::Shl => "<<",
			BinOp::Shr => ">>",
		}
	}
}

#[derive(Debug, Clone, Copy, PartialEq, Eq, Hash)]
pub enum UnOp
{
	Neg,
	Not,
}

#[derive(Debug, Clone, Copy, PartialEq, Eq, Hash)]
pub enum CmpOp
{
	Eq,
	Ne,
	Lt,
	Le,
	Gt,
	Ge,
}

impl CmpOp
{
	pub fn text(&self) -> &'static str
	{
		match self
		{
			CmpOp::Eq => "==",
			CmpOp::Ne => "!=",
			CmpOp::Lt => "<",
			CmpOp::Le => "<=",
			CmpOp::Gt => ">",
			CmpOp::Ge => ">=",
		}
	}
}

#[derive(Debug, Clone, Copy, PartialEq, Eq)]
pub enum Radix
{
	Dec,
	Hex,
	Bin,
}

#[derive(Debug, Clone)]
pub struct Spell
{
	pub radix: Radix,
	pub suffix: bool,
	/// positions (digit counts from the left) after which `_` is inserted
	pub underscores: Vec<usize>,
	pub upper: bool,
}

impl Default for Spell
{
	fn default() -> Self
	{
		Spell {
			radix: Radix::Dec,
			suffix: false,
			underscores: Vec::new(),
			upper: false,
		}
	}
}

#[derive(Debug, Clone)]
pub enum Step
{
	Index(Box<Expr>),
	Member(String),
}

#[derive(Debug, Clone)]
pub struct Place
{
	pub base: String,
	pub steps: Vec<Step>,
}

impl Place
{
	pub fn var(name: &str) -> Place
	{
		Place {
			base: name.to_string(),
			steps: Vec::new(),
		}
	}
}

#[derive(Debug, Clone)]
pub enum Arg
{
	/// primitive or word passed by value
	Value(Expr),
	/// array or struct passed as a view
	View(Place),
	/// `&place` with the given number of ampersands
	Addr(Place, u8),
}

#[derive(Debug, Clone)]
pub enum Expr
{
	/// integer / bool / char literal: masked bits and type
	Lit(u128, Prim, Spell),
	/// read of a primitive (or word) through a place, auto-dereferencing
	Read(Place, Ty),
	Bin(BinOp, Box<Expr>, Box<Expr>, Prim),
	Un(UnOp, Box<Expr>, Prim),
	Cast(Box<Expr>, Prim, Prim),
	Len(Place),
	SizeOf(Ty),
	Call(usize, Vec<Arg>, Prim),
	Paren(Box<Expr>),
	StructLit(usize, Vec<(String, Expr)>),
	ArrayLit(Vec<Expr>),
	/// string literal (only as a print item or `[]char8` argument)
	Str(Vec<u8>),
}

#[derive(Debug, Clone)]
pub struct Cmp
{
	pub op: CmpOp,
	pub left: Expr,
	pub right: Expr,
	/// type of both operands
	pub ty: Prim,
}

#[derive(Debug, Clone)]
pub enum Branch
{
	Block(Vec<Stmt>),
	Goto(String),
	/// else-if
	If(Box<Stmt>),
}

#[derive(Debug, Clone)]
pub enum Stmt
{
	Var
	{
		name: String,
		ty: Ty,
		annotate: bool,
		init: Option<Expr>,
	},
	Assign(Place, Expr),
	/// `&p = &target;` with `depth` ampersands on both sides
	Repoint(Place, Place, u8),
	Call(usize, Vec<Arg>),
	Print(Vec<Expr>),
	Block(Vec<Stmt>),
	If(Cmp, Branch, Option<Branch>),
	Goto(String),
	Label(String),
	Loop,
}

// ------------------------------------------------------------------ printer

#[derive(Debug, Clone, Default)]
pub struct Layout
{
	pub spaces: u8,        // 0 = tabs, otherwise spaces per level
	pub crlf: bool,        // CRLF line ends
	pub comments: u8,      // 0..=3: probability class of comments
	pub extra_parens: u8,  // 0..=3
	pub same_line_brace: bool,
	pub trailing_commas: bool,
	pub blank_lines: bool,
	pub tight: bool, // no spaces around operators
}

impl Layout
{
	pub fn plain() -> Layout
	{
		Layout::default()
	}
	pub fn random(c: &mut Choices) -> Layout
	{
		Layout {
			spaces: *c.pick(&[0u8, 0, 2, 4, 1]),
			crlf: c.chance(1, 6),
			comments: c.draw(4) as u8,
			extra_parens: c.draw(4) as u8,
			same_line_brace: c.flag(),
			trailing_commas: c.flag(),
			blank_lines: c.flag(),
			tight: c.chance(1, 4),
		}
	}
}

/// Expression levels of the Penne grammar (alpha/parser.rs), lowest binds
/// weakest. `Closed` = bitwise chains and shifts, which cannot be an operand
/// of anything without parentheses.
#[derive(Debug, Clone, Copy, PartialEq, Eq, PartialOrd, Ord)]
enum Level
{
	Closed,
	Add,
	Mul,
	Singular,
	Unary,
	Primary,
}

pub struct Printer<'a, 'c>
{
	pub prog: &'a Program,
	pub layout: Layout,
	pub out: String,
	choices: Option<&'a mut Choices<'c>>,
	indent: usize,
}

impl<'a, 'c> Printer<'a, 'c>
{
	pub fn new(
		prog: &'a Program,
		layout: Layout,
		choices: Option<&'a mut Choices<'c>>,
	) -> Printer<'a, 'c>
	{
		Printer {
			prog,
			layout,
			out: String::new(),
			choices,
			indent: 0,
		}
	}

	fn chance(&mut self, num: usize, den: usize) -> bool
	{
		match self.choices.as_mut()
		{
			Some(c) => c.chance(num, den),
			None => false,
		}
	}

	fn nl(&mut self)
	{
		if self.layout.comments > 0 && self.chance(self.layout.comments as usize, 24)
		{
			let txt = *self
				.choices
				.as_mut()
				.map(|c| {
					c.pick(&[
						" // note",
						" // x = 1; goto end;",
						" // \u{20ac}\u{e9} \"quoted\" 'c'",
						" //",
						" /// doc",
						" // } { ( [",
					])
				})
				.unwrap_or(&"");
			self.out.push_str(txt);
		}
		if self.layout.crlf
		{
			self.out.push_str("\r\n");
		}
		else
		{
			self.out.push('\n');
		}
	}

	fn pad(&mut self)
	{
		for _ in 0..self.indent
		{
			if self.layout.spaces == 0
			{
				self.out.push('\t');
			}
			else
			{
				for _ in 0..self.layout.spaces
				{
					self.out.push(' ');
				}
			}
		}
	}

	fn line(&mut self, s: &str)
	{
		self.pad();
		self.out.push_str(s);
		self.nl();
	}

	fn open(&mut self, head: &str)
	{
		if self.layout.same_line_brace && !head.is_empty()
		{
			self.line(&format!("{} {{", head));
		}
		else
		{
			if !head.is_empty()
			{
				self.line(head);
			}
			self.line("{");
		}
		self.indent += 1;
	}

	fn close(&mut self)
	{
		self.indent -= 1;
		self.line("}");
	}

	pub fn ty(&self, t: &Ty) -> String
	{
		match t
		{
			Ty::Prim(p) => p.name().to_string(),
			Ty::Array(e, n, named) => match named
			{
				Some(name) => format!("[{}]{}", name, self.ty(e)),
				None => format!("[{}]{}", n, self.ty(e)),
			},
			Ty::Named(i) => self.prog.structs[*i].name.clone(),
			Ty::Ptr(t) => format!("&{}", self.ty(t)),
			Ty::Slice(t) => format!("[]{}", self.ty(t)),
			Ty::SlicePtr(t) => format!("&[]{}", self.ty(t)),
		}
	}

	pub fn program(mut self) -> String
	{
		let prog = self.prog;
		let order = prog.order.clone();
		let imports_at = prog.imports_after.min(order.len());
		for (i, top) in order.iter().enumerate()
		{
			if i == imports_at
			{
				for imp in &prog.imports
				{
					self.line(&format!("import \"{}\";", imp));
				}
				if !prog.imports.is_empty()
				{
					self.nl();
				}
			}
			if i > 0 && (self.layout.blank_lines || self.layout.comments == 0)
			{
				self.nl();
			}
			match top
			{
				Top::Const(k) => self.constant(&prog.consts[*k]),
				Top::Struct(k) => self.structure(&prog.structs[*k]),
				Top::Func(k) => self.function(&prog.funcs[*k]),
				Top::Raw(k) =>
				{
					for l in prog.raws[*k].lines()
					{
						self.line(l);
					}
				}
			}
		}
		if imports_at >= order.len()
		{
			for imp in &prog.imports
			{
				self.line(&format!("import \"{}\";", imp));
			}
		}
		self.out
	}

	fn constant(&mut self, c: &ConstDecl)
	{
		let e = self.expr_top(&c.init);
		let p = if c.public { "pub " } else { "" };
		let t = self.ty(&c.ty);
		self.line(&format!("{}const {}: {} = {};", p, c.name, t, e));
	}

	fn structure(&mut self, s: &StructDecl)
	{
		let p = if s.public { "pub " } else { "" };
		let kw = match s.word_bytes
		{
			None => "struct".to_string(),
			Some(b) => format!("word{}", b * 8),
		};
		self.open(&format!("{}{} {}", p, kw, s.name));
		for (i, (name, ty)) in s.members.iter().enumerate()
		{
			let last = i + 1 == s.members.len();
			let comma = if !last || self.layout.trailing_commas { "," } else { "" };
			let t = self.ty(ty);
			self.line(&format!("{}: {}{}", name, t, comma));
		}
		self.close();
	}

	fn function(&mut self, f: &FuncDecl)
	{
		let p = format!(
			"{}{}",
			if f.public { "pub " } else { "" },
			if f.external { "extern " } else { "" }
		);
		let params: Vec<String> =
			f.params.iter().map(|p| format!("{}: {}", p.name, self.ty(&p.ty))).collect();
		let ret = match f.ret
		{
			Some(r) => format!(" -> {}", r.name()),
			None => String::new(),
		};
		if f.head_only
		{
			self.line(&format!("{}fn {}({}){};", p, f.name, params.join(", "), ret));
			return;
		}
		self.open(&format!("{}fn {}({}){}", p, f.name, params.join(", "), ret));
		self.stmts(&f.body);
		if let Some(e) = &f.ret_expr
		{
			let e = self.expr_top(e);
			self.line(&format!("return: {}", e));
		}
		self.close();
	}

	fn stmts(&mut self, v: &[Stmt])
	{
		for s in v
		{
			self.stmt(s);
		}
	}

	fn branch(&mut self, b: &Branch)
	{
		match b
		{
			Branch::Block(v) =>
			{
				self.open("");
				self.stmts(v);
				self.close();
			}
			Branch::Goto(l) =>
			{
				self.indent += 1;
				self.line(&format!("goto {};", l));
				self.indent -= 1;
			}
			Branch::If(s) => self.stmt(s),
		}
	}

	fn stmt(&mut self, s: &Stmt)
	{
		match s
		{
			Stmt::Var {
				name,
				ty,
				annotate,
				init,
			} =>
			{
				let mut t = format!("var {}", name);
				if *annotate
				{
					t.push_str(&format!(": {}", self.ty(ty)));
				}
				if let Some(e) = init
				{
					let e = self.expr_top(e);
					t.push_str(&format!(" = {}", e));
				}
				t.push(';');
				self.line(&t);
			}
			Stmt::Assign(p, e) =>
			{
				let p = self.place(p);
				let e = self.expr_top(e);
				self.line(&format!("{} = {};", p, e));
			}
			Stmt::Repoint(p, q, d) =>
			{
				let amp = "&".repeat(*d as usize);
				let p = self.place(p);
				let q = self.place(q);
				self.line(&format!("{}{} = {}{};", amp, p, amp, q));
			}
			Stmt::Call(f, args) =>
			{
				let a = self.args(args);
				let name = self.prog.funcs[*f].name.clone();
				self.line(&format!("{}({});", name, a));
			}
			Stmt::Print(items) =>
			{
				let parts: Vec<String> = items.iter().map(|e| self.expr_top(e)).collect();
				self.line(&format!("print!({});", parts.join(", ")));
			}
			Stmt::Block(v) =>
			{
				self.open("");
				self.stmts(v);
				self.close();
			}
			Stmt::If(c, t, e) =>
			{
				let l = self.expr_at(&c.left, Level::Closed);
				let r = self.expr_at(&c.right, Level::Closed);
				let head = format!("if {} {} {}", l, c.op.text(), r);
				match t
				{
					Branch::Block(v) =>
					{
						self.open(&head);
						self.stmts(v);
						self.close();
					}
					other =>
					{
						self.line(&head);
						self.branch(other);
					}
				}
				if let Some(e) = e
				{
					match e
					{
						Branch::If(s) =>
						{
							// `else if`: print on one line
							self.pad();
							self.out.push_str("else ");
							let start = self.out.len();
							self.stmt(s);
							// remove the padding the nested statement emitted
							let nested = self.out[start..].to_string();
							self.out.truncate(start);
							self.out.push_str(nested.trim_start_matches(|c| c == '\t' || c == ' '));
						}
						Branch::Block(v) =>
						{
							self.open("else");
							self.stmts(v);
							self.close();
						}
						Branch::Goto(l) =>
						{
							self.line("else");
							self.indent += 1;
							self.line(&format!("goto {};", l));
							self.indent -= 1;
						}
					}
				}
			}
			Stmt::Goto(l) => self.line(&format!("goto {};", l)),
			Stmt::Label(l) => self.line(&format!("{}:", l)),
			Stmt::Loop => self.line("loop;"),
		}
	}

	fn args(&mut self, args: &[Arg]) -> String
	{
		let parts: Vec<String> = args
			.iter()
			.map(|a| match a
			{
				Arg::Value(e) => self.expr_top(e),
				Arg::View(p) => self.place(p),
				Arg::Addr(p, d) => format!("{}{}", "&".repeat(*d as usize), self.place(p)),
			})
			.collect();
		parts.join(", ")
	}

	pub fn place(&mut self, p: &Place) -> String
	{
		let mut s = p.base.clone();
		for st in &p.steps
		{
			match st
			{
				Step::Index(e) =>
				{
					let e = self.expr_top(e);
					s.push_str(&format!("[{}]", e));
				}
				Step::Member(m) =>
				{
					s.push('.');
					s.push_str(m);
				}
			}
		}
		s
	}

	fn lit(&mut self, bits: u128, ty: Prim, sp: &Spell) -> (String, Level)
	{
		match ty
		{
			Prim::Bool =>
			{
				return ((if bits != 0 { "true" } else { "false" }).to_string(), Level::Primary)
			}
			Prim::Char8 =>
			{
				let b = bits as u8;
				let s = match b
				{
					b'\n' => "'\\n'".to_string(),
					b'\r' => "'\\r'".to_string(),
					b'\t' => "'\\t'".to_string(),
					b'\\' => "'\\\\'".to_string(),
					b'\'' => "'\\''".to_string(),
					0 => "'\\0'".to_string(),
					0x20..=0x7e if !sp.upper => format!("'{}'", b as char),
					_ => format!("'\\x{:02x}'", b),
				};
				return (s, Level::Primary);
			}
			_ => (),
		}
		let negative = ty.signed() && ty.to_signed(bits) < 0;
		let magnitude: u128 = if negative
		{
			(ty.to_signed(bits) as i128).unsigned_abs()
		}
		else
		{
			bits
		};
		// hex/bin spell the magnitude only for non-negative values
		let radix = if negative { Radix::Dec } else { sp.radix };
		let digits = match radix
		{
			Radix::Dec => magnitude.to_string(),
			Radix::Hex =>
			{
				if sp.upper
				{
					format!("{:X}", magnitude)
				}
				else
				{
					format!("{:x}", magnitude)
				}
			}
			Radix::Bin => format!("{:b}", magnitude),
		};
		let mut body = String::new();
		for (i, ch) in digits.chars().enumerate()
		{
			body.push(ch);
			if sp.underscores.contains(&(i + 1)) && !(radix == Radix::Dec && digits == "0")
			{
				body.push('_');
			}
		}
		let prefix = match radix
		{
			Radix::Dec => "",
			Radix::Hex => "0x",
			Radix::Bin => "0b",
		};
		let suffix = if sp.suffix { ty.name() } else { "" };
		let text = format!("{}{}{}{}", if negative { "-" } else { "" }, prefix, body, suffix);
		(text, if negative { Level::Unary } else { Level::Primary })
	}

	pub fn expr_top(&mut self, e: &Expr) -> String
	{
		self.expr_at(e, Level::Closed)
	}

	/// print `e` so that it is valid where an expression of at least level
	/// `need` is required
	fn expr_at(&mut self, e: &Expr, need: Level) -> String
	{
		let (mut s, mut lvl) = self.expr(e);
		let redundant = self.layout.extra_parens > 0
			&& self.chance(self.layout.extra_parens as usize, 12)
			&& !matches!(e, Expr::Str(_) | Expr::StructLit(..) | Expr::ArrayLit(..));
		if lvl < need || redundant
		{
			s = format!("({})", s);
			lvl = Level::Primary;
		}
		let _ = lvl;
		s
	}

	fn sp(&self) -> &'static str
	{
		if self.layout.tight
		{
			""
		}
		else
		{
			" "
		}
	}

	fn expr(&mut self, e: &Expr) -> (String, Level)
	{
		match e
		{
			Expr::Lit(bits, ty, sp) => self.lit(*bits, *ty, sp),
			Expr::Read(p, t) =>
			{
				// a read of pointer type denotes an address: `&`*depth place
				let mut depth = 0;
				let mut cur = t;
				while let Ty::Ptr(inner) = cur
				{
					depth += 1;
					cur = inner;
				}
				(format!("{}{}", "&".repeat(depth), self.place(p)), Level::Primary)
			}
			Expr::Bin(op, l, r, _) =>
			{
				let sp = self.sp();
				match op
				{
					BinOp::Add | BinOp::Sub =>
					{
						// left: an Add/Sub chain or anything >= Mul; right >= Mul
						let ls = match &**l
						{
							Expr::Bin(BinOp::Add | BinOp::Sub, ..) => self.expr_at(l, Level::Add),
							_ => self.expr_at(l, Level::Mul),
						};
						let mut rs = self.expr_at(r, Level::Mul);
						// `a - -5` is fine, but `a--5` would lex as `a - - 5`
						// all the same; keep a space before a minus sign
						if rs.starts_with('-') && sp.is_empty()
						{
							rs = format!(" {}", rs);
						}
						(format!("{}{}{}{}{}", ls, sp, op.text(), sp, rs), Level::Add)
					}
					BinOp::Mul | BinOp::Div | BinOp::Rem =>
					{
						let ls = self.expr_at(l, Level::Mul);
						let mut rs = self.expr_at(r, Level::Singular);
						if rs.starts_with('-') && sp.is_empty()
						{
							rs = format!(" {}", rs);
						}
						// `a / /` cannot occur; but `a //` would start a comment
						(format!("{}{}{}{}{}", ls, sp, op.text(), sp, rs), Level::Mul)
					}
					BinOp::And | BinOp::Or | BinOp::Xor =>
					{
						// chain of the same operator, left-associative
						let ls = match &**l
						{
							Expr::Bin(o2, ..) if o2 == op => self.expr_at(l, Level::Closed),
							_ => self.expr_at(l, Level::Singular),
						};
						let rs = self.expr_at(r, Level::Unary);
						// `a | |x|` or `a |:T|`: keep operators apart
						(format!("{} {} {}", ls, op.text(), rs), Level::Closed)
					}
					BinOp::Shl | BinOp::Shr =>
					{
						let ls = self.expr_at(l, Level::Singular);
						let rs = self.expr_at(r, Level::Unary);
						(format!("{} {} {}", ls, op.text(), rs), Level::Closed)
					}
				}
			}
			Expr::Un(op, x, _) =>
			{
				let xs = self.expr_at(x, Level::Primary);
				let o = match op
				{
					UnOp::Neg => "-",
					UnOp::Not => "!",
				};
				(format!("{}{}", o, xs), Level::Unary)
			}
			Expr::Cast(x, _, to) =>
			{
				let xs = match &**x
				{
					Expr::Cast(..) => self.expr_at(x, Level::Singular),
					_ => self.expr_at(x, Level::Unary),
				};
				(format!("{} as {}", xs, to.name()), Level::Singular)
			}
			Expr::Len(p) => (format!("|{}|", self.place(p)), Level::Unary),
			Expr::SizeOf(t) => (format!("|:{}|", self.ty(t)), Level::Unary),
			Expr::Call(f, args, _) =>
			{
				let a = self.args(args);
				(format!("{}({})", self.prog.funcs[*f].name, a), Level::Primary)
			}
			Expr::Paren(x) =>
			{
				let xs = self.expr_top(x);
				(format!("({})", xs), Level::Primary)
			}
			Expr::StructLit(si, fields) =>
			{
				let name = self.prog.structs[*si].name.clone();
				let parts: Vec<String> = fields
					.iter()
					.map(|(n, e)| format!("{}: {}", n, self.expr_top(e)))
					.collect();
				let tc = if self.layout.trailing_commas && !parts.is_empty() { "," } else { "" };
				(format!("{} {{ {}{} }}", name, parts.join(", "), tc), Level::Primary)
			}
			Expr::ArrayLit(elems) =>
			{
				let parts: Vec<String> = elems.iter().map(|e| self.expr_top(e)).collect();
				let tc = if self.layout.trailing_commas && !parts.is_empty() { "," } else { "" };
				(format!("[{}{}]", parts.join(", "), tc), Level::Primary)
			}
			Expr::Str(bytes) =>
			{
				let mut s = String::from("\"");
				for b in bytes
				{
					match *b
					{
						b'\n' => s.push_str("\\n"),
						b'\t' => s.push_str("\\t"),
						b'\r' => s.push_str("\\r"),
						b'\\' => s.push_str("\\\\"),
						b'"' => s.push_str("\\\""),
						0 => s.push_str("\\0"),
						0x20..=0x7e => s.push(*b as char),
						_ => s.push_str(&format!("\\x{:02x}", b)),
					}
				}
				s.push('"');
				(s, Level::Primary)
			}
		}
	}
}

pub fn print_program<'a, 'c>(
	prog: &'a Program,
	layout: Layout,
	choices: Option<&'a mut Choices<'c>>,
) -> String
{
	Printer::new(prog, layout, choices).program()
}
