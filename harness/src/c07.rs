//! C07 — no implicit conversions: ill-typed programs are rejected.

use crate::alpha;
use crate::ast::{print_program, Layout, Prim, ALL_PRIMS};
use crate::choices::{fnv, Choices};
use crate::engine::*;
use crate::progen;
use penne::alpha::resolved as r;
use penne::alpha::resolved::Typed;
use serde_json::json;

pub struct C07;

// --------------------------------------------------------- resolved walker

type VT = r::ValueType;

fn is_signed(t: &VT) -> bool
{
	matches!(t, VT::Int8 | VT::Int16 | VT::Int32 | VT::Int64 | VT::Int128)
}
fn is_bitwise(t: &VT) -> bool
{
	matches!(t, VT::Uint8 | VT::Uint16 | VT::Uint32 | VT::Uint64 | VT::Uint128)
}
fn is_integer(t: &VT) -> bool
{
	is_signed(t) || is_bitwise(t) || matches!(t, VT::Usize)
}
fn is_primitive(t: &VT) -> bool
{
	is_integer(t) || matches!(t, VT::Bool | VT::Char8)
}
fn is_pointerlike(t: &VT) -> bool
{
	matches!(t, VT::Pointer { .. } | VT::View { .. })
}

struct Walker<'a>
{
	sigs: std::collections::HashMap<u32, (Vec<VT>, Option<VT>)>,
	problems: Vec<String>,
	current_return: Option<VT>,
	_p: std::marker::PhantomData<&'a ()>,
}

impl<'a> Walker<'a>
{
	fn complain(&mut self, what: String)
	{
		if self.problems.len() < 5
		{
			self.problems.push(what);
		}
	}

	fn expr(&mut self, e: &r::Expression)
	{
		use r::Expression as E;
		match e
		{
			E::Binary {
				op,
				left,
				right,
				value_type,
			} =>
			{
				self.expr(left);
				self.expr(right);
				let (lt, rt) = (left.value_type(), right.value_type());
				if *op != r::BinaryOp::AdvancePointer
				{
					if lt != rt || lt != *value_type
					{
						self.complain(format!(
							"binary {:?}: left {:?}, right {:?}, result {:?}",
							op, lt, rt, value_type
						));
					}
					let ok = match op
					{
						r::BinaryOp::Add
						| r::BinaryOp::Subtract
						| r::BinaryOp::Multiply
						| r::BinaryOp::Divide
						| r::BinaryOp::Modulo => is_integer(&lt) || lt == VT::Char8,
						_ => is_bitwise(&lt),
					};
					if !ok
					{
						self.complain(format!("binary {:?} applied to {:?}", op, lt));
					}
				}
			}
			E::Unary {
				op,
				expression,
				value_type,
			} =>
			{
				self.expr(expression);
				let t = expression.value_type();
				if t != *value_type
				{
					self.complain(format!("unary {:?}: operand {:?}, result {:?}", op, t, value_type));
				}
				let ok = match op
				{
					r::UnaryOp::Negative => is_signed(&t),
					r::UnaryOp::BitwiseComplement => is_bitwise(&t) || t == VT::Bool,
				};
				if !ok
				{
					self.complain(format!("unary {:?} applied to {:?}", op, t));
				}
			}
			E::ArrayLiteral {
				elements,
				element_type,
			} =>
			{
				for el in elements
				{
					self.expr(el);
					if el.value_type() != *element_type
					{
						self.complain(format!(
							"array element of type {:?} in array of {:?}",
							el.value_type(),
							element_type
						));
					}
				}
			}
			E::Structural { members, .. } =>
			{
				for m in members
				{
					self.expr(&m.expression);
				}
			}
			E::Parenthesized { inner } => self.expr(inner),
			E::Deref { reference, .. } => self.reference(reference),
			E::Autocoerce { expression, .. } => self.expr(expression),
			E::BitCast { expression, .. } => self.expr(expression),
			E::PrimitiveCast {
				expression,
				expression_type,
				coerced_type,
			} =>
			{
				self.expr(expression);
				if !is_primitive(expression_type) || !is_primitive(coerced_type)
				{
					self.complain(format!(
						"primitive cast between {:?} and {:?}",
						expression_type, coerced_type
					));
				}
				if expression.value_type() != *expression_type
				{
					self.complain(format!(
						"cast operand has type {:?}, recorded {:?}",
						expression.value_type(),
						expression_type
					));
				}
			}
			E::LengthOfArray { reference } => self.reference(reference),
			E::FunctionCall {
				name,
				arguments,
				return_type,
			} =>
			{
				for a in arguments
				{
					self.expr(a);
				}
				if let Some((params, ret)) = self.sigs.get(&name.resolution_id).cloned()
				{
					if params.len() != arguments.len()
					{
						self.complain(format!("call of {} with {} arguments for {} parameters", name.name, arguments.len(), params.len()));
					}
					for (a, p) in arguments.iter().zip(params.iter())
					{
						if a.value_type() != *p
						{
							self.complain(format!(
								"argument of type {:?} for parameter of type {:?} in call of {}",
								a.value_type(),
								p,
								name.name
							));
						}
					}
					let ret = ret.unwrap_or(VT::Void);
					if ret != *return_type
					{
						self.complain(format!("call of {} typed {:?}, function returns {:?}", name.name, return_type, ret));
					}
				}
			}
			E::InlineBlock { statements, value } =>
			{
				for s in statements
				{
					self.stmt(s);
				}
				self.expr(value);
			}
			_ => (),
		}
	}

	fn reference(&mut self, rf: &r::Reference)
	{
		for s in &rf.steps
		{
			if let r::ReferenceStep::Element { argument, .. } = s
			{
				self.expr(argument);
				if argument.value_type() != VT::Usize
				{
					self.complain(format!("index of type {:?}", argument.value_type()));
				}
			}
		}
	}

	fn stmt(&mut self, s: &r::Statement)
	{
		use r::Statement as S;
		match s
		{
			S::Declaration {
				value, value_type, ..
			} =>
			{
				if let Some(v) = value
				{
					self.expr(v);
					if v.value_type() != *value_type
					{
						self.complain(format!(
							"variable of type {:?} initialised with {:?}",
							value_type,
							v.value_type()
						));
					}
				}
			}
			S::Assignment { reference, value } =>
			{
				self.reference(reference);
				self.expr(value);
			}
			S::EvaluateAndDiscard { value } => self.expr(value),
			S::If {
				condition,
				then_branch,
				else_branch,
			} =>
			{
				self.expr(&condition.left);
				self.expr(&condition.right);
				let (lt, rt) = (condition.left.value_type(), condition.right.value_type());
				if lt != rt || lt != condition.compared_type
				{
					self.complain(format!(
						"comparison {:?}: left {:?}, right {:?}, compared as {:?}",
						condition.op, lt, rt, condition.compared_type
					));
				}
				let ordering = !matches!(condition.op, r::ComparisonOp::Equals | r::ComparisonOp::DoesNotEqual);
				if ordering && is_pointerlike(&lt)
				{
					self.complain(format!("ordering comparison of {:?}", lt));
				}
				self.stmt(then_branch);
				if let Some(e) = else_branch
				{
					self.stmt(e);
				}
			}
			S::Block(b) =>
			{
				for s in &b.statements
				{
					self.stmt(s);
				}
			}
			_ => (),
		}
	}
}

/// invariants of C07 on the trees returned by analyze_and_resolve
pub fn walk_resolved(decls: &[r::Declaration]) -> Vec<String>
{
	let mut w = Walker {
		sigs: std::collections::HashMap::new(),
		problems: Vec::new(),
		current_return: None,
		_p: std::marker::PhantomData,
	};
	for d in decls
	{
		match d
		{
			r::Declaration::Function {
				name,
				parameters,
				return_type,
				..
			}
			| r::Declaration::FunctionHead {
				name,
				parameters,
				return_type,
				..
			} =>
			{
				w.sigs.insert(
					name.resolution_id,
					(parameters.iter().map(|p| p.value_type.clone()).collect(), return_type.clone()),
				);
			}
			_ => (),
		}
	}
	for d in decls
	{
		match d
		{
			r::Declaration::Constant {
				value, value_type, ..
			} =>
			{
				w.expr(value);
				if value.value_type() != *value_type
				{
					w.complain(format!(
						"constant of type {:?} initialised with {:?}",
						value_type,
						value.value_type()
					));
				}
			}
			r::Declaration::Function {
				body, return_type, ..
			} =>
			{
				w.current_return = return_type.clone();
				for s in &body.statements
				{
					w.stmt(s);
				}
				if let Some(v) = &body.return_value
				{
					w.expr(v);
					if let Some(rt) = return_type
					{
						if v.value_type() != *rt
						{
							w.complain(format!("return value of type {:?} in function returning {:?}", v.value_type(), rt));
						}
					}
				}
			}
			_ => (),
		}
	}
	w.problems
}

// ------------------------------------------------------------- matrix tier

#[derive(Clone, Copy, PartialEq, Debug)]
enum OpKind
{
	Arith(&'static str),
	Bitwise(&'static str),
	Shift(&'static str),
	Equality(&'static str),
	Ordering(&'static str),
}

const OPS: &[OpKind] = &[
	OpKind::Arith("+"),
	OpKind::Arith("-"),
	OpKind::Arith("*"),
	OpKind::Arith("/"),
	OpKind::Arith("%"),
	OpKind::Bitwise("&"),
	OpKind::Bitwise("|"),
	OpKind::Bitwise("^"),
	OpKind::Shift("<<"),
	OpKind::Shift(">>"),
	OpKind::Equality("=="),
	OpKind::Equality("!="),
	OpKind::Ordering("<"),
	OpKind::Ordering("<="),
	OpKind::Ordering(">"),
	OpKind::Ordering(">="),
];

/// documented class of each operator: Some(true) allowed, Some(false)
/// forbidden, None not settled by the documentation
fn class(op: OpKind, t: Prim) -> Option<bool>
{
	match op
	{
		OpKind::Arith(_) => match t
		{
			Prim::Bool => Some(false),
			Prim::Char8 => None,
			_ => Some(true),
		},
		OpKind::Bitwise(_) | OpKind::Shift(_) => match t
		{
			Prim::Usize | Prim::Char8 => None,
			Prim::Bool => Some(false),
			t if t.signed() => Some(false),
			_ => Some(true),
		},
		OpKind::Equality(_) => Some(true),
		OpKind::Ordering(_) => match t
		{
			Prim::Bool => None,
			_ => Some(true),
		},
	}
}

struct Matrix;
impl Matrix
{
	fn cells() -> u64
	{
		(OPS.len() * 13 * 13) as u64
	}
}
impl Stream for Matrix
{
	fn name(&self) -> String
	{
		"operator-type-matrix".into()
	}
	fn count(&self, _tier: Tier) -> u64
	{
		Self::cells()
	}
	fn exhaustive(&self) -> bool
	{
		true
	}
	fn stride(&self) -> u64
	{
		64
	}
	fn run(&self, idx: u64, _c: &mut Choices, ctx: &RunCtx) -> CaseOut
	{
		let mut out = CaseOut::default();
		let op = OPS[(idx / 169) as usize];
		let l = ALL_PRIMS[((idx / 13) % 13) as usize];
		let r = ALL_PRIMS[(idx % 13) as usize];
		let text = match op
		{
			OpKind::Arith(s) | OpKind::Bitwise(s) | OpKind::Shift(s) | OpKind::Equality(s) | OpKind::Ordering(s) => s,
		};
		let src = match op
		{
			OpKind::Equality(_) | OpKind::Ordering(_) => format!(
				"fn f(a: {}, b: {}) -> i32\n{{\n\tvar r: i32 = 0;\n\tif a {} b\n\t{{\n\t\tr = 1;\n\t}}\n\treturn: r\n}}\n",
				l.name(),
				r.name(),
				text
			),
			_ => format!(
				"fn f(a: {}, b: {}) -> {}\n{{\n\tvar r = a {} b;\n\treturn: r\n}}\n",
				l.name(),
				r.name(),
				l.name(),
				text
			),
		};
		out.key = idx;
		out.nontrivial = true;
		let expect: Option<bool> = if l == r
		{
			class(op, l)
		}
		else
		{
			// different operand types are never allowed, whatever the class
			Some(false)
		};
		let o = alpha::compile_modules(
			&[("main.pn".into(), src.clone())],
			alpha::Options {
				keep_resolved: true,
				..Default::default()
			},
		);
		out.class(format!("op:{}", text));
		let detail = json!({"source": src, "result": o.summary()});
		if let Some(e) = &o.internal_error
		{
			out.fail(format!("internal error {}", e.chars().take(50).collect::<String>()), detail);
			return out;
		}
		match expect
		{
			None =>
			{
				out.class("cell:not-settled-by-docs");
			}
			Some(true) =>
			{
				out.class("cell:allowed");
				if !o.ok
				{
					out.fail(
						format!("documented operator rejected: {} {} {} {:?}", l.name(), text, r.name(), o.codes),
						detail,
					);
				}
			}
			Some(false) =>
			{
				out.class("cell:forbidden");
				if o.ok
				{
					out.fail(
						format!("ill-typed operator accepted: {} {} {}", l.name(), text, r.name()),
						detail,
					);
				}
				else
				{
					let want: &[u16] = if l == r { &[550] } else if class(op, l) == Some(true) && class(op, r) == Some(true) { &[551] } else { &[550, 551] };
					if !o.codes.iter().any(|c| want.contains(c))
					{
						out.fail(
							format!("ill-typed operator rejected with {:?} instead of {:?}: {} {} {}", o.codes, want, l.name(), text, r.name()),
							detail,
						);
					}
				}
			}
		}
		if o.ok
		{
			for p in o.resolved.iter().flat_map(|d| walk_resolved(d))
			{
				out.fail("accepted program violates a typing invariant", json!({"source": src, "problem": p}));
			}
		}
		if ctx.want_sample
		{
			out.sample = Some(json!({"source": src, "expected": format!("{:?}", expect)}));
		}
		out
	}
}

struct CastsAndUnary;
impl Stream for CastsAndUnary
{
	fn name(&self) -> String
	{
		"cast-and-unary-matrix".into()
	}
	fn count(&self, _tier: Tier) -> u64
	{
		13 * 13 + 13 * 2
	}
	fn exhaustive(&self) -> bool
	{
		true
	}
	fn run(&self, idx: u64, _c: &mut Choices, ctx: &RunCtx) -> CaseOut
	{
		let mut out = CaseOut::default();
		out.key = idx;
		out.nontrivial = true;
		let (src, expect, want_code, label): (String, Option<bool>, u16, String) = if idx < 169
		{
			let from = ALL_PRIMS[(idx / 13) as usize];
			let to = ALL_PRIMS[(idx % 13) as usize];
			let valid = if from == to
			{
				None // identity casts: tests expect an ambiguity error in some forms; not settled
			}
			else if from.is_int() && to.is_int()
			{
				Some(true)
			}
			else if (from == Prim::U8 && to == Prim::Char8) || (from == Prim::Char8 && to == Prim::U8)
			{
				Some(true)
			}
			else if from == Prim::Bool && to.is_int()
			{
				Some(true)
			}
			else
			{
				Some(false)
			};
			(
				format!(
					"fn f(a: {}) -> {}\n{{\n\tvar r = a as {};\n\treturn: r\n}}\n",
					from.name(),
					to.name(),
					to.name()
				),
				valid,
				552,
				format!("{} as {}", from.name(), to.name()),
			)
		}
		else
		{
			let k = idx - 169;
			let t = ALL_PRIMS[(k / 2) as usize];
			if k % 2 == 0
			{
				let valid = if t.signed() { Some(true) } else if t == Prim::Char8 { None } else { Some(false) };
				(
					format!("fn f(a: {}) -> {}\n{{\n\tvar r = -a;\n\treturn: r\n}}\n", t.name(), t.name()),
					valid,
					550,
					format!("-{}", t.name()),
				)
			}
			else
			{
				let valid = if t.is_bitwise() || t == Prim::Bool
				{
					Some(true)
				}
				else if t == Prim::Usize || t == Prim::Char8
				{
					None
				}
				else
				{
					Some(false)
				};
				(
					format!("fn f(a: {}) -> {}\n{{\n\tvar r = !a;\n\treturn: r\n}}\n", t.name(), t.name()),
					valid,
					550,
					format!("!{}", t.name()),
				)
			}
		};
		let o = alpha::compile_modules(
			&[("main.pn".into(), src.clone())],
			alpha::Options {
				keep_resolved: true,
				..Default::default()
			},
		);
		let detail = json!({"source": src, "result": o.summary()});
		if let Some(e) = &o.internal_error
		{
			out.fail(format!("internal error {}", e.chars().take(50).collect::<String>()), detail);
			return out;
		}
		match expect
		{
			None => out.class("cell:not-settled-by-docs"),
			Some(true) =>
			{
				out.class("cell:allowed");
				if !o.ok
				{
					out.fail(format!("documented operation rejected: {} {:?}", label, o.codes), detail);
				}
			}
			Some(false) =>
			{
				out.class("cell:forbidden");
				if o.ok
				{
					out.fail(format!("ill-typed operation accepted: {}", label), detail);
				}
				else if !o.codes.contains(&want_code)
				{
					out.fail(
						format!("ill-typed operation rejected with {:?} instead of E{}: {}", o.codes, want_code, label),
						detail,
					);
				}
			}
		}
		if ctx.want_sample
		{
			out.sample = Some(json!({"source": src, "expected": format!("{:?}", expect)}));
		}
		out
	}
}

/// typed edits of known expected code inside larger valid surroundings
struct Edits;
impl Stream for Edits
{
	fn name(&self) -> String
	{
		"typed-edits".into()
	}
	fn count(&self, tier: Tier) -> u64
	{
		tier.pick(60_000, 300_000)
	}
	fn choice_len(&self) -> usize
	{
		40
	}
	fn stride(&self) -> u64
	{
		16
	}
	fn run(&self, _idx: u64, c: &mut Choices, ctx: &RunCtx) -> CaseOut
	{
		let mut out = CaseOut::default();
		let ints: Vec<Prim> = ALL_PRIMS.iter().copied().filter(|p| p.is_int()).collect();
		let a = *c.pick(&ints);
		let mut b = *c.pick(&ints);
		if b == a
		{
			b = if a == Prim::I32 { Prim::U8 } else { Prim::I32 };
		}
		let (an, bn) = (a.name(), b.name());
		let pre = format!(
			"struct Pt\n{{\n\tx: {an},\n\ty: {an},\n}}\n\nfn takes(v: {an}) -> {an}\n{{\n\treturn: v\n}}\n\nfn takes_ptr(p: &{an})\n{{\n\tp = p;\n}}\n\nfn takes_two(v: {an}, w: {an}) -> {an}\n{{\n\treturn: v + w\n}}\n\n"
		);
		let kinds: &[(&str, &[u16])] = &[
			("var x: {a} = 1;\n\tvar y: {b} = 2;\n\tx = y;", &[504, 500]),
			("var y: {b} = 2;\n\tvar x: {a} = y;", &[500, 504]),
			("var y: {b} = 2;\n\tvar r = takes(y);", &[512]),
			("var x: {a} = 1;\n\tvar r = takes_two(x);", &[510]),
			("var x: {a} = 1;\n\tvar r = takes(x, x);", &[511]),
			("var x: {a} = 1;\n\tvar y: {b} = 2;\n\tvar r = x + y;", &[551]),
			("var x: {a} = 1;\n\tvar y: {b} = 2;\n\tvar r = takes(x) * y;", &[551]),
			("var x: {a} = 1;\n\tvar y: {b} = 2;\n\tif x == y\n\t{\n\t}", &[551]),
			("var arr: [2]{a} = [1, 2];\n\tvar i: {nu} = 1;\n\tvar r = arr[i];", &[503]),
			("var x: {a} = 1;\n\tvar r = x[0];", &[501]),
			("var x: {a} = 1;\n\tvar r = |x|;", &[502]),
			("var x: {a} = 1;\n\tvar r = x.member;", &[505, 406]),
			("var x: {a} = 1;\n\tvar y: {a} = 2;\n\t&x = &y;", &[506]),
			("var x: {a} = 1;\n\tvar y: {a} = 2;\n\tvar p: &{a} = &x;\n\tp = &y;", &[507]),
			("var t: bool = true;\n\tvar x: {a} = 1;\n\tvar r = x + t;", &[551, 550]),
			("var x: {a} = 1;\n\tvar r = x as &{a};", &[552]),
			("var s = Pt { x: 1, y: 2 };\n\tvar r = s as {a};", &[552, 533]),
			("var s = Pt { x: 1, y: 2 };\n\tvar y: {b} = 2;\n\ts.x = y;", &[504]),
			("var s = Pt { x: 1, y: 2 };\n\tvar y: {b} = 2;\n\tvar r = takes(s.y) + y;", &[551]),
		];
		let k = c.draw(kinds.len());
		let (body, codes) = kinds[k];
		// the one-line wrappers around a return type mismatch
		let (src, codes): (String, &[u16]) = if c.chance(1, 12)
		{
			(
				format!("{pre}fn f() -> {an}\n{{\n\tvar y: {bn} = 2;\n\treturn: y\n}}\n"),
				&[333],
			)
		}
		else
		{
			// an index type that is not usize
			let nu = if a == Prim::Usize { bn } else { an };
			let nu = if nu == "usize" { "u32" } else { nu };
			let body = body.replace("{a}", an).replace("{b}", bn).replace("{nu}", nu);
			(format!("{pre}fn f()\n{{\n\t{body}\n}}\n"), codes)
		};
		out.key = fnv(&src);
		out.nontrivial = true;
		out.class(format!("edit:{}", codes[0]));
		let o = alpha::analyze_one(&src);
		let detail = json!({"source": src, "result": o.summary(), "expected_any_of": codes});
		if let Some(e) = &o.internal_error
		{
			out.fail(format!("internal error {}", e.chars().take(50).collect::<String>()), detail);
		}
		else if o.ok
		{
			out.fail(format!("ill-typed program accepted (expected one of {:?})", codes), detail);
		}
		else if !o.codes.iter().any(|x| codes.contains(x))
		{
			out.fail(format!("ill-typed program rejected with {:?} instead of one of {:?}", o.codes, codes), detail);
		}
		if ctx.want_sample
		{
			out.sample = Some(json!({"source": src, "expected_any_of": codes}));
		}
		out
	}
}

/// one type-breaking edit of a generated well-typed program (typedit.rs)
struct GeneratedEdits;
impl Stream for GeneratedEdits
{
	fn name(&self) -> String
	{
		"edits-of-generated-programs".into()
	}
	fn crash_is_failure(&self) -> bool
	{
		// a compiler crash on an ill-typed program is C02's subject
		false
	}
	fn count(&self, tier: Tier) -> u64
	{
		tier.pick(120_000, 600_000)
	}
	fn choice_len(&self) -> usize
	{
		1700
	}
	fn stride(&self) -> u64
	{
		4
	}
	fn run(&self, _idx: u64, c: &mut Choices, ctx: &RunCtx) -> CaseOut
	{
		let mut out = CaseOut::default();
		let profile = if c.flag() { progen::Profile::calls() } else { progen::Profile::exec() };
		let mut prog = progen::generate(c, profile);
		let site = match crate::typedit::break_one_type(&mut prog, c)
		{
			Some(s) => s,
			None =>
			{
				out.discarded = Some("program offers no site for a type-breaking edit".into());
				return out;
			}
		};
		let src = print_program(&prog, Layout::plain(), None);
		out.key = fnv(&src);
		out.nontrivial = true;
		out.class(format!("site:{}", site.label()));
		let o = alpha::analyze_one(&src);
		let detail = json!({"source": src, "site": site.label(), "result": o.summary()});
		if let Some(e) = &o.internal_error
		{
			out.fail(format!("internal error {}", e.chars().take(50).collect::<String>()), detail);
		}
		else if o.ok
		{
			out.fail(format!("ill-typed program accepted: wrong type as {}", site.label()), detail);
		}
		else if !o.codes.iter().any(|x| (500..=552).contains(x) || *x == 333)
		{
			out.fail(format!("ill-typed program ({}) rejected with {:?}, none of which is a typing error", site.label(), o.codes), detail);
		}
		if ctx.want_sample
		{
			out.sample = Some(json!({"site": site.label(), "codes": o.codes, "source_head": src.chars().take(500).collect::<String>()}));
		}
		out
	}
}

/// operators on pointers and structures: equality of pointers of one type is
/// documented (tests/samples/valid/comparison_eq_pointer.pn), ordering is not
/// (invalid/comparison_ge_pointer.pn, E550), arithmetic is for integers only
struct PointerMatrix;
const POINTEES: &[&str] = &["i32", "u8", "bool", "&i32", "Pt"];
impl Stream for PointerMatrix
{
	fn name(&self) -> String
	{
		"pointer-and-structure-operators".into()
	}
	fn count(&self, _tier: Tier) -> u64
	{
		(OPS.len() * POINTEES.len() * 2) as u64
	}
	fn exhaustive(&self) -> bool
	{
		true
	}
	fn run(&self, idx: u64, _c: &mut Choices, ctx: &RunCtx) -> CaseOut
	{
		let mut out = CaseOut::default();
		out.key = idx;
		out.nontrivial = true;
		let op = OPS[(idx as usize / 2) / POINTEES.len()];
		let t = POINTEES[(idx as usize / 2) % POINTEES.len()];
		let on_pointer = idx % 2 == 0;
		let text = match op
		{
			OpKind::Arith(s) | OpKind::Bitwise(s) | OpKind::Shift(s) | OpKind::Equality(s) | OpKind::Ordering(s) => s,
		};
		let pre = "struct Pt\n{\n\tx: i32,\n\ty: i32,\n}\n\n";
		let (l, r, decl) = if on_pointer
		{
			("&x", "&y", format!("x: &{t}, y: &{t}"))
		}
		else
		{
			("x", "y", "x: Pt, y: Pt".to_string())
		};
		if !on_pointer && t != "Pt"
		{
			out.nontrivial = false;
			return out;
		}
		let is_cmp = matches!(op, OpKind::Equality(_) | OpKind::Ordering(_));
		let src = if is_cmp
		{
			format!("{pre}fn f({decl}) -> i32\n{{\n\tvar r: i32 = 0;\n\tif {l} {text} {r}\n\t{{\n\t\tr = 1;\n\t}}\n\treturn: r\n}}\n")
		}
		else
		{
			format!("{pre}fn f({decl}) -> i32\n{{\n\tvar r = {l} {text} {r};\n\treturn: 0\n}}\n")
		};
		let expect_ok = on_pointer && matches!(op, OpKind::Equality(_));
		let o = alpha::compile_modules(&[("main.pn".into(), src.clone())], alpha::Options::default());
		let label = format!("{} {} {}", if on_pointer { format!("&{}", t) } else { "Pt".into() }, text, if on_pointer { format!("&{}", t) } else { "Pt".into() });
		let detail = json!({"source": src, "result": o.summary()});
		if let Some(e) = &o.internal_error
		{
			out.fail(format!("internal error {}", e.chars().take(50).collect::<String>()), detail);
		}
		else if expect_ok && !o.ok
		{
			out.fail(format!("documented operator rejected: {} {:?}", label, o.codes), detail);
		}
		else if !expect_ok && o.ok
		{
			out.fail(format!("ill-typed operator accepted: {}", label), detail);
		}
		else if !expect_ok && !o.codes.iter().any(|c| (500..=552).contains(c))
		{
			out.fail(format!("ill-typed operator {} rejected with {:?}, none of which is a typing error", label, o.codes), detail);
		}
		if ctx.want_sample
		{
			out.sample = Some(json!({"source": src, "expected_accepted": expect_ok}));
		}
		out
	}
}

/// the documented array-to-view / slice coercions hold for the outermost
/// dimension only: every inner length and the element type must be identical
struct ArrayCoercions;
impl ArrayCoercions
{
	/// (argument type, parameter type, by pointer, accepted)
	fn cells() -> Vec<(String, String, bool, bool)>
	{
		let mut v = Vec::new();
		for by_pointer in [false, true]
		{
			let amp = if by_pointer { "&" } else { "" };
			for (ta, tp) in [("i32", "i32"), ("u8", "u8"), ("i32", "u8"), ("u16", "i16")]
			{
				// one dimension
				for k in 1..=3
				{
					v.push((format!("[{k}]{ta}"), format!("{amp}[]{tp}"), by_pointer, ta == tp));
				}
				// two dimensions
				for k in 2..=4
				{
					for n in 2..=4
					{
						v.push((format!("[2][{k}]{ta}"), format!("{amp}[][{n}]{tp}"), by_pointer, ta == tp && k == n));
					}
				}
			}
			// three dimensions
			for k in 2..=3
			{
				for n in 2..=3
				{
					for q in 2..=3
					{
						for r in 2..=3
						{
							v.push((format!("[2][{k}][{q}]i32"), format!("{amp}[][{n}][{r}]i32"), by_pointer, k == n && q == r));
						}
					}
				}
			}
		}
		v
	}
}
impl Stream for ArrayCoercions
{
	fn name(&self) -> String
	{
		"array-coercions".into()
	}
	fn count(&self, _tier: Tier) -> u64
	{
		Self::cells().len() as u64
	}
	fn exhaustive(&self) -> bool
	{
		true
	}
	fn run(&self, idx: u64, _c: &mut Choices, ctx: &RunCtx) -> CaseOut
	{
		let mut out = CaseOut::default();
		out.key = idx;
		out.nontrivial = true;
		let (arg, param, by_pointer, expect_ok) = Self::cells()[idx as usize].clone();
		let amp = if by_pointer { "&" } else { "" };
		let src = format!("fn f(x: {param})\n{{\n}}\n\nfn main() -> i32\n{{\n\tvar a: {arg};\n\tf({amp}a);\n\treturn: 0\n}}\n");
		let o = alpha::compile_modules(&[("main.pn".into(), src.clone())], alpha::Options::default());
		let label = format!("{} as {}", arg, param);
		let detail = json!({"source": src, "result": o.summary()});
		out.class(if expect_ok { "coercion:documented" } else { "coercion:ill-typed" });
		if let Some(e) = &o.internal_error
		{
			out.fail(format!("internal error {}", e.chars().take(50).collect::<String>()), detail);
		}
		else if expect_ok && !o.ok
		{
			out.fail(format!("documented coercion rejected: {} {:?}", label, o.codes), detail);
		}
		else if !expect_ok && o.ok
		{
			out.fail(format!("ill-typed argument accepted: {}", label), detail);
		}
		else if !expect_ok && !o.codes.iter().any(|c| (500..=552).contains(c))
		{
			out.fail(format!("ill-typed argument {} rejected with {:?}, none of which is a typing error", label, o.codes), detail);
		}
		if ctx.want_sample
		{
			out.sample = Some(json!({"source": src, "expected_accepted": expect_ok}));
		}
		out
	}
}

/// every accepted generated program satisfies the typing invariants
struct Invariants;
impl Stream for Invariants
{
	fn name(&self) -> String
	{
		"resolved-tree-invariants".into()
	}
	fn count(&self, tier: Tier) -> u64
	{
		tier.pick(12_000, 80_000)
	}
	fn choice_len(&self) -> usize
	{
		1600
	}
	fn run(&self, _idx: u64, c: &mut Choices, ctx: &RunCtx) -> CaseOut
	{
		let mut out = CaseOut::default();
		let prog = progen::generate(c, progen::Profile::exec());
		let src = print_program(&prog, Layout::plain(), None);
		out.key = fnv(&src);
		let o = alpha::compile_modules(
			&[("main.pn".into(), src.clone())],
			alpha::Options {
				keep_resolved: true,
				..Default::default()
			},
		);
		if !o.ok
		{
			out.discarded = Some("generated program not accepted (C01's subject)".into());
			return out;
		}
		let mut nodes = 0;
		for d in &o.resolved
		{
			nodes += d.len();
			for p in walk_resolved(d)
			{
				out.fail("accepted program violates a typing invariant", json!({"source": src, "problem": p}));
			}
		}
		out.nontrivial = nodes >= 3;
		if ctx.want_sample
		{
			out.sample = Some(json!({"source_head": src.chars().take(400).collect::<String>(), "declarations": nodes}));
		}
		out
	}
}

impl Check for C07
{
	fn id(&self) -> &'static str
	{
		"C07"
	}
	fn rule(&self) -> String
	{
		"(a) exhaustive matrix: 16 binary/comparison operators x 13 x 13 primitive operand types in a one-function module (2704 cells), plus 13 x 13 `as` casts and unary - and ! on every type (195 cells); (b) 20 kinds of typed edits with a known E5xx/E333 code (assignment, initialisation, argument type/count, operand mismatch, index type, index/length/member on a non-aggregate, address assignment, address depth, bool operand, casts to bool / pointer / from struct, member assignment, return value) over random pairs of integer types inside valid surroundings; (b2) well-typed generated programs with ONE type-breaking edit at a site whose required type is fixed by its surroundings — a value argument in any position of a call, a structure argument replaced by a literal of another structure, a typed initialiser, a return value, the right operand of an operator/comparison whose left operand has an evident type, an array index — replaced by a suffixed literal of another type: must be rejected with a typing code (E500-E552, E333); (b3) every operator on two pointers of one type (pointees i32, u8, bool, &i32, Pt) and on two structures: only == and != of pointers are accepted; (b4) every array argument [k]T, [2][k]T, [2][k][q]T given to a view or slice-pointer parameter []U, [][n]U, [][n][r]U (176 cells): only the outermost length may be dropped, every inner length and the element type must be identical; (c) a walker over the resolved trees of every accepted matrix cell and of generated programs asserting: both operands of every binary operator and comparison have the identical recorded type, operator classes (arithmetic on integers, bitwise/shift on u8..u128, negation on signed, ! on unsigned/bool, no ordering of pointers), initialiser/declared, argument/parameter, return value/return type identical (coercions are explicit Autocoerce nodes), primitive casts only between primitives, indices usize. Oracle: allowed cells accepted, forbidden cells rejected with E550/E551/E552; edits rejected with their code; invariants hold. Cells the docs do not settle (char8 arithmetic, usize bitwise/shift, bool ordering, identity casts) are run and walked but not asserted. Non-trivial: every case; distinct by source.".into()
	}
	fn assumptions(&self) -> Vec<String>
	{
		vec![
			"operator classes as listed in the property text and docs E550".into(),
			"the walker reads the types the compiler itself recorded in resolved::Expression nodes".into(),
		]
	}
	fn streams(&self) -> Vec<Box<dyn Stream>>
	{
		vec![Box::new(Matrix), Box::new(CastsAndUnary), Box::new(PointerMatrix),
			Box::new(ArrayCoercions), Box::new(Edits), Box::new(GeneratedEdits), Box::new(Invariants)]
	}
}
