//! C20 — rebuilt source parses back to the same tree.

use crate::choices::{fnv, Choices};
use crate::engine::*;
use crate::syngen;
use penne::alpha::rebuilder::{rebuild, Indentation};
use serde_json::json;

pub struct C20;

/// Debug dump of the first-generation tree with locations erased and the
/// recorded type of integer/char literals dropped (the property's allowances:
/// locations, spelling and type suffix of literals).
pub fn canon(decls: &[penne::alpha::common::Declaration]) -> String
{
	let dump = format!("{:?}", decls);
	// 1. drop `Location { ... }`
	let mut out = String::with_capacity(dump.len());
	let bytes = dump.as_bytes();
	let mut i = 0;
	while i < bytes.len()
	{
		if dump[i..].starts_with("Location {")
		{
			let mut depth = 0;
			let mut j = i;
			while j < bytes.len()
			{
				if bytes[j] == b'{'
				{
					depth += 1;
				}
				else if bytes[j] == b'}'
				{
					depth -= 1;
					if depth == 0
					{
						break;
					}
				}
				else if bytes[j] == b'"'
				{
					// skip the quoted file name
					j += 1;
					while j < bytes.len() && bytes[j] != b'"'
					{
						if bytes[j] == b'\\'
						{
							j += 1;
						}
						j += 1;
					}
				}
				j += 1;
			}
			out.push_str("L");
			i = j + 1;
		}
		else
		{
			// copy one char
			let ch = dump[i..].chars().next().unwrap();
			out.push(ch);
			i += ch.len_utf8();
		}
	}
	// 2. drop `value_type: ...` inside integer literal nodes
	let mut res = String::with_capacity(out.len());
	let mut rest = out.as_str();
	loop
	{
		let a = rest.find("IntegerLiteral { value: ");
		match a
		{
			None =>
			{
				res.push_str(rest);
				break;
			}
			Some(a) =>
			{
				let start = a + "IntegerLiteral { value: ".len();
				res.push_str(&rest[..start]);
				let tail = &rest[start..];
				let end_num = tail.find(',').unwrap_or(0);
				res.push_str(&tail[..end_num]);
				let close = tail.find(" }").unwrap_or(tail.len());
				res.push_str(" }");
				rest = &tail[(close + 2).min(tail.len())..];
			}
		}
	}
	// the two literal node kinds only differ in how the value was spelled
	res.replace("SignedIntegerLiteral", "IntegerLiteral").replace("BitIntegerLiteral", "IntegerLiteral")
}

fn judge(src: &str, class: &str, out: &mut CaseOut, want_sample: bool)
{
	out.key = fnv(src);
	crate::alpha::record_input(&[("m.pn".to_string(), src.to_string())]);
	let t1 = penne::alpha::parser::parse(penne::alpha::lexer::lex(src, "m.pn"));
	let dump1 = format!("{:?}", t1);
	if dump1.contains("Err(") || dump1.contains("Poison(")
	{
		out.discarded = Some("not an error-free parsed module".into());
		return;
	}
	let ind = Indentation {
		value: "\t",
		amount: 0,
	};
	let r1 = match rebuild(&t1, &ind)
	{
		Ok(r) => r,
		Err(e) =>
		{
			out.fail(format!("{}: rebuild fails: {}", class, e.to_string().chars().take(40).collect::<String>()), json!({"source": src}));
			return;
		}
	};
	let t2 = penne::alpha::parser::parse(penne::alpha::lexer::lex(&r1, "m.pn"));
	let dump2 = format!("{:?}", t2);
	if dump2.contains("Err(") || dump2.contains("Poison(")
	{
		// which marker, if any, makes it unparseable?
		let marker = if r1.contains("#?")
		{
			"unresolved structure type rebuilt with a '#?' marker"
		}
		else if r1.contains("struct#") || r1.contains("word8#") || r1.contains("word16#") || r1.contains("word32#") || r1.contains("word64#") || r1.contains("word128#")
		{
			"structure declaration rebuilt with a '#' marker"
		}
		else if r1.contains('#')
		{
			"rebuilt text contains a '#' marker"
		}
		else
		{
			"rebuilt text does not parse"
		};
		if t1.is_empty()
		{
			out.fail(
				"a module without declarations is rebuilt as a zero-byte file, which is E101",
				json!({"source": src, "rebuilt": r1}),
			);
			return;
		}
		let _ = class;
		out.fail(marker.to_string(), json!({"source": src, "rebuilt": r1}));
		return;
	}
	let (c1, c2) = (canon(&t1), canon(&t2));
	if c1 != c2
	{
		// first differing position, with context
		let pos = c1.bytes().zip(c2.bytes()).position(|(a, b)| a != b).unwrap_or(c1.len().min(c2.len()));
		let ctx = |s: &str| -> String {
			let a = pos.saturating_sub(80);
			let mut a2 = a;
			while !s.is_char_boundary(a2)
			{
				a2 += 1;
			}
			s[a2..].chars().take(200).collect()
		};
		// name the node kind just before the difference
		let kind: String = c1[..pos.min(c1.len())]
			.rsplit(|c: char| !(c.is_alphanumeric() || c == '_'))
			.find(|w| w.chars().next().map(|c| c.is_uppercase()).unwrap_or(false))
			.unwrap_or("?")
			.to_string();
		out.fail(
			format!("{}: re-parsed tree differs near {}", class, kind),
			json!({"source": src, "rebuilt": r1, "original_tree": ctx(&c1), "reparsed_tree": ctx(&c2)}),
		);
		return;
	}
	match rebuild(&t2, &ind)
	{
		Ok(r2) =>
		{
			if r2 != r1
			{
				out.fail(format!("{}: second rebuild is not byte-identical", class), json!({"source": src, "first": r1, "second": r2}));
			}
		}
		Err(e) => out.fail(format!("{}: second rebuild fails: {}", class, e), json!({"source": src})),
	}
	if want_sample
	{
		out.sample = Some(json!({"source": src, "rebuilt": r1}));
	}
}

struct Generated
{
	structs: bool,
}
impl Stream for Generated
{
	fn name(&self) -> String
	{
		if self.structs
		{
			"generated-with-structures".into()
		}
		else
		{
			"generated-without-structures".into()
		}
	}
	fn count(&self, tier: Tier) -> u64
	{
		tier.pick(if self.structs { 10_000 } else { 100_000 }, 300_000)
	}
	fn choice_len(&self) -> usize
	{
		900
	}
	fn stride(&self) -> u64
	{
		16
	}
	fn run(&self, _idx: u64, c: &mut Choices, ctx: &RunCtx) -> CaseOut
	{
		let mut out = CaseOut::default();
		let mut syn = syngen::Syn::new(c);
		syn.allow_builtins = false;
		syn.allow_structs = self.structs;
		let decls = syn.module(8);
		let src = syngen::render(&decls);
		let class = if self.structs { "S1" } else { "S0" };
		judge(&src, class, &mut out, ctx.want_sample);
		let kinds = decls.iter().filter(|d| d.is_function).count().min(1)
			+ decls.iter().filter(|d| d.head.starts_with("const")).count().min(1)
			+ decls.iter().filter(|d| d.is_import).count().min(1);
		out.nontrivial = kinds >= 2 || src.matches('{').count() >= 3;
		out
	}
}

struct Corpus;
impl Stream for Corpus
{
	fn name(&self) -> String
	{
		"repository-corpus".into()
	}
	fn count(&self, _tier: Tier) -> u64
	{
		crate::c15::corpus_files().len() as u64
	}
	fn exhaustive(&self) -> bool
	{
		true
	}
	fn run(&self, idx: u64, _c: &mut Choices, ctx: &RunCtx) -> CaseOut
	{
		let mut out = CaseOut::default();
		let files = crate::c15::corpus_files();
		let path = &files[idx as usize];
		let src = match std::fs::read_to_string(path)
		{
			Ok(s) => s,
			Err(_) =>
			{
				out.discarded = Some("not UTF-8".into());
				return out;
			}
		};
		// the property is about modules without builtin calls
		if penne::alpha::lexer::lex(&src, "m.pn")
			.iter()
			.any(|t| matches!(&t.result, Ok(penne::alpha::lexer::Token::Builtin(_))))
		{
			out.discarded = Some("module uses builtin calls".into());
			return out;
		}
		let has_struct = src.contains("struct ") || src.contains("word");
		judge(&src, if has_struct { "S1" } else { "S0" }, &mut out, ctx.want_sample);
		out.key = idx;
		out.nontrivial = true;
		out
	}
}

impl Check for C20
{
	fn id(&self) -> &'static str
	{
		"C20"
	}
	fn rule(&self) -> String
	{
		"grammar-generated modules without builtin calls covering every declaration / statement / type / expression form, in two classes: S0 without structure declarations or structure-typed names, S1 with them; plus every repository corpus file that parses without error and has no builtin call. Oracle: t1 = parse(lex(src)); r1 = rebuild(t1); t2 = parse(lex(r1)) has no poison; canon(t1) == canon(t2), where canon erases locations and the spelling/type of literals; rebuild(t2) == r1 byte for byte. Non-trivial: >= 2 declaration kinds or nesting depth >= 3; distinct by source.".into()
	}
	fn assumptions(&self) -> Vec<String>
	{
		vec![
			"canon = Debug dump of the pub AST with Location values erased and literal value types dropped".into(),
			"class S1 is expected to hit the recorded finding (structures are rebuilt with '#' markers); S0 continues the search behind it".into(),
		]
	}
	fn judge_bytes(&self, bytes: &[u8]) -> Option<CaseOut>
	{
		let mut out = CaseOut::default();
		if let Ok(src) = std::str::from_utf8(bytes)
		{
			// builtin calls are outside the property (print!, format!, ...)
			if !src.contains('!') || !penne::alpha::lexer::lex(src, "m.pn").iter().any(|t| matches!(&t.result, Ok(penne::alpha::lexer::Token::Builtin(_))))
			{
				judge(src, "any text", &mut out, false);
			}
		}
		Some(out)
	}
	fn fuzz_specs(&self, tier: Tier) -> Vec<FuzzSpec>
	{
		if tier == Tier::Quick
		{
			return Vec::new();
		}
		vec![FuzzSpec {
			target: "fuzz_roundtrip",
			runs_per_job: 200_000,
			jobs: 14,
			max_len: 2048,
			seeds: crate::c15::fuzz_seed_corpus(2048, 150),
			dictionary: crate::c15::fuzz_dictionary(),
		}]
	}
	fn streams(&self) -> Vec<Box<dyn Stream>>
	{
		vec![
			Box::new(Generated { structs: false }),
			Box::new(Generated { structs: true }),
			Box::new(Corpus),
		]
	}
}
