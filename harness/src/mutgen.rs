//! Inputs for the robustness and diagnostics checks (C02, C13): mutated
//! corpus files, generated programs with token faults, token soup, exhaustive
//! short token sequences in templates, and module sets with imports.

use crate::ast::{print_program, Layout};
use crate::c15::{corpus_files, mutate_bytes};
use crate::choices::Choices;
use crate::lexgen;
use crate::progen;
use crate::reflex;

pub struct Case
{
	pub files: Vec<(String, String)>,
	pub kind: &'static str,
	/// byte offset (in the first file) of a planted offending character, if any
	pub planted_at: Option<usize>,
}

thread_local! {
	static CORPUS: Vec<(String, String)> = corpus_files()
		.iter()
		.filter_map(|p| std::fs::read_to_string(p).ok().map(|s| (p.to_string_lossy().to_string(), s)))
		.collect();
}

pub fn corpus_len() -> usize
{
	CORPUS.with(|c| c.len())
}

pub fn corpus_file(i: usize) -> (String, String)
{
	CORPUS.with(|c| c[i % c.len().max(1)].clone())
}

const TOKEN_POOL: &[&str] = &[
	"fn", "var", "const", "if", "else", "goto", "loop", "as", "cast", "pub", "extern", "struct",
	"word8", "word64", "import", "i32", "u8", "usize", "bool", "void", "(", ")", "{", "}", "[",
	"]", ";", ":", ",", ".", "..", "=", "==", "!=", "<", ">", "<=", ">=", "<<", ">>", "+", "-",
	"*", "/", "%", "&", "|", "^", "!", "->", "|:", "x", "y", "main", "return", "0", "1", "255",
	"0xFF", "1u8", "true", "'a'", "\"s\"", "_", "print!", "|x|",
	// the other builtins (`panic!` is left to C02's probes: its value can be
	// used as an operand, which breaks the IR in as many ways as there are
	// operand positions - recorded, and kept out of the random streams)
	"dbg!", "abort!", "format!", "file!", "line!", "eprint!", "include_bytes!",
];

/// token-level edits on a source text (spans from the reference lexer)
pub fn token_faults(c: &mut Choices, src: &str, n: usize) -> String
{
	let mut text = src.to_string();
	for _ in 0..n
	{
		let toks = reflex::lex(text.as_bytes()).toks;
		if toks.is_empty()
		{
			break;
		}
		let i = c.draw(toks.len());
		let t = &toks[i];
		let (a, b) = (t.start.min(text.len()), t.end.min(text.len()));
		if !text.is_char_boundary(a) || !text.is_char_boundary(b) || a > b
		{
			continue;
		}
		match c.draw(6)
		{
			0 =>
			{
				text.replace_range(a..b, "");
			}
			1 =>
			{
				let dup = text[a..b].to_string();
				text.insert_str(b, &format!(" {}", dup));
			}
			2 =>
			{
				if i + 1 < toks.len()
				{
					let u = &toks[i + 1];
					let (x, y) = (u.start.min(text.len()), u.end.min(text.len()));
					if text.is_char_boundary(x) && text.is_char_boundary(y) && b <= x && x <= y
					{
						let first = text[a..b].to_string();
						let second = text[x..y].to_string();
						text.replace_range(x..y, &first);
						text.replace_range(a..b, &second);
					}
				}
			}
			3 =>
			{
				let r = *c.pick(TOKEN_POOL);
				text.replace_range(a..b, r);
			}
			4 =>
			{
				let r = *c.pick(&["(", ")", "{", "}", "[", "]"]);
				text.insert_str(a, &format!("{} ", r));
			}
			_ =>
			{
				let r = *c.pick(TOKEN_POOL);
				text.insert_str(a, &format!("{} ", r));
			}
		}
	}
	text
}

pub fn mutated_corpus(c: &mut Choices) -> Case
{
	let n = corpus_len().max(1);
	let (name, src) = corpus_file(c.draw(n));
	let (_, other) = corpus_file(c.draw(n));
	let text = match c.draw(3)
	{
		0 => src,
		1 =>
		{
			let mut bytes = src.into_bytes();
			mutate_bytes(c, &mut bytes, other.as_bytes());
			// the first-generation pipeline takes text: keep it valid UTF-8
			String::from_utf8_lossy(&bytes).to_string()
		}
		_ =>
		{
			let k = 1 + c.draw(3);
			token_faults(c, &src, k)
		}
	};
	let _ = name;
	Case {
		files: vec![("main.pn".into(), text)],
		kind: "mutated-corpus",
		planted_at: None,
	}
}

pub fn faulted_program(c: &mut Choices) -> Case
{
	let prog = progen::generate(c, progen::Profile::exec());
	let layout = if c.flag() { Layout::plain() } else { Layout::random(c) };
	let src = print_program(&prog, layout, None);
	let k = 1 + c.draw(3);
	let text = token_faults(c, &src, k);
	Case {
		files: vec![("main.pn".into(), text)],
		kind: "faulted-program",
		planted_at: None,
	}
}

pub fn token_soup(c: &mut Choices) -> Case
{
	let mut s = String::new();
	let wrap = c.draw(3);
	if wrap == 1
	{
		s.push_str("fn f(x: i32, y: []u8) -> i32\n{\n");
	}
	else if wrap == 2
	{
		s.push_str("fn f(x: i32) -> i32\n{\n\tvar y: i32 = ");
	}
	let n = 1 + c.draw(60);
	let mut depth: i32 = 0;
	for _ in 0..n
	{
		let t = *c.pick(TOKEN_POOL);
		match t
		{
			"(" | "{" | "[" =>
			{
				if depth > 200
				{
					continue;
				}
				depth += 1;
			}
			")" | "}" | "]" => depth -= 1,
			_ => (),
		}
		s.push_str(t);
		s.push_str(if c.chance(1, 8) { "\n" } else { " " });
	}
	if wrap == 1
	{
		s.push_str("\n\treturn: x\n}\n");
	}
	else if wrap == 2
	{
		s.push_str(";\n\treturn: y\n}\n");
	}
	if s.is_empty()
	{
		s.push(' ');
	}
	Case {
		files: vec![("main.pn".into(), s)],
		kind: "token-soup",
		planted_at: None,
	}
}

pub const SEQ_ALPHABET: &[&str] = &[
	"x", "1", "+", "-", "=", "==", ";", ":", ",", "(", ")", "{", "}", "[", "]", "&", "|", "if",
	"goto", "var", "loop", "as", "i32", ".",
];

pub fn exhaustive_count(max_len: u32) -> u64
{
	3 * lexgen::enum_count(SEQ_ALPHABET.len() as u64, max_len)
}

pub fn exhaustive_sequence(idx: u64, max_len: u32) -> Case
{
	let template = idx % 3;
	let mut i = idx / 3;
	let k = SEQ_ALPHABET.len() as u64;
	let mut len = 1;
	let mut block = k;
	while len < max_len && i >= block
	{
		i -= block;
		len += 1;
		block *= k;
	}
	let mut toks = Vec::new();
	for _ in 0..len
	{
		toks.push(SEQ_ALPHABET[(i % k) as usize]);
		i /= k;
	}
	toks.reverse();
	let seq = toks.join(" ");
	let src = match template
	{
		0 => format!("{}\n", seq),
		1 => format!("fn f(x: i32) -> i32\n{{\n\t{}\n\treturn: x\n}}\n", seq),
		_ => format!("fn f(x: i32) -> i32\n{{\n\tvar y: i32 = {};\n\treturn: y\n}}\n", seq),
	};
	Case {
		files: vec![("main.pn".into(), src)],
		kind: "exhaustive-sequence",
		planted_at: None,
	}
}

/// 2-3 files taken from the other streams, with imports between them
pub fn module_set(c: &mut Choices) -> Case
{
	let n = 2 + c.draw(2);
	let mut files = Vec::new();
	for k in 0..n
	{
		// Two recorded defects would otherwise dominate this stream and are
		// exercised by fixed probes instead: several modules defining `main`
		// (LLVM's linker exits the process) and private structures of the same
		// name in two modules. Entry points and structure names are made
		// distinct per file.
		let distinct = |prog: &mut crate::ast::Program| {
			if k + 1 < n
			{
				if let Some(m) = prog.funcs.iter_mut().find(|f| f.name == "main")
				{
					m.name = format!("entry{}", k);
				}
			}
			for st in prog.structs.iter_mut()
			{
				st.name = format!("M{}{}", k, st.name);
			}
			for (i, f) in prog.funcs.iter_mut().enumerate()
			{
				if f.name != "main" && !f.name.starts_with("entry")
				{
					f.name = format!("m{}f{}", k, i);
				}
			}
		};
		let mut inner = match c.draw(3)
		{
			0 =>
			{
				let mut case = mutated_corpus(c);
				if k + 1 < n
				{
					case.files[0].1 = case.files[0].1.replace("fn main(", &format!("fn main{}(", k));
				}
				case
			}
			1 =>
			{
				let mut prog = progen::generate(c, progen::Profile::exec());
				distinct(&mut prog);
				let src = print_program(&prog, Layout::plain(), None);
				let faults = 1 + c.draw(3);
				Case {
					files: vec![("x".into(), token_faults(c, &src, faults))],
					kind: "faulted",
					planted_at: None,
				}
			}
			_ =>
			{
				// a valid program
				let mut prog = progen::generate(c, progen::Profile::exec());
				distinct(&mut prog);
				Case {
					files: vec![("x".into(), print_program(&prog, Layout::plain(), None))],
					kind: "valid",
					planted_at: None,
				}
			}
		};
		let mut text = inner.files.remove(0).1;
		// imports of the other files (also of itself, and of a missing file)
		for j in 0..n
		{
			if c.chance(1, 3)
			{
				text = format!("import \"m{}.pn\";\n{}", j, text);
			}
		}
		if c.chance(1, 10)
		{
			text = format!("import \"missing.pn\";\n{}", text);
		}
		files.push((format!("m{}.pn", k), text));
	}
	Case {
		files,
		kind: "module-set",
		planted_at: None,
	}
}

/// a single offending character planted into a valid program, with
/// multi-byte characters and CRLF before it (for location checks)
pub fn planted_lexical(c: &mut Choices) -> Case
{
	let prog = progen::generate(c, progen::Profile::exec());
	let mut layout = Layout::plain();
	layout.comments = 3;
	layout.crlf = c.chance(1, 3);
	let src = print_program(&prog, layout, Some(c));
	let toks = reflex::lex(src.as_bytes()).toks;
	if toks.is_empty()
	{
		return Case {
			files: vec![("main.pn".into(), "@".into())],
			kind: "planted-lexical",
			planted_at: Some(0),
		};
	}
	let t = &toks[c.draw(toks.len())];
	let at = t.start;
	let bad = *c.pick(&["@", "#", "$", "?", "`", "~", "\\", "\u{e9}", "\u{20ac}"]);
	let mut text = src.clone();
	if text.is_char_boundary(at)
	{
		text.insert_str(at, &format!("{} ", bad));
	}
	Case {
		files: vec![("main.pn".into(), text)],
		kind: "planted-lexical",
		planted_at: Some(at),
	}
}
