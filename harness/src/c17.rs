//! C17 — the extracted header is exactly the public interface.

use crate::c16::delta_parse;
use crate::choices::{fnv, Choices};
use crate::engine::*;
use crate::syngen::{self, DeclParts};
use crate::synterm;
use serde_json::json;

pub struct C17;

fn judge(decls: &[DeclParts], out: &mut CaseOut, want_sample: bool)
{
	let src = syngen::render(decls);
	out.key = fnv(&src);
	crate::alpha::record_input(&[("m.pn".to_string(), src.clone())]);
	let full = delta_parse(&src);
	if !full.lex_codes.is_empty() || !full.parse_codes.is_empty()
	{
		// validity of the module is C16's subject
		out.discarded = Some("module not accepted by the second-generation parser".into());
		return;
	}
	// the expected header: pub declarations only, `pub` removed, no bodies
	let expected_text: String = decls
		.iter()
		.filter_map(|d| d.header_text())
		.map(|t| format!("{}\n\n", t))
		.collect();
	let npub = decls.iter().filter(|d| d.public).count();
	let detail = |extra: serde_json::Value| json!({"source": src, "expected_header_source": expected_text, "header_xml": full.header_xml.iter().take(80).collect::<Vec<_>>(), "extra": extra});
	if full.header_declarations != npub
	{
		out.fail(
			format!("header has {} declarations for {} pub declarations", full.header_declarations.min(99), npub.min(99)).replace(char::is_numeric, "#"),
			detail(json!({"header_declarations": full.header_declarations, "pub_declarations": npub})),
		);
		return;
	}
	let got = match synterm::module_delta(&full.header_xml)
	{
		Ok(t) => t,
		Err(e) =>
		{
			let class: String = e.split(": ").skip(1).collect::<Vec<_>>().join(": ").chars().map(|c| if c.is_ascii_digit() { '#' } else { c }).take(60).collect();
			out.fail(format!("header XML dump is not well formed: {}", class), detail(json!({"problem": e})));
			return;
		}
	};
	let want = if expected_text.trim().is_empty()
	{
		synterm::T::L(vec![])
	}
	else
	{
		let exp = delta_parse(&expected_text);
		if !exp.lex_codes.is_empty() || !exp.parse_codes.is_empty()
		{
			out.fail(
				"harness: expected header text does not parse",
				json!({"expected_header_source": expected_text, "codes": [exp.lex_codes, exp.parse_codes]}),
			);
			return;
		}
		match synterm::module_delta(&exp.xml)
		{
			Ok(t) => t,
			Err(e) =>
			{
				out.fail("harness: expected header XML unreadable", json!({"problem": e}));
				return;
			}
		}
	};
	if let Some((path, a, b)) = synterm::first_difference(&want, &got)
	{
		let where_: String = path.split('/').rev().take(2).collect::<Vec<_>>().join("<-");
		out.fail(
			format!("header differs from the public interface at {}", where_),
			detail(json!({"path": path, "expected": a.chars().take(300).collect::<String>(), "header": b.chars().take(300).collect::<String>()})),
		);
		return;
	}
	// nothing private leaks: the unique names of private declarations do not
	// occur anywhere in the header dump
	let dump = full.header_xml.join("\n");
	for d in decls.iter().filter(|d| !d.public && !d.is_import)
	{
		if let Some(name) = d
			.head
			.split(|c: char| !(c.is_alphanumeric() || c == '_'))
			.find(|w| w.starts_with("func_") || w.starts_with("CONST_") || w.starts_with("Struct"))
		{
			// a public constant or signature may legitimately mention it
			if !expected_text.contains(name) && dump.contains(&format!("\"{}\"", name))
			{
				out.fail("private declaration appears in the header", detail(json!({"name": name})));
				return;
			}
		}
	}
	let mask: String = decls.iter().map(|d| if d.public { 'P' } else { '-' }).collect();
	out.nontrivial = mask.contains("P-") && mask.rfind('P').map(|i| i > mask.find('-').unwrap_or(0)).unwrap_or(false)
		|| decls.iter().any(|d| d.public && d.body.as_ref().map(|b| b.lines().count() > 2).unwrap_or(false));
	if want_sample
	{
		out.sample = Some(json!({"source": src, "mask": mask, "expected_header_source": expected_text}));
	}
}

struct RandomModules;
impl Stream for RandomModules
{
	fn name(&self) -> String
	{
		"random-modules".into()
	}
	fn count(&self, tier: Tier) -> u64
	{
		tier.pick(200_000, 500_000)
	}
	fn choice_len(&self) -> usize
	{
		1200
	}
	fn stride(&self) -> u64
	{
		16
	}
	fn run(&self, _idx: u64, c: &mut Choices, ctx: &RunCtx) -> CaseOut
	{
		let mut out = CaseOut::default();
		let mut decls = syngen::Syn::new(c).module(12);
		// an import can be public too (it is then part of the header)
		for d in decls.iter_mut()
		{
			if d.is_import && c.flag()
			{
				d.public = true;
			}
		}
		judge(&decls, &mut out, ctx.want_sample);
		out
	}
}

/// every pub/private pattern over the first n declarations of a fixed pool
struct ExhaustiveMasks;
fn pool() -> Vec<DeclParts>
{
	let f = |head: &str, body: Option<&str>, is_function: bool, external: bool| DeclParts {
		public: false,
		external,
		head: head.to_string(),
		body: body.map(|b| b.to_string()),
		is_function,
		is_import: false,
		has_struct: false,
		has_builtin: false,
	};
	let long_body: String = {
		let mut b = String::from("{\n");
		for i in 0..60
		{
			b.push_str(&format!("\tvar t{}: i32 = helper(x + {}) * secret[{}].field;\n", i, i, i));
			b.push_str(&format!("\tif t{} == x goto end;\n", i));
		}
		b.push_str("\tend:\n\treturn: x\n}");
		b
	};
	vec![
		f("fn func_1(x: i32) -> i32", Some(&long_body), true, false),
		f("const CONST_2: [3]u8 = [1, 2, 0xFF];", None, false, false),
		f("struct Struct3\n{\n\tleft: i32,\n\tright: &Struct3,\n}", None, false, false),
		f("fn func_4()", Some("{\n}"), true, false),
		f("word64 Struct5\n{\n\tlo: u32,\n\thi: u32,\n}", None, false, false),
		f("fn func_6(buffer: []u8, length: usize) -> i32", None, true, true),
		f("const CONST_7: usize = |:Struct3| + 2 * CONST_9 as usize;", None, false, false),
		f("fn func_8(a: &[]i64, b: &&u128)", Some("{\n\tvar p = Struct3 { left: 1, right: &p };\n\ta[0] = b as i64;\n\tloop;\n}"), true, false),
		f("struct Struct9;", None, false, false),
		f("fn func_10() -> bool", Some("{\n\treturn: true\n}"), true, false),
	]
}
impl Stream for ExhaustiveMasks
{
	fn name(&self) -> String
	{
		"exhaustive-pub-masks".into()
	}
	fn count(&self, tier: Tier) -> u64
	{
		// masks over the first n declarations, n = 1..=N, for every rotation of the pool
		let n = tier.pick(8, 10);
		((1u64 << (n + 1)) - 2) * 10
	}
	fn exhaustive(&self) -> bool
	{
		true
	}
	fn stride(&self) -> u64
	{
		64
	}
	fn run(&self, idx: u64, _c: &mut Choices, ctx: &RunCtx) -> CaseOut
	{
		let mut out = CaseOut::default();
		let rotation = (idx % 10) as usize;
		let mut k = idx / 10;
		let mut n = 1;
		while k >= (1u64 << n)
		{
			k -= 1u64 << n;
			n += 1;
		}
		let mut p = pool();
		p.rotate_left(rotation);
		let mut decls: Vec<DeclParts> = p.into_iter().take(n).collect();
		for (i, d) in decls.iter_mut().enumerate()
		{
			d.public = (k >> i) & 1 == 1;
		}
		judge(&decls, &mut out, ctx.want_sample || idx % 1013 == 7);
		out.key = idx;
		out
	}
}

/// private zones of tens of thousands of parse nodes in front of public
/// declarations (the header renumbers every node reference by the number of
/// nodes skipped before it)
struct LargePrivateZones;
const ZONE_TERMS: &[usize] = &[4000, 15_000, 16_300, 16_400, 17_000, 24_000, 33_000, 50_000];
impl Stream for LargePrivateZones
{
	fn name(&self) -> String
	{
		"large-private-zones".into()
	}
	fn count(&self, _tier: Tier) -> u64
	{
		(ZONE_TERMS.len() * 10 * 2) as u64
	}
	fn exhaustive(&self) -> bool
	{
		true
	}
	fn run(&self, idx: u64, _c: &mut Choices, ctx: &RunCtx) -> CaseOut
	{
		let mut out = CaseOut::default();
		let terms = ZONE_TERMS[(idx as usize / 20) % ZONE_TERMS.len()];
		let rotation = (idx as usize / 2) % 10;
		let split_zone = idx % 2 == 1;
		// (a long body of short statements: statement lists are dumped
		// iteratively, whereas one long expression chain overflows the stack
		// of the XML dump - recorded under C15)
		let chain = |n: usize, name: &str| DeclParts {
			public: false,
			external: false,
			head: format!("fn {}(a: i32)", name.to_lowercase()),
			body: Some(format!("{{\n\tvar x: i32 = a;\n{}}}", "\tx = a + a * x;\n".repeat(n / 2))),
			is_function: true,
			is_import: false,
			has_struct: false,
			has_builtin: false,
		};
		let mut p = pool();
		p.rotate_left(rotation);
		let mut decls: Vec<DeclParts> = Vec::new();
		if split_zone
		{
			// two private zones with a public declaration between them
			decls.push(chain(terms / 2, "CONST_P1"));
			let mut d = p[0].clone();
			d.public = true;
			decls.push(d);
			decls.push(chain(terms - terms / 2, "CONST_P2"));
		}
		else
		{
			decls.push(chain(terms, "CONST_P1"));
		}
		for d in p.iter().skip(1).take(4)
		{
			let mut d = d.clone();
			d.public = true;
			decls.push(d);
		}
		judge(&decls, &mut out, ctx.want_sample && terms <= 4000);
		out.key = idx;
		out.nontrivial = true;
		out.class(format!("private-chain-terms:{}", terms));
		out
	}
}

impl Check for C17
{
	fn id(&self) -> &'static str
	{
		"C17"
	}
	fn rule(&self) -> String
	{
		"(a) every pub/private mask over the first n = 1..8 (quick) / 1..10 (thorough) declarations of every rotation of a fixed pool of 10 declaration shapes (function with a 120-statement body, empty function, extern function head, constants, struct with a pointer to itself, word, opaque struct, function with pointer parameters) — exhaustive; (b) grammar-generated modules of 1-12 declarations of every kind with random pub/extern flags (imports public or not); (c) a private function whose body has 2 000 - 25 000 statements (16 000 - 200 000 parse nodes, around and beyond 2^16), in one piece or split around a public declaration, followed by four public declarations of the pool - 160 modules. Oracle: H = parse(M).build_header(); M' = the pub declarations of M in order, `pub` removed, bodies replaced by `;`, printed and parsed by the same parser; canon(H.as_xml) == canon(parse(M').as_xml); H.num_declarations == number of pub declarations; the unique name of every private declaration is absent from H's dump. Non-trivial: a private zone between two public declarations, or a public function with a non-empty body; distinct by (mask, rotation) / source.".into()
	}
	fn assumptions(&self) -> Vec<String>
	{
		vec![
			"modules the second-generation parser does not accept are discarded (C16's subject)".into(),
			"canonical terms via the strict XML reader of harness/src/synterm.rs".into(),
		]
	}
	fn streams(&self) -> Vec<Box<dyn Stream>>
	{
		vec![Box::new(ExhaustiveMasks), Box::new(RandomModules), Box::new(LargePrivateZones)]
	}
}
