//! Token-level generator with known expected tokens (used by C14, C15, C19).

use crate::choices::Choices;
use crate::reflex::{self, NTok};

pub const ALPHABET: &[&str] = &[
	"a", "z", "A", "_", "0", "1", "2", "9", "x", "b", "u", "i", "8", "f", "(", ")", "{", "}",
	"[", "]", "<", ">", "|", "&", "^", "!", "+", "-", "*", "/", "%", ":", ";", ".", ",", "=",
	"'", "\"", "\\", " ", "\t", "\n", "\r", "\u{e9}", "\u{20ac}", "\0", "n", "e",
];

pub fn enum_string(mut idx: u64, alphabet: &[&str], max_len: u32) -> String
{
	// lengths 1..=max_len in order
	let k = alphabet.len() as u64;
	let mut len = 1;
	let mut block = k;
	while len < max_len && idx >= block
	{
		idx -= block;
		len += 1;
		block *= k;
	}
	let mut s = String::new();
	let mut digits = Vec::new();
	for _ in 0..len
	{
		digits.push((idx % k) as usize);
		idx /= k;
	}
	for d in digits.iter().rev()
	{
		s.push_str(alphabet[*d]);
	}
	s
}

pub fn enum_count(alphabet_len: u64, max_len: u32) -> u64
{
	let mut total = 0;
	let mut block = 1;
	for _ in 0..max_len
	{
		block *= alphabet_len;
		total += block;
	}
	total
}

const SAFE_GLUE: &[&str] = &["(", ")", "{", "}", "[", "]", ";", ",", "+", "*", "%", "^", "&"];

fn ident(c: &mut Choices) -> String
{
	const FIRST: &[u8] = b"abcxyzfiuwABCXYZ_";
	const REST: &[u8] = b"abcxyzfiuw019_ABCXYZ8";
	loop
	{
		let mut s = String::new();
		s.push(*c.pick(FIRST) as char);
		let n = c.draw(8);
		for _ in 0..n
		{
			s.push(*c.pick(REST) as char);
		}
		if s == "_"
			|| s == "true" || s == "false"
			|| s == "return"
			|| reflex::KEYWORDS.contains(&s.as_str())
			|| reflex::TYPES.contains(&s.as_str())
		{
			if c.exhausted()
			{
				return "a1".to_string();
			}
			continue;
		}
		return s;
	}
}

fn boundary_value(c: &mut Choices) -> u128
{
	let bits = *c.pick(&[0u32, 1, 7, 8, 15, 16, 31, 32, 63, 64, 127, 128]);
	let base: u128 = if bits == 128 { u128::MAX } else { (1u128 << bits) - 1 };
	match c.draw(4)
	{
		0 => base,
		1 => base.wrapping_add(1),
		2 => base / 2,
		_ =>
		{
			let r = c.u128();
			if bits == 0 { r & 0xff } else if bits == 128 { r } else { r & base }
		}
	}
}

fn with_underscores(c: &mut Choices, digits: &str) -> String
{
	// underscores only after the first digit
	let mut s = String::new();
	for (i, ch) in digits.chars().enumerate()
	{
		s.push(ch);
		if i + 1 < digits.len() || c.chance(1, 8)
		{
			if c.chance(1, 6)
			{
				s.push('_');
				if c.chance(1, 6)
				{
					s.push('_');
				}
			}
		}
	}
	s
}

pub fn spell_decimal(c: &mut Choices, v: u128) -> String
{
	if v == 0
	{
		// "0" followed by anything is a different lexeme class
		return "0".to_string();
	}
	let d = v.to_string();
	if c.chance(1, 3)
	{
		with_underscores(c, &d)
	}
	else
	{
		d
	}
}

pub fn spell_hex(c: &mut Choices, v: u128) -> String
{
	let mut d = format!("{:x}", v);
	if c.chance(1, 4)
	{
		let width = *c.pick(&[2usize, 4, 8, 16, 32]);
		while d.len() < width
		{
			d.insert(0, '0');
		}
	}
	let d: String = d
		.chars()
		.map(|ch| match c.draw(3)
		{
			1 => ch.to_ascii_uppercase(),
			_ => ch,
		})
		.collect();
	let body = if c.chance(1, 3) { with_underscores(c, &d) } else { d };
	let lead = if c.chance(1, 8) { "_" } else { "" };
	format!("0x{}{}", lead, body)
}

pub fn spell_bin(c: &mut Choices, v: u128) -> String
{
	let mut d = format!("{:b}", v);
	if c.chance(1, 4)
	{
		let width = *c.pick(&[8usize, 16, 32, 64, 128]);
		while d.len() < width
		{
			d.insert(0, '0');
		}
	}
	let body = if c.chance(1, 3) { with_underscores(c, &d) } else { d };
	format!("0b{}", body)
}

/// spell the byte string `bytes` as the inside of a quoted literal
pub fn spell_bytes(c: &mut Choices, bytes: &[u8], quote: u8) -> String
{
	// work on scalar values where the bytes are valid UTF-8, else bytewise
	let mut s = String::new();
	let mut i = 0;
	while i < bytes.len()
	{
		let b = bytes[i];
		// try a multi-byte scalar
		if b >= 0x80
		{
			let mut len = 0;
			for l in 2..=4
			{
				if i + l <= bytes.len()
				{
					if let Ok(t) = std::str::from_utf8(&bytes[i..i + l])
					{
						if t.chars().count() == 1
						{
							len = l;
							break;
						}
					}
				}
			}
			if len > 0
			{
				let t = std::str::from_utf8(&bytes[i..i + len]).unwrap();
				let ch = t.chars().next().unwrap();
				if quote == b'"' && c.chance(1, 2)
				{
					let digits = match c.draw(3)
					{
						0 => format!("{:x}", ch as u32),
						1 => format!("{:X}", ch as u32),
						_ => format!("{:06x}", ch as u32),
					};
					s.push_str(&format!("\\u{{{}}}", digits));
				}
				else if c.flag()
				{
					s.push(ch);
				}
				else
				{
					for k in 0..len
					{
						s.push_str(&format!("\\x{:02x}", bytes[i + k]));
					}
				}
				i += len;
				continue;
			}
			s.push_str(&format!("\\x{:02X}", b));
			i += 1;
			continue;
		}
		let named = match b
		{
			b'\n' => Some("\\n"),
			b'\r' => Some("\\r"),
			b'\t' => Some("\\t"),
			b'\\' => Some("\\\\"),
			0 => Some("\\0"),
			_ => None,
		};
		if let Some(n) = named
		{
			if c.chance(1, 4)
			{
				s.push_str(&format!("\\x{:02x}", b));
			}
			else
			{
				s.push_str(n);
			}
		}
		else if b == quote
		{
			s.push('\\');
			s.push(b as char);
		}
		else if b == b'\'' || b == b'"'
		{
			if c.flag()
			{
				s.push('\\');
			}
			s.push(b as char);
		}
		else if b == b' ' || b.is_ascii_graphic()
		{
			match c.draw(8)
			{
				7 => s.push_str(&format!("\\x{:02x}", b)),
				6 if quote == b'"' => s.push_str(&format!("\\u{{{:x}}}", b)),
				_ => s.push(b as char),
			}
		}
		else
		{
			if quote == b'"' && c.chance(1, 3)
			{
				s.push_str(&format!("\\u{{{:X}}}", b));
			}
			else
			{
				s.push_str(&format!("\\x{:02x}", b));
			}
		}
		i += 1;
	}
	s
}

pub fn random_bytes(c: &mut Choices, max: usize) -> Vec<u8>
{
	let n = c.draw(max + 1);
	let mut v = Vec::new();
	while v.len() < n
	{
		match c.draw(6)
		{
			0 | 1 | 2 => v.push(0x20 + c.draw(0x5f) as u8),
			3 => v.push(c.draw(256) as u8),
			4 =>
			{
				let ch = *c.pick(&['\u{e9}', '\u{20ac}', '\u{1F35D}', '\u{a3}']);
				let mut b = [0u8; 4];
				v.extend_from_slice(ch.encode_utf8(&mut b).as_bytes());
			}
			_ => v.push(*c.pick(&[0u8, 9, 10, 13, 0x7f, b'\\', b'"', b'\''])),
		}
	}
	v
}

/// one valid token: (spelling, kind)
pub fn gen_token(c: &mut Choices) -> (String, String)
{
	match c.weighted(&[10, 8, 4, 10, 2, 1, 8, 6, 6, 6, 2, 6])
	{
		0 =>
		{
			let all: Vec<&str> =
				reflex::PUNCT1.iter().chain(reflex::PUNCT2.iter()).copied().collect();
			let p = *c.pick(&all);
			(p.to_string(), format!("P{}", p))
		}
		1 =>
		{
			let k = *c.pick(reflex::KEYWORDS);
			(k.to_string(), format!("K{}", k))
		}
		2 =>
		{
			let k = *c.pick(reflex::TYPES);
			(k.to_string(), format!("T{}", k))
		}
		3 =>
		{
			let s = ident(c);
			(s.clone(), format!("I{}", s))
		}
		4 =>
		{
			let s = ident(c);
			(format!("{}!", s), format!("B{}", s))
		}
		5 => ("_".to_string(), "_".to_string()),
		6 =>
		{
			let v = boundary_value(c);
			(spell_decimal(c, v), format!("N{}", v))
		}
		7 =>
		{
			let v = boundary_value(c);
			let s = if c.flag() { spell_hex(c, v) } else { spell_bin(c, v) };
			(s, format!("X{}", v))
		}
		8 =>
		{
			let v = boundary_value(c);
			let suffix = *c.pick(reflex::SUFFIXES);
			let s = match c.draw(3)
			{
				0 => spell_decimal(c, v),
				1 => spell_hex(c, v),
				_ => spell_bin(c, v),
			};
			// a hex literal would swallow a suffix starting with a hex digit;
			// no integer suffix does, and `b` of 0b.. is not a suffix letter
			(format!("{}{}", s, suffix), format!("S{}:{}", v, suffix))
		}
		9 =>
		{
			let b = match c.draw(4)
			{
				0 => 0x20 + c.draw(0x5f) as u8,
				_ => c.draw(256) as u8,
			};
			// a char literal is one byte: bytes >= 0x80 must be spelled \xHH
			let inner = if b >= 0x80
			{
				format!("\\x{:02x}", b)
			}
			else
			{
				spell_bytes(c, &[b], b'\'')
			};
			// \u escapes are not char-literal syntax (tests/parsing.rs)
			let inner = if inner.starts_with("\\u")
			{
				format!("\\x{:02x}", b)
			}
			else
			{
				inner
			};
			(format!("'{}'", inner), format!("C{}", b))
		}
		10 =>
		{
			if c.flag()
			{
				("true".into(), "L1".into())
			}
			else
			{
				("false".into(), "L0".into())
			}
		}
		_ =>
		{
			let bytes = random_bytes(c, 12);
			let inner = spell_bytes(c, &bytes, b'"');
			(format!("\"{}\"", inner), format!("Q{}", reflex::hex(&bytes)))
		}
	}
}

pub fn gen_separator(c: &mut Choices, allow_crlf: bool, must: bool) -> String
{
	let mut s = String::new();
	let n = if must { 1 + c.draw(3) } else { c.draw(3) };
	for _ in 0..n
	{
		match c.draw(7)
		{
			0 | 1 | 2 => s.push(' '),
			3 => s.push('\t'),
			4 => s.push('\n'),
			5 =>
			{
				if allow_crlf
				{
					s.push_str("\r\n")
				}
				else
				{
					s.push('\n')
				}
			}
			_ =>
			{
				s.push_str("//");
				let k = c.draw(10);
				for _ in 0..k
				{
					let ch = *c.pick(&[
						'a', ' ', '"', '\'', '\\', '/', '\u{e9}', '\u{20ac}', '0', '!', '\t',
						'{',
					]);
					s.push(ch);
				}
				s.push('\n');
			}
		}
	}
	s
}

pub fn needs_separator(a: &str, b: &str) -> bool
{
	!(SAFE_GLUE.contains(&a) || SAFE_GLUE.contains(&b))
}

/// A token sequence with its expected normalised tokens.
pub fn gen_token_stream(
	c: &mut Choices,
	max_tokens: usize,
	allow_crlf: bool,
) -> (String, Vec<NTok>)
{
	let n = 1 + c.draw(max_tokens);
	let mut src = String::new();
	let mut toks = Vec::new();
	let mut line = 1;
	let mut prev: Option<String> = None;
	src.push_str(&gen_separator(c, allow_crlf, false));
	line += src.matches('\n').count();
	for _ in 0..n
	{
		let (sp, kind) = gen_token(c);
		if let Some(p) = &prev
		{
			let must = needs_separator(p, &sp);
			let mut sep = gen_separator(c, allow_crlf, must);
			if p.ends_with('/') && sep.starts_with('/')
			{
				// "/" directly followed by a "//" comment would itself start a comment
				sep.insert(0, ' ');
			}
			line += sep.matches('\n').count();
			src.push_str(&sep);
		}
		let start = src.len();
		src.push_str(&sp);
		toks.push(NTok {
			kind,
			start,
			end: src.len(),
			line,
		});
		prev = Some(sp);
	}
	let mut tail = gen_separator(c, allow_crlf, false);
	if prev.as_deref().map(|p| p.ends_with('/')).unwrap_or(false) && tail.starts_with('/')
	{
		tail.insert(0, ' ');
	}
	src.push_str(&tail);
	(src, toks)
}

/// malformed lexemes with their documented code; `eol` = must be followed by a
/// line end
pub const MALFORMED: &[(&str, u16, bool)] = &[
	("0x", 141, false),
	("0b", 141, false),
	("0b2", 141, false),
	("09", 141, false),
	("00", 141, false),
	("0_", 141, false),
	("123abc", 141, false),
	("1u9", 141, false),
	("12i", 141, false),
	("0xFFu7", 141, false),
	("7usiz", 141, false),
	("1_i8_", 141, false),
	("340282366920938463463374607431768211456", 140, false),
	("340282366920938463463374607431768211456u128", 140, false),
	("999999999999999999999999999999999999999999", 140, false),
	("0x100000000000000000000000000000000", 140, false),
	("0xd4045dc99922412cb66d928de35d6ff91", 140, false),
	("0b111111111111111111111111111111111111111111111111111111111111111111111111111111111111111111111111111111111111111111111111111111111", 140, false),
	("\"abc", 160, true),
	("\"", 160, true),
	("'", 160, true),
	("'a", 160, true),
	("\"abc\\", 161, true),
	("'\\", 161, true),
	("\"\\q\"", 162, false),
	("\"C:\\Program Files\"", 162, false),
	("\"\\x4\"", 162, false),
	("\"\\x4g\"", 162, false),
	("\"\\xg4\"", 162, false),
	("\"\\u{110000}\"", 162, false),
	("\"\\u{D800}\"", 162, false),
	("\"\\u{}\"", 162, false),
	("\"\\u{12\"", 162, false),
	("\"\\u12\"", 162, false),
	("\"\\u{12g}\"", 162, false),
	// two faults in one literal: the first one is reported
	("\"a\tb \\q\"", 110, false),
	("\"\\q a\tb\"", 162, false),
	("\"\\u{110000} and \\q\"", 162, false),
	("\"\\x4g and \\q\"", 162, false),
	("\"\\q and \\u{D800}\"", 162, false),
	("\"a\0b \\q\"", 110, false),
	("'\\q'", 162, false),
	("'\\x4'", 162, false),
	("'\\u{41}'", 162, false),
	("''", 163, false),
	("'ab'", 163, false),
	("'\u{e9}'", 163, false),
	("'\\n\\n'", 163, false),
	("@", 110, false),
	("#", 110, false),
	("$", 110, false),
	("?", 110, false),
	("`", 110, false),
	("~", 110, false),
	("\\", 110, false),
	("\0", 110, false),
	("\u{7f}", 110, false),
	("\u{e9}", 110, false),
	("\u{20ac}", 110, false),
	("\"a\tb\"", 110, false),
	("\"a\0b\"", 110, false),
	("'\t'", 110, false),
];
