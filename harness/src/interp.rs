//! Reference interpreter for the generated AST: Penne's documented semantics
//! (DESIGN.md appendix B). Independent of the compiler: values are masked
//! bits, arithmetic wraps at the operand width, signedness follows the operand
//! type, views and pointers alias storage, words and primitives copy.

use crate::ast::*;
use std::collections::{BTreeSet, HashMap};

#[derive(Debug, Clone, PartialEq)]
pub enum Val
{
	I(u128),
	Agg(Vec<Val>),
	Ptr(Ref),
	Uninit,
}

#[derive(Debug, Clone, PartialEq)]
pub struct Ref
{
	pub cell: usize,
	pub path: Vec<u32>,
}

#[derive(Debug)]
pub enum Stop
{
	/// undefined behaviour or something the model does not define: the case
	/// is discarded (and counted), never compared
	Ub(String),
	TooLong,
	/// the program is ill-formed for the interpreter: generator bug
	Bug(String),
}

enum Flow
{
	Normal,
	Goto(String),
	Loop,
}

#[derive(Clone)]
enum Binding
{
	Cell(usize),
	Alias(Ref),
}

#[derive(Default, Debug, Clone)]
pub struct ExecStats
{
	pub prints: u64,
	pub gotos_taken: u64,
	pub loop_backedges: u64,
	pub calls: u64,
	pub op_types: BTreeSet<(String, &'static str)>,
	pub casts: BTreeSet<(&'static str, &'static str)>,
	pub steps: u64,
}

pub struct Outcome
{
	pub stdout: Vec<u8>,
	pub status: i32,
	pub stats: ExecStats,
}

pub struct Interp<'a>
{
	prog: &'a Program,
	cells: Vec<Val>,
	out: Vec<u8>,
	consts: HashMap<String, usize>,
	const_in_progress: BTreeSet<String>,
	pub stats: ExecStats,
	max_steps: u64,
}

struct Frame
{
	scopes: Vec<HashMap<String, Binding>>,
}

impl Frame
{
	fn lookup(&self, name: &str) -> Option<Binding>
	{
		for s in self.scopes.iter().rev()
		{
			if let Some(b) = s.get(name)
			{
				return Some(b.clone());
			}
		}
		None
	}
}

pub fn fmt_prim(bits: u128, ty: Prim) -> Vec<u8>
{
	match ty
	{
		Prim::Bool => (if bits != 0 { "true" } else { "false" }).as_bytes().to_vec(),
		Prim::Char8 => vec![bits as u8],
		t if t.signed() => t.to_signed(bits).to_string().into_bytes(),
		_ => bits.to_string().into_bytes(),
	}
}

pub fn binop(op: BinOp, a: u128, b: u128, ty: Prim) -> Result<u128, Stop>
{
	let m = ty.mask();
	let r = match op
	{
		BinOp::Add => a.wrapping_add(b),
		BinOp::Sub => a.wrapping_sub(b),
		BinOp::Mul => a.wrapping_mul(b),
		BinOp::Div | BinOp::Rem =>
		{
			if b & m == 0
			{
				return Err(Stop::Ub("division by zero".into()));
			}
			if ty.signed()
			{
				let x = ty.to_signed(a & m);
				let y = ty.to_signed(b & m);
				if x == ty.min_signed() && y == -1
				{
					return Err(Stop::Ub("signed division overflow".into()));
				}
				let q = if op == BinOp::Div { x.wrapping_div(y) } else { x.wrapping_rem(y) };
				q as u128
			}
			else if op == BinOp::Div
			{
				(a & m) / (b & m)
			}
			else
			{
				(a & m) % (b & m)
			}
		}
		BinOp::And => a & b,
		BinOp::Or => a | b,
		BinOp::Xor => a ^ b,
		BinOp::Shl | BinOp::Shr =>
		{
			let s = b & m;
			if s >= ty.bits() as u128
			{
				return Err(Stop::Ub("shift amount >= width".into()));
			}
			if op == BinOp::Shl
			{
				(a & m) << s
			}
			else
			{
				// only unsigned types reach here: logical shift
				(a & m) >> s
			}
		}
	};
	Ok(r & m)
}

pub fn cast(bits: u128, from: Prim, to: Prim) -> u128
{
	let v: u128 = if from.signed()
	{
		from.to_signed(bits & from.mask()) as u128
	}
	else if from == Prim::Bool
	{
		(bits != 0) as u128
	}
	else
	{
		bits & from.mask()
	};
	v & to.mask()
}

pub fn compare(op: CmpOp, a: u128, b: u128, ty: Prim) -> bool
{
	let m = ty.mask();
	let (a, b) = (a & m, b & m);
	if ty.signed()
	{
		let (x, y) = (ty.to_signed(a), ty.to_signed(b));
		match op
		{
			CmpOp::Eq => x == y,
			CmpOp::Ne => x != y,
			CmpOp::Lt => x < y,
			CmpOp::Le => x <= y,
			CmpOp::Gt => x > y,
			CmpOp::Ge => x >= y,
		}
	}
	else
	{
		match op
		{
			CmpOp::Eq => a == b,
			CmpOp::Ne => a != b,
			CmpOp::Lt => a < b,
			CmpOp::Le => a <= b,
			CmpOp::Gt => a > b,
			CmpOp::Ge => a >= b,
		}
	}
}

impl<'a> Interp<'a>
{
	pub fn new(prog: &'a Program) -> Interp<'a>
	{
		Interp {
			prog,
			cells: Vec::new(),
			out: Vec::new(),
			consts: HashMap::new(),
			const_in_progress: BTreeSet::new(),
			stats: ExecStats::default(),
			max_steps: 400_000,
		}
	}

	pub fn run_main(mut self) -> Result<Outcome, Stop>
	{
		let main = self
			.prog
			.funcs
			.iter()
			.position(|f| f.name == "main")
			.ok_or_else(|| Stop::Bug("no main".into()))?;
		let r = self.call(main, Vec::new())?;
		let status = match (r, self.prog.funcs[main].ret)
		{
			(Some(v), Some(_)) => (v & 0xff) as i32,
			_ => 0,
		};
		Ok(Outcome {
			stdout: self.out,
			status,
			stats: self.stats,
		})
	}

	fn tick(&mut self) -> Result<(), Stop>
	{
		self.stats.steps += 1;
		if self.stats.steps > self.max_steps
		{
			Err(Stop::TooLong)
		}
		else
		{
			Ok(())
		}
	}

	fn alloc(&mut self, v: Val) -> usize
	{
		self.cells.push(v);
		self.cells.len() - 1
	}

	fn get(&self, r: &Ref) -> Result<&Val, Stop>
	{
		let mut v = self.cells.get(r.cell).ok_or_else(|| Stop::Bug("bad cell".into()))?;
		for i in &r.path
		{
			match v
			{
				Val::Agg(items) =>
				{
					v = items
						.get(*i as usize)
						.ok_or_else(|| Stop::Ub("index out of bounds".into()))?;
				}
				_ => return Err(Stop::Bug(format!("path into non-aggregate {:?}", v))),
			}
		}
		Ok(v)
	}

	fn get_mut(&mut self, r: &Ref) -> Result<&mut Val, Stop>
	{
		let mut v = self.cells.get_mut(r.cell).ok_or_else(|| Stop::Bug("bad cell".into()))?;
		for i in &r.path
		{
			match v
			{
				Val::Agg(items) =>
				{
					v = items
						.get_mut(*i as usize)
						.ok_or_else(|| Stop::Ub("index out of bounds".into()))?;
				}
				_ => return Err(Stop::Bug("path into non-aggregate".into())),
			}
		}
		Ok(v)
	}

	/// follow pointers until the referenced value is not a pointer
	fn autoderef(&self, mut r: Ref) -> Result<Ref, Stop>
	{
		for _ in 0..16
		{
			match self.get(&r)?
			{
				Val::Ptr(p) => r = p.clone(),
				// pointers are always initialised where they are declared;
				// an uninitialised cell is a plain variable awaiting its
				// first assignment
				_ => return Ok(r),
			}
		}
		Err(Stop::Bug("pointer cycle".into()))
	}

	fn const_cell(&mut self, name: &str) -> Result<Option<usize>, Stop>
	{
		if let Some(c) = self.consts.get(name)
		{
			return Ok(Some(*c));
		}
		let decl = match self.prog.consts.iter().find(|c| c.name == name)
		{
			Some(d) => d,
			None => return Ok(None),
		};
		if !self.const_in_progress.insert(name.to_string())
		{
			return Err(Stop::Bug(format!("cyclic constant {}", name)));
		}
		let mut frame = Frame {
			scopes: vec![HashMap::new()],
		};
		let v = self.eval_any(&decl.init, &mut frame)?;
		let cell = self.alloc(v);
		self.consts.insert(name.to_string(), cell);
		self.const_in_progress.remove(name);
		Ok(Some(cell))
	}

	fn base_ref(&mut self, name: &str, frame: &Frame) -> Result<Ref, Stop>
	{
		match frame.lookup(name)
		{
			Some(Binding::Cell(c)) => Ok(Ref {
				cell: c,
				path: Vec::new(),
			}),
			Some(Binding::Alias(r)) => Ok(r),
			None => match self.const_cell(name)?
			{
				Some(c) => Ok(Ref {
					cell: c,
					path: Vec::new(),
				}),
				None => Err(Stop::Bug(format!("unbound name {}", name))),
			},
		}
	}

	/// Resolve a place to the storage it denotes. `final_deref`: also follow
	/// pointers at the very end (value access); false for address operations
	/// on the pointer variable itself.
	fn resolve(
		&mut self,
		p: &Place,
		frame: &mut Frame,
		final_deref: bool,
	) -> Result<Ref, Stop>
	{
		let mut r = self.base_ref(&p.base, frame)?;
		for st in &p.steps
		{
			r = self.autoderef(r)?;
			match st
			{
				Step::Index(e) =>
				{
					let i = self.eval(e, frame)? & Prim::Usize.mask();
					let len = match self.get(&r)?
					{
						Val::Agg(items) => items.len() as u128,
						_ => return Err(Stop::Bug("index into non-array".into())),
					};
					if i >= len
					{
						return Err(Stop::Ub("index out of bounds".into()));
					}
					r.path.push(i as u32);
				}
				Step::Member(m) =>
				{
					// member index is found by name through the value's
					// declared struct: we keep names in order of declaration,
					// so look the struct up by scanning (member names are
					// unique program-wide in generated programs)
					let idx = self
						.prog
						.structs
						.iter()
						.find_map(|s| s.members.iter().position(|(n, _)| n == m))
						.ok_or_else(|| Stop::Bug(format!("unknown member {}", m)))?;
					r.path.push(idx as u32);
				}
			}
		}
		if final_deref
		{
			r = self.autoderef(r)?;
		}
		Ok(r)
	}

	fn eval(&mut self, e: &Expr, frame: &mut Frame) -> Result<u128, Stop>
	{
		match self.eval_any(e, frame)?
		{
			Val::I(v) => Ok(v),
			Val::Uninit => Err(Stop::Ub("read of uninitialised value".into())),
			other => Err(Stop::Bug(format!("expected scalar, got {:?}", other))),
		}
	}

	fn eval_any(&mut self, e: &Expr, frame: &mut Frame) -> Result<Val, Stop>
	{
		self.tick()?;
		match e
		{
			Expr::Lit(bits, ty, _) => Ok(Val::I(bits & ty.mask())),
			Expr::Read(p, _) =>
			{
				let r = self.resolve(p, frame, true)?;
				let v = self.get(&r)?.clone();
				if contains_uninit(&v)
				{
					return Err(Stop::Ub("read of uninitialised value".into()));
				}
				Ok(v)
			}
			Expr::Bin(op, l, r, ty) =>
			{
				let a = self.eval(l, frame)?;
				let b = self.eval(r, frame)?;
				self.stats.op_types.insert((op.text().to_string(), ty.name()));
				Ok(Val::I(binop(*op, a, b, *ty)?))
			}
			Expr::Un(op, x, ty) =>
			{
				let a = self.eval(x, frame)?;
				let m = ty.mask();
				self.stats.op_types.insert((
					match op
					{
						UnOp::Neg => "neg".to_string(),
						UnOp::Not => "not".to_string(),
					},
					ty.name(),
				));
				Ok(Val::I(match op
				{
					UnOp::Neg => (0u128.wrapping_sub(a)) & m,
					UnOp::Not =>
					{
						if *ty == Prim::Bool
						{
							(a == 0) as u128
						}
						else
						{
							!a & m
						}
					}
				}))
			}
			Expr::Cast(x, from, to) =>
			{
				let a = self.eval(x, frame)?;
				self.stats.casts.insert((from.name(), to.name()));
				Ok(Val::I(cast(a, *from, *to)))
			}
			Expr::Len(p) =>
			{
				let r = self.resolve(p, frame, true)?;
				match self.get(&r)?
				{
					Val::Agg(items) => Ok(Val::I(items.len() as u128)),
					_ => Err(Stop::Bug("length of non-array".into())),
				}
			}
			Expr::SizeOf(t) => Ok(Val::I(layout(self.prog, t).0 as u128)),
			Expr::Call(f, args, _) =>
			{
				let vals = self.eval_args(*f, args, frame)?;
				match self.call(*f, vals)?
				{
					Some(v) => Ok(Val::I(v)),
					None => Err(Stop::Bug("void call in expression".into())),
				}
			}
			Expr::Paren(x) => self.eval_any(x, frame),
			Expr::StructLit(si, fields) =>
			{
				let decl = &self.prog.structs[*si];
				let mut vals = vec![Val::Uninit; decl.members.len()];
				for (name, e) in fields
				{
					let idx = decl
						.members
						.iter()
						.position(|(n, _)| n == name)
						.ok_or_else(|| Stop::Bug("bad field".into()))?;
					vals[idx] = self.eval_any(e, frame)?;
				}
				Ok(Val::Agg(vals))
			}
			Expr::ArrayLit(elems) =>
			{
				let mut vals = Vec::new();
				for e in elems
				{
					vals.push(self.eval_any(e, frame)?);
				}
				Ok(Val::Agg(vals))
			}
			Expr::Str(bytes) => Ok(Val::Agg(bytes.iter().map(|b| Val::I(*b as u128)).collect())),
		}
	}

	fn eval_args(
		&mut self,
		f: usize,
		args: &[Arg],
		frame: &mut Frame,
	) -> Result<Vec<Binding>, Stop>
	{
		let _ = f;
		let mut out = Vec::new();
		for a in args
		{
			match a
			{
				Arg::Value(e) =>
				{
					let v = self.eval_any(e, frame)?;
					let c = self.alloc(v);
					out.push(Binding::Cell(c));
				}
				Arg::View(p) =>
				{
					let r = self.resolve(p, frame, true)?;
					out.push(Binding::Alias(r));
				}
				Arg::Addr(p, depth) =>
				{
					// `&x`: pointer to x's storage. If x is itself a pointer
					// chain, `&` * k selects how many levels are kept:
					// follow pointers until (own depth + 1 == k).
					let mut r = self.resolve(p, frame, false)?;
					let mut own = 0u8;
					{
						let mut probe = r.clone();
						loop
						{
							match self.get(&probe)?
							{
								Val::Ptr(t) =>
								{
									own += 1;
									probe = t.clone();
								}
								_ => break,
							}
						}
					}
					// own = pointer depth of the place; requested value has
					// depth `depth`; we need to deref (own + 1 - depth) times
					let mut derefs = (own + 1).saturating_sub(*depth);
					while derefs > 0
					{
						match self.get(&r)?
						{
							Val::Ptr(t) => r = t.clone(),
							_ => return Err(Stop::Bug("address depth".into())),
						}
						derefs -= 1;
					}
					let c = self.alloc(Val::Ptr(r));
					out.push(Binding::Cell(c));
				}
			}
		}
		Ok(out)
	}

	fn call(&mut self, f: usize, args: Vec<Binding>) -> Result<Option<u128>, Stop>
	{
		self.tick()?;
		self.stats.calls += 1;
		let decl = &self.prog.funcs[f];
		if decl.params.len() != args.len()
		{
			return Err(Stop::Bug("arity".into()));
		}
		let mut scope = HashMap::new();
		for (p, a) in decl.params.iter().zip(args.into_iter())
		{
			scope.insert(p.name.clone(), a);
		}
		let mut frame = Frame {
			scopes: vec![scope],
		};
		// the function body is one more scope
		frame.scopes.push(HashMap::new());
		let flow = self.exec_seq(&decl.body, &mut frame, Some("return"))?;
		match flow
		{
			Flow::Normal => (),
			Flow::Goto(l) => return Err(Stop::Bug(format!("unresolved goto {}", l))),
			Flow::Loop => return Err(Stop::Bug("loop outside block".into())),
		}
		let r = match &decl.ret_expr
		{
			Some(e) => Some(self.eval(e, &mut frame)?),
			None => None,
		};
		Ok(r)
	}

	/// run a statement sequence in the current scope; `tail_label` is a label
	/// that sits at the very end of the sequence (`return:`)
	fn exec_seq(
		&mut self,
		seq: &[Stmt],
		frame: &mut Frame,
		tail_label: Option<&str>,
	) -> Result<Flow, Stop>
	{
		let mut i = 0;
		while i < seq.len()
		{
			match self.exec(&seq[i], frame)?
			{
				Flow::Normal => i += 1,
				Flow::Goto(l) =>
				{
					// forward only: a later label of this sequence
					let target = seq
						.iter()
						.enumerate()
						.skip(i + 1)
						.find(|(_, s)| matches!(s, Stmt::Label(x) if *x == l))
						.map(|(k, _)| k);
					match target
					{
						Some(k) =>
						{
							self.stats.gotos_taken += 1;
							i = k + 1;
						}
						None =>
						{
							if tail_label == Some(l.as_str())
							{
								self.stats.gotos_taken += 1;
								return Ok(Flow::Normal);
							}
							return Ok(Flow::Goto(l));
						}
					}
				}
				Flow::Loop => return Ok(Flow::Loop),
			}
		}
		Ok(Flow::Normal)
	}

	fn exec_block(&mut self, seq: &[Stmt], frame: &mut Frame) -> Result<Flow, Stop>
	{
		loop
		{
			frame.scopes.push(HashMap::new());
			let r = self.exec_seq(seq, frame, None);
			frame.scopes.pop();
			match r?
			{
				Flow::Loop =>
				{
					self.stats.loop_backedges += 1;
					self.tick()?;
					continue;
				}
				other => return Ok(other),
			}
		}
	}

	fn exec_branch(&mut self, b: &Branch, frame: &mut Frame) -> Result<Flow, Stop>
	{
		match b
		{
			Branch::Block(v) => self.exec_block(v, frame),
			Branch::Goto(l) => Ok(Flow::Goto(l.clone())),
			Branch::If(s) => self.exec(s, frame),
		}
	}

	fn exec(&mut self, s: &Stmt, frame: &mut Frame) -> Result<Flow, Stop>
	{
		self.tick()?;
		match s
		{
			Stmt::Var { name, ty, init, .. } =>
			{
				let v = match init
				{
					Some(e) => self.eval_init(e, ty, frame)?,
					None => uninit_of(self.prog, ty),
				};
				let c = self.alloc(v);
				frame.scopes.last_mut().unwrap().insert(name.clone(), Binding::Cell(c));
				Ok(Flow::Normal)
			}
			Stmt::Assign(p, e) =>
			{
				// value first, then the place (the order the typer/generator
				// uses is not documented; generated programs keep both free of
				// side effects on each other)
				let v = self.eval_any(e, frame)?;
				let r = self.resolve(p, frame, true)?;
				*self.get_mut(&r)? = v;
				Ok(Flow::Normal)
			}
			Stmt::Repoint(p, q, depth) =>
			{
				// `&p = &q` (depth 1): p now points where `&q` points.
				// For depth k, the (k-1)-th pointee of p is re-pointed.
				let mut pr = self.resolve(p, frame, false)?;
				// count pointer depth of p
				let mut own = 0u8;
				{
					let mut probe = pr.clone();
					loop
					{
						match self.get(&probe)?
						{
							Val::Ptr(t) =>
							{
								own += 1;
								probe = t.clone();
							}
							_ => break,
						}
					}
				}
				// `&`*d p denotes the pointer whose own depth is d: skip own-d levels
				let mut skip = own.saturating_sub(*depth);
				while skip > 0
				{
					match self.get(&pr)?
					{
						Val::Ptr(t) => pr = t.clone(),
						_ => return Err(Stop::Bug("repoint depth".into())),
					}
					skip -= 1;
				}
				// right side: value `&`*d q
				let mut qr = self.resolve(q, frame, false)?;
				let mut qown = 0u8;
				{
					let mut probe = qr.clone();
					loop
					{
						match self.get(&probe)?
						{
							Val::Ptr(t) =>
							{
								qown += 1;
								probe = t.clone();
							}
							_ => break,
						}
					}
				}
				let mut derefs = (qown + 1).saturating_sub(*depth);
				while derefs > 0
				{
					match self.get(&qr)?
					{
						Val::Ptr(t) => qr = t.clone(),
						_ => return Err(Stop::Bug("repoint depth rhs".into())),
					}
					derefs -= 1;
				}
				*self.get_mut(&pr)? = Val::Ptr(qr);
				Ok(Flow::Normal)
			}
			Stmt::Call(f, args) =>
			{
				let vals = self.eval_args(*f, args, frame)?;
				self.call(*f, vals)?;
				Ok(Flow::Normal)
			}
			Stmt::Print(items) =>
			{
				for it in items
				{
					match it
					{
						Expr::Str(bytes) => self.out.extend_from_slice(bytes),
						e =>
						{
							let ty = prim_type_of(e).ok_or_else(|| {
								Stop::Bug("print of non-primitive".into())
							})?;
							let v = self.eval(e, frame)?;
							self.out.extend(fmt_prim(v, ty));
						}
					}
				}
				self.stats.prints += 1;
				if self.out.len() > 1 << 20
				{
					return Err(Stop::TooLong);
				}
				Ok(Flow::Normal)
			}
			Stmt::Block(v) => self.exec_block(v, frame),
			Stmt::If(c, t, e) =>
			{
				let a = self.eval(&c.left, frame)?;
				let b = self.eval(&c.right, frame)?;
				self.stats.op_types.insert((c.op.text().to_string(), c.ty.name()));
				if compare(c.op, a, b, c.ty)
				{
					self.exec_branch(t, frame)
				}
				else if let Some(e) = e
				{
					self.exec_branch(e, frame)
				}
				else
				{
					Ok(Flow::Normal)
				}
			}
			Stmt::Goto(l) => Ok(Flow::Goto(l.clone())),
			Stmt::Label(_) => Ok(Flow::Normal),
			Stmt::Loop => Ok(Flow::Loop),
		}
	}

	fn eval_init(&mut self, e: &Expr, ty: &Ty, frame: &mut Frame) -> Result<Val, Stop>
	{
		match (ty, e)
		{
			// `var p: &T = &x;` is represented as a Read with pointer type
			(Ty::Ptr(_), Expr::Read(p, _)) =>
			{
				// the initialiser denotes an address: `&`*depth place
				let depth = ptr_depth(ty);
				let mut r = self.resolve(p, frame, false)?;
				let mut own = 0u8;
				{
					let mut probe = r.clone();
					loop
					{
						match self.get(&probe)?
						{
							Val::Ptr(t) =>
							{
								own += 1;
								probe = t.clone();
							}
							_ => break,
						}
					}
				}
				let mut derefs = (own + 1).saturating_sub(depth);
				while derefs > 0
				{
					match self.get(&r)?
					{
						Val::Ptr(t) => r = t.clone(),
						_ => return Err(Stop::Bug("init depth".into())),
					}
					derefs -= 1;
				}
				Ok(Val::Ptr(r))
			}
			_ => self.eval_any(e, frame),
		}
	}
}

pub fn ptr_depth(t: &Ty) -> u8
{
	match t
	{
		Ty::Ptr(inner) => 1 + ptr_depth(inner),
		_ => 0,
	}
}

fn contains_uninit(v: &Val) -> bool
{
	match v
	{
		Val::Uninit => true,
		Val::Agg(items) => items.iter().any(contains_uninit),
		_ => false,
	}
}

pub fn uninit_of(prog: &Program, ty: &Ty) -> Val
{
	match ty
	{
		Ty::Array(e, n, _) => Val::Agg((0..*n).map(|_| uninit_of(prog, e)).collect()),
		Ty::Named(i) => Val::Agg(
			prog.structs[*i].members.iter().map(|(_, t)| uninit_of(prog, t)).collect(),
		),
		_ => Val::Uninit,
	}
}

pub fn prim_type_of(e: &Expr) -> Option<Prim>
{
	match e
	{
		Expr::Lit(_, t, _) => Some(*t),
		Expr::Read(_, t) => t.prim(),
		Expr::Bin(_, _, _, t) => Some(*t),
		Expr::Un(_, _, t) => Some(*t),
		Expr::Cast(_, _, t) => Some(*t),
		Expr::Len(_) | Expr::SizeOf(_) => Some(Prim::Usize),
		Expr::Call(_, _, t) => Some(*t),
		Expr::Paren(x) => prim_type_of(x),
		_ => None,
	}
}

/// (size, alignment) in bytes from the declared data layout
/// (`e-m:e-p:64:64-i64:64-i128:128?` — observed: integers align to
/// min(size, 8); pointers and usize 8; arrays n * stride; structs C layout;
/// words have their declared size).
pub fn layout(prog: &Program, t: &Ty) -> (usize, usize)
{
	match t
	{
		Ty::Prim(p) =>
		{
			let s = p.bytes();
			(s, s.min(8))
		}
		Ty::Array(e, n, _) =>
		{
			let (s, a) = layout(prog, e);
			let stride = (s + a - 1) / a * a;
			(stride * n, a)
		}
		Ty::Named(i) =>
		{
			let d = &prog.structs[*i];
			let mut off = 0usize;
			let mut maxa = 1usize;
			for (_, mt) in &d.members
			{
				let (s, a) = layout(prog, mt);
				off = (off + a - 1) / a * a;
				off += s;
				maxa = maxa.max(a);
			}
			match d.word_bytes
			{
				// a word has its declared size; its alignment is that of its
				// members (it is laid out like a structure)
				Some(b) => (b, maxa),
				None => ((off + maxa - 1) / maxa * maxa, maxa),
			}
		}
		Ty::Ptr(_) => (8, 8),
		Ty::Slice(_) | Ty::SlicePtr(_) => (16, 8),
	}
}
