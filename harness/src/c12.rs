//! C12 — imports expose exactly the public interface and modules compose.

use crate::alpha;
use crate::ast::*;
use crate::choices::{fnv, Choices};
use crate::engine::*;
use crate::interp;
use crate::modsplit::{self, Split};
use crate::progen;
use serde_json::json;

pub struct C12;

fn permutations(n: usize, limit: usize, c: &mut Choices) -> Vec<Vec<usize>>
{
	// all permutations of 0..n (n <= 4), then sample `limit` of them
	let mut all: Vec<Vec<usize>> = vec![vec![]];
	for k in 0..n
	{
		let mut next = Vec::new();
		for p in &all
		{
			for pos in 0..=p.len()
			{
				let mut q = p.clone();
				q.insert(pos, k);
				next.push(q);
			}
		}
		all = next;
	}
	all.sort();
	if all.len() <= limit
	{
		return all;
	}
	let mut out = vec![all[0].clone(), all[all.len() - 1].clone()];
	while out.len() < limit
	{
		let cand = all[c.draw(all.len())].clone();
		if !out.contains(&cand)
		{
			out.push(cand);
		}
		if c.exhausted()
		{
			break;
		}
	}
	out
}

pub fn render_files(split: &Split) -> Vec<(String, String)>
{
	split
		.files
		.iter()
		.map(|(name, p)| (name.clone(), print_program(p, Layout::plain(), None)))
		.collect()
}

fn files_json(files: &[(String, String)]) -> serde_json::Value
{
	json!(files.iter().map(|(n, s)| json!({"file": n, "source": s})).collect::<Vec<_>>())
}

struct SplitPrograms;
impl Stream for SplitPrograms
{
	fn name(&self) -> String
	{
		"split-programs".into()
	}
	fn count(&self, tier: Tier) -> u64
	{
		tier.pick(1200, 12_000)
	}
	fn choice_len(&self) -> usize
	{
		1700
	}
	fn timeout(&self) -> std::time::Duration
	{
		std::time::Duration::from_secs(120)
	}
	fn run(&self, _idx: u64, c: &mut Choices, ctx: &RunCtx) -> CaseOut
	{
		let mut out = CaseOut::default();
		let prog = progen::generate(c, progen::Profile::exec());
		if prog.order.len() < 2
		{
			out.discarded = Some("fewer than two top-level declarations".into());
			return out;
		}
		let expected = match interp::Interp::new(&prog).run_main()
		{
			Ok(o) => o,
			Err(interp::Stop::Bug(w)) =>
			{
				out.fail(format!("harness: interpreter bug {}", w.chars().take(40).collect::<String>()), json!({}));
				return out;
			}
			Err(_) =>
			{
				out.discarded = Some("interpreter: UB or step limit".into());
				return out;
			}
		};
		let nfiles = 2 + c.draw(3);
		let split = modsplit::split(c, &prog, nfiles);
		let files = render_files(&split);
		out.key = fnv(&files.iter().map(|(_, s)| s.as_str()).collect::<Vec<_>>().join("\x00"));
		out.nontrivial = !split.crossing.is_empty();
		out.class(format!("files:{}", nfiles));
		out.class(format!("crossing-items:{}", split.crossing.len().min(6)));
		if split.crossing.iter().any(|(t, _)| matches!(t, Top::Struct(_)))
		{
			out.class("crossing:structure");
		}
		if split.crossing.iter().any(|(t, _)| matches!(t, Top::Func(_)))
		{
			out.class("crossing:function");
		}
		if split.crossing.iter().any(|(t, _)| matches!(t, Top::Const(_)))
		{
			out.class("crossing:constant");
		}
		let limit = ctx.tier.pick(4, 24) as usize;
		let orders = permutations(nfiles, limit, c);
		let mut first_ir_out: Option<Vec<u8>> = None;
		for order in &orders
		{
			let ordered: Vec<(String, String)> = order.iter().map(|i| files[*i].clone()).collect();
			let o = alpha::compile_modules(
				&ordered,
				alpha::Options {
					link: true,
					..Default::default()
				},
			);
			out.count("orders_compiled", 1);
			let detail = json!({"files": files_json(&ordered), "order": order, "result": o.summary()});
			if let Some(e) = &o.internal_error
			{
				out.fail(format!("internal error {}", e.chars().take(50).collect::<String>()), detail);
				break;
			}
			if !o.ok
			{
				let mut codes = o.codes.clone();
				codes.sort();
				codes.dedup();
				out.fail(format!("correctly split program rejected {:?}", codes), detail);
				break;
			}
			let r = alpha::run_ir(o.linked_ir.as_ref().unwrap(), 10);
			if r.timed_out
			{
				out.discarded = Some("lli watchdog".into());
				break;
			}
			if !r.stderr.is_empty()
			{
				let err = String::from_utf8_lossy(&r.stderr).to_string();
				// class of the tool's complaint, without positions
				let class: String = err
					.split("error: ")
					.nth(1)
					.unwrap_or("?")
					.lines()
					.next()
					.unwrap_or("?")
					.chars()
					.map(|ch| if ch.is_ascii_digit() { '#' } else { ch })
					.take(70)
					.collect();
				out.fail(
					format!("linked program cannot be executed: {}", class),
					json!({"files": files_json(&ordered), "order": order, "stderr": err.chars().take(500).collect::<String>()}),
				);
				break;
			}
			if r.stdout != expected.stdout || r.status != Some(expected.status)
			{
				out.fail(
					"split program behaves differently from the single-file program",
					json!({"files": files_json(&ordered), "order": order, "stdout": String::from_utf8_lossy(&r.stdout), "expected_stdout": String::from_utf8_lossy(&expected.stdout), "status": r.status, "expected_status": expected.status}),
				);
				break;
			}
			if first_ir_out.is_none()
			{
				first_ir_out = Some(r.stdout);
			}
		}
		if ctx.want_sample
		{
			out.sample = Some(json!({"files": files_json(&files), "orders": orders}));
		}
		out
	}
}

/// remove one needed `pub` or one needed `import`: must be rejected
struct Negative;
impl Stream for Negative
{
	fn name(&self) -> String
	{
		"missing-pub-or-import".into()
	}
	fn crash_is_failure(&self) -> bool
	{
		// a compiler crash on an invalid program is C02's subject
		false
	}
	fn count(&self, tier: Tier) -> u64
	{
		tier.pick(2500, 15_000)
	}
	fn choice_len(&self) -> usize
	{
		1700
	}
	fn run(&self, _idx: u64, c: &mut Choices, ctx: &RunCtx) -> CaseOut
	{
		let mut out = CaseOut::default();
		let prog = progen::generate(c, progen::Profile::exec());
		if prog.order.len() < 2
		{
			out.discarded = Some("fewer than two top-level declarations".into());
			return out;
		}
		let nfiles = 2 + c.draw(3);
		let mut split = modsplit::split(c, &prog, nfiles);
		if split.crossing.is_empty()
		{
			out.discarded = Some("nothing crosses a file boundary".into());
			return out;
		}
		let drop_import = c.flag() && !split.imports.is_empty();
		let what;
		if drop_import
		{
			// drop one import; prefer one whose target is still imported by
			// another imported file (transitive visibility must not help)
			let k = c.draw(split.imports.len());
			let (a, b) = split.imports[k];
			let name = format!("m{}.pn", b);
			split.files[a].1.imports.retain(|x| *x != name);
			let transitive = split
				.imports
				.iter()
				.any(|(x, y)| *x != a && *y == b && split.imports.contains(&(a, *x)));
			what = format!("import of m{}.pn removed from m{}.pn", b, a);
			if transitive
			{
				out.class("negative:transitive-import-only");
			}
			else
			{
				out.class("negative:import-removed");
			}
		}
		else
		{
			let k = c.draw(split.crossing.len());
			let (item, _) = split.crossing[k];
			for (_, p) in split.files.iter_mut()
			{
				match item
				{
					Top::Const(i) => p.consts[i].public = false,
					Top::Struct(i) => p.structs[i].public = false,
					Top::Func(i) => p.funcs[i].public = false,
					Top::Raw(_) => (),
				}
			}
			what = format!("`pub` removed from {:?}", item);
			out.class(match item
			{
				Top::Const(_) => "negative:private-constant",
				Top::Struct(_) => "negative:private-structure",
				Top::Func(_) => "negative:private-function",
				Top::Raw(_) => "negative:raw",
			});
		}
		let files = render_files(&split);
		out.key = fnv(&files.iter().map(|(_, s)| s.as_str()).collect::<Vec<_>>().join("\x00"));
		out.nontrivial = true;
		let o = alpha::compile_modules(
			&files,
			alpha::Options {
				link: true,
				..Default::default()
			},
		);
		let detail = json!({"files": files_json(&files), "mutation": what, "result": o.summary()});
		if let Some(e) = &o.internal_error
		{
			out.fail(format!("internal error {}", e.chars().take(50).collect::<String>()), detail);
		}
		else if o.ok
		{
			out.fail(
				format!("private or not-imported item is visible across files ({})", if drop_import { "import removed" } else { "pub removed" }),
				detail,
			);
		}
		else if !o.codes.iter().any(|c| [401, 402, 405].contains(c))
		{
			out.fail(format!("rejected without E401/E402/E405: {:?}", o.codes), detail);
		}
		if ctx.want_sample
		{
			out.sample = Some(json!({"files": files_json(&files), "mutation": what}));
		}
		out
	}
}

/// unrelated modules through one Compiler: compiling one must not change
/// the result for another
struct Histories;
impl Stream for Histories
{
	fn name(&self) -> String
	{
		"compiler-histories".into()
	}
	fn count(&self, tier: Tier) -> u64
	{
		tier.pick(800, 8_000)
	}
	fn choice_len(&self) -> usize
	{
		2400
	}
	fn run(&self, _idx: u64, c: &mut Choices, ctx: &RunCtx) -> CaseOut
	{
		let mut out = CaseOut::default();
		let n = 2 + c.draw(3);
		let mut files = Vec::new();
		let same_struct_names = ctx.replay && false;
		for k in 0..n
		{
			let mut prog = progen::generate(c, progen::Profile::exec());
			// one entry point in the whole set (the modules end up in one
			// combined LLVM module); recorded defect: two modules that each
			// declare a private structure of the same name are confused with
			// each other, so names are made distinct here and the defect is
			// exercised by the probe stream
			if k + 1 < n
			{
				if let Some(m) = prog.funcs.iter_mut().find(|f| f.name == "main")
				{
					m.name = format!("entry{}", k);
				}
			}
			if !same_struct_names
			{
				for s in prog.structs.iter_mut()
				{
					s.name = format!("H{}{}", k, s.name);
				}
			}
			files.push((format!("h{}.pn", k), print_program(&prog, Layout::plain(), None)));
		}
		out.key = fnv(&files.iter().map(|(_, s)| s.as_str()).collect::<Vec<_>>().join("\x00"));
		out.nontrivial = true;
		let opts = alpha::Options {
			want_ir: true,
			..Default::default()
		};
		// alone
		let mut alone = Vec::new();
		for f in &files
		{
			let o = alpha::compile_modules(std::slice::from_ref(f), opts);
			if !o.ok
			{
				out.discarded = Some("a module does not compile alone (C01's subject)".into());
				return out;
			}
			alone.push(o.module_irs[0].clone());
		}
		// together, in the given and in the reversed order
		for rev in [false, true]
		{
			let mut order: Vec<usize> = (0..n).collect();
			if rev
			{
				order.reverse();
			}
			let ordered: Vec<(String, String)> = order.iter().map(|i| files[*i].clone()).collect();
			let o = alpha::compile_modules(&ordered, opts);
			out.count("histories", 1);
			if let Some(e) = &o.internal_error
			{
				out.fail(format!("internal error {}", e.chars().take(50).collect::<String>()), json!({"files": files_json(&ordered)}));
				return out;
			}
			if !o.ok
			{
				out.fail(
					format!("module rejected only when compiled after others {:?}", o.codes),
					json!({"files": files_json(&ordered), "result": o.summary()}),
				);
				return out;
			}
			for (pos, i) in order.iter().enumerate()
			{
				if o.module_irs[pos] != alone[*i]
				{
					out.fail(
						"per-module IR depends on which modules were compiled before",
						json!({"files": files_json(&ordered), "module": files[*i].0, "position": pos,
							"ir_alone": alone[*i].chars().take(3000).collect::<String>(),
							"ir_in_history": o.module_irs[pos].chars().take(3000).collect::<String>()}),
					);
					return out;
				}
			}
		}
		if ctx.want_sample
		{
			out.sample = Some(json!({"files": files.iter().map(|(n, s)| json!({"file": n, "source_head": s.chars().take(300).collect::<String>()})).collect::<Vec<_>>()}));
		}
		out
	}
}

/// fixed probes for recorded defects (so that they stay visible)
/// Hand-shaped module sets around the two rules that random splits reach
/// only by luck: (1) an import is not re-exported — a module that imports
/// `mid.pn` sees nothing of the `leaf.pn` that `mid.pn` imports, whatever kind
/// the item is (constant, structure, word, function, function head) and in
/// whatever order the files are given; importing both (a diamond) is fine;
/// (2) an import names a file relative to the importing file's directory, so
/// same-named files in other directories do not matter.
struct Interfaces;
const ITEM_KINDS: &[(&str, &str, &str, &[u16])] = &[
	("constant", "pub const LIMIT: i32 = 7;", "var v: i32 = LIMIT;\n\tprint!(v, \"\\n\");", &[402]),
	("structure", "pub struct Pair\n{\n\tleft: i32,\n\tright: i32,\n}", "var p = Pair { left: 3, right: 4 };\n\tprint!(p.right, \"\\n\");", &[405]),
	("word", "pub word32 Halves\n{\n\tlo: i16,\n\thi: i16,\n}", "var h = Halves { lo: 5, hi: 6 };\n\tprint!(h.hi, \"\\n\");", &[405]),
	("function", "pub fn twice(x: i32) -> i32\n{\n\treturn: x + x\n}", "var t: i32 = twice(21);\n\tprint!(t, \"\\n\");", &[401]),
	("function head", "pub extern fn abs(x: i32) -> i32;", "var t: i32 = abs(-9);\n\tprint!(t, \"\\n\");", &[401]),
];
const ITEM_OUTPUT: &[&str] = &["7\n", "4\n", "6\n", "42\n", "9\n"];
fn perm3(k: u64) -> [usize; 3]
{
	[[0, 1, 2], [0, 2, 1], [1, 0, 2], [1, 2, 0], [2, 0, 1], [2, 1, 0]][(k % 6) as usize]
}
impl Stream for Interfaces
{
	fn name(&self) -> String
	{
		"interface-chains-and-directories".into()
	}
	fn count(&self, _tier: Tier) -> u64
	{
		// kinds x {transitive only, direct, diamond} x 6 orders x mid uses it or not; 2 x 6 directory cases
		(ITEM_KINDS.len() * 3 * 6 * 2 + 12) as u64
	}
	fn exhaustive(&self) -> bool
	{
		true
	}
	fn run(&self, idx: u64, _c: &mut Choices, ctx: &RunCtx) -> CaseOut
	{
		let mut out = CaseOut::default();
		out.key = idx;
		out.nontrivial = true;
		let chain_cases = (ITEM_KINDS.len() * 3 * 6 * 2) as u64;
		let (files, expect_ok, expected_out, codes, label): (Vec<(String, String)>, bool, String, Vec<u16>, String) = if idx < chain_cases
		{
			let order = perm3(idx);
			let mid_uses = (idx / 6) % 2 == 1;
			let variant = (idx / 12) % 3;
			let kind = (idx / 36) as usize;
			let (kname, decl, usage, codes) = ITEM_KINDS[kind];
			let leaf = format!("{}\n\npub const OTHER: i32 = 1;\n", decl);
			let mid_use = if mid_uses
			{
				format!("\n\nfn inside() -> i32\n{{\n\t{}\n\treturn: OTHER\n}}", usage)
			}
			else
			{
				String::new()
			};
			let mid = format!("import \"leaf.pn\";\n\npub fn distance(a: i32, b: i32) -> i32\n{{\n\treturn: a - b + OTHER - OTHER\n}}{}\n", mid_use);
			let imports = match variant
			{
				0 => "import \"mid.pn\";\n",
				1 => "import \"leaf.pn\";\n",
				_ => "import \"mid.pn\";\nimport \"leaf.pn\";\n",
			};
			let dist = if variant == 1 { "" } else { "\tvar d: i32 = distance(10, 3);\n\tprint!(d, \"\\n\");\n" };
			let top = format!("{}\nfn main() -> i32\n{{\n{}\t{}\n\treturn: 0\n}}\n", imports, dist, usage);
			let all = [("leaf.pn", leaf), ("mid.pn", mid), ("top.pn", top)];
			let files: Vec<(String, String)> = order.iter().map(|i| (all[*i].0.to_string(), all[*i].1.clone())).collect();
			let want = format!("{}{}", if variant == 1 { "" } else { "7\n" }, ITEM_OUTPUT[kind]);
			out.class(format!("chain:{}", ["transitive-only", "direct", "diamond"][variant as usize]));
			out.class(format!("item:{}", kname));
			(
				files,
				variant != 0,
				want,
				codes.to_vec(),
				format!("{} of leaf.pn used from top.pn that imports {}", kname, ["only mid.pn", "leaf.pn", "mid.pn and leaf.pn"][variant as usize]),
			)
		}
		else
		{
			let k = idx - chain_cases;
			let order = perm3(k);
			let main_in_b = k / 6 == 0;
			let (own, other) = if main_in_b { ("b", "a") } else { ("a", "b") };
			let val = |d: &str| if d == "a" { 1 } else { 2 };
			let all = [
				(format!("a/util.pn"), "pub const VALUE: i32 = 1;\n".to_string()),
				(format!("b/util.pn"), "pub const VALUE: i32 = 2;\n".to_string()),
				(format!("{}/main.pn", own), "import \"util.pn\";\n\nfn main() -> i32\n{\n\tprint!(VALUE, \"\\n\");\n\treturn: 0\n}\n".to_string()),
			];
			let _ = other;
			let files: Vec<(String, String)> = order.iter().map(|i| all[*i].clone()).collect();
			out.class("directories");
			(files, true, format!("{}\n", val(own)), vec![], format!("import \"util.pn\" from {}/main.pn with a/util.pn and b/util.pn", own))
		};
		let o = alpha::compile_modules(
			&files,
			alpha::Options {
				link: true,
				..Default::default()
			},
		);
		let detail = json!({"files": files_json(&files), "case": label, "result": o.summary()});
		if let Some(e) = &o.internal_error
		{
			out.fail(format!("internal error {}", e.chars().take(50).collect::<String>()), detail);
		}
		else if !expect_ok
		{
			if o.ok
			{
				out.fail(format!("an imported module's own import is visible: {}", label), detail);
			}
			else if !o.codes.iter().any(|c| codes.contains(c))
			{
				out.fail(format!("rejected with {:?} instead of {:?}: {}", o.codes, codes, label), detail);
			}
		}
		else if !o.ok
		{
			let mut cs = o.codes.clone();
			cs.sort();
			cs.dedup();
			out.fail(format!("valid module set rejected {:?}: {}", cs, label), detail);
		}
		else
		{
			let r = alpha::run_ir(o.linked_ir.as_ref().unwrap(), 10);
			if r.timed_out
			{
				out.discarded = Some("lli watchdog".into());
			}
			else if !r.stderr.is_empty()
			{
				out.fail(
					format!("linked module set cannot be executed: {}", label),
					json!({"files": files_json(&files), "stderr": String::from_utf8_lossy(&r.stderr).chars().take(400).collect::<String>()}),
				);
			}
			else if String::from_utf8_lossy(&r.stdout) != expected_out
			{
				out.fail(
					format!("module set prints something else: {}", label),
					json!({"files": files_json(&files), "stdout": String::from_utf8_lossy(&r.stdout), "expected_stdout": expected_out}),
				);
			}
		}
		if ctx.want_sample
		{
			out.sample = Some(json!({"case": label, "files": files_json(&files)}));
		}
		out
	}
}

/// hand-written three-module programs around features the program generator
/// does not use (`abort!`, `panic!`, exported `extern` definitions with view
/// parameters): the split program, in every file order, behaves like the
/// single file made of the same declarations
struct Features;
const USES: &[(&str, &str)] = &[
	("print", "print!(\"seen \", x, \"\\n\");"),
	("abort", "if x == 1000\n\t{\n\t\tabort!();\n\t}"),
	("panic", "if x == 1000\n\t{\n\t\tpanic!(\"too much\\n\");\n\t}"),
];
impl Stream for Features
{
	fn name(&self) -> String
	{
		"feature-templates".into()
	}
	fn count(&self, _tier: Tier) -> u64
	{
		// 27 assignments of builtins to the three modules, 4 extern shapes; 6 orders each
		((27 + 4) * 6) as u64
	}
	fn exhaustive(&self) -> bool
	{
		true
	}
	fn run(&self, idx: u64, _c: &mut Choices, ctx: &RunCtx) -> CaseOut
	{
		let mut out = CaseOut::default();
		out.key = idx;
		out.nontrivial = true;
		let order = perm3(idx);
		let t = (idx / 6) as usize;
		let (all, label): ([(&str, String); 3], String) = if t < 27
		{
			let (ua, ub, um) = (USES[t % 3], USES[(t / 3) % 3], USES[t / 9]);
			out.class("feature:builtins in several modules");
			(
				[
					("a.pn", format!("pub fn check(x: i32) -> i32\n{{\n\t{}\n\treturn: x + 1\n}}\n", ua.1)),
					("b.pn", format!("pub fn guard(x: i32) -> i32\n{{\n\t{}\n\treturn: x + 2\n}}\n", ub.1)),
					(
						"main.pn",
						format!("import \"a.pn\";\nimport \"b.pn\";\n\nfn main() -> i32\n{{\n\tvar x: i32 = guard(check(4));\n\t{}\n\tprint!(x, \"\\n\");\n\treturn: x\n}}\n", um.1),
					),
				],
				format!("{} in a.pn, {} in b.pn, {} in main.pn", ua.0, ub.0, um.0),
			)
		}
		else
		{
			let k = t - 27;
			// an exported C function with a body: its view parameter is a bare
			// pointer for the definition and for every importer alike
			let (ty, lit) = [("i32", "[10, 20, 70]"), ("u8", "[1, 2, 3]"), ("i64", "[5, 6, 7]"), ("u16", "[300, 200, 100]")][k];
			out.class("feature:exported extern definition with a view parameter");
			(
				[
					(
						"a.pn",
						format!("pub extern fn total(values: []{ty}, n: usize) -> {ty}\n{{\n\tvar sum: {ty} = 0;\n\tvar i: usize = 0;\n\t{{\n\t\tif i == n\n\t\t\tgoto end;\n\t\tsum = sum + values[i];\n\t\ti = i + 1;\n\t\tloop;\n\t}}\n\tend:\n\treturn: sum\n}}\n"),
					),
					("b.pn", format!("import \"a.pn\";\n\npub fn two_of(values: []{ty}) -> {ty}\n{{\n\treturn: total(values, 2)\n}}\n")),
					(
						"main.pn",
						format!("import \"a.pn\";\nimport \"b.pn\";\n\nfn main() -> i32\n{{\n\tvar data: [3]{ty} = {lit};\n\tprint!(total(data, 3), \" \", two_of(data), \"\\n\");\n\treturn: 0\n}}\n"),
					),
				],
				format!("pub extern fn total(values: []{ty}, n: usize) defined in a.pn, called from b.pn and main.pn"),
			)
		};
		let single: String = all
			.iter()
			.map(|(_, s)| s.lines().filter(|l| !l.starts_with("import ")).map(|l| format!("{}\n", l)).collect::<String>())
			.collect::<Vec<_>>()
			.join("\n");
		let files: Vec<(String, String)> = order.iter().map(|i| (all[*i].0.to_string(), all[*i].1.clone())).collect();
		let opts = || alpha::Options {
			link: true,
			..Default::default()
		};
		let one = alpha::compile_modules(&[("main.pn".to_string(), single.clone())], opts());
		let o = alpha::compile_modules(&files, opts());
		let detail = json!({"files": files_json(&files), "single_file": single, "case": label, "single_result": one.summary(), "result": o.summary()});
		if let Some(e) = one.internal_error.as_ref().or(o.internal_error.as_ref())
		{
			out.fail(format!("internal error {}", e.chars().take(50).collect::<String>()), detail);
		}
		else if !one.ok
		{
			// (the single file is the reference: nothing to compare with)
			out.discarded = Some(format!("single file rejected {:?}", one.codes));
		}
		else if !o.ok
		{
			let mut cs = o.codes.clone();
			cs.sort();
			cs.dedup();
			out.fail(format!("module set rejected {:?} although the single file is accepted: {}", cs, label), detail);
		}
		else
		{
			let r1 = alpha::run_ir(one.linked_ir.as_ref().unwrap(), 10);
			let r = alpha::run_ir(o.linked_ir.as_ref().unwrap(), 10);
			if r.timed_out || r1.timed_out
			{
				out.discarded = Some("lli watchdog".into());
			}
			else if r.stdout != r1.stdout || r.status != r1.status || r.stderr.is_empty() != r1.stderr.is_empty()
			{
				out.fail(
					format!("module set behaves unlike the single file: {}", label),
					json!({"files": files_json(&files), "single_file": single, "stdout": String::from_utf8_lossy(&r.stdout), "single_stdout": String::from_utf8_lossy(&r1.stdout), "status": r.status, "single_status": r1.status, "stderr": String::from_utf8_lossy(&r.stderr).chars().take(300).collect::<String>()}),
				);
			}
		}
		if ctx.want_sample
		{
			out.sample = Some(json!({"case": label, "files": files_json(&files)}));
		}
		out
	}
}

struct Probes;
impl Stream for Probes
{
	fn name(&self) -> String
	{
		"known-defect-probes".into()
	}
	fn count(&self, _tier: Tier) -> u64
	{
		1
	}
	fn exhaustive(&self) -> bool
	{
		true
	}
	fn run(&self, _idx: u64, _c: &mut Choices, ctx: &RunCtx) -> CaseOut
	{
		let mut out = CaseOut::default();
		let a = "struct Pair\n{\n\tleft: i32,\n\tright: i32,\n}\n\nfn first() -> i32\n{\n\tvar p = Pair { left: 1, right: 2 };\n\treturn: p.right\n}\n";
		let b = "struct Pair\n{\n\tonly: u8,\n}\n\nfn main() -> i32\n{\n\tvar p = Pair { only: 7 };\n\tprint!(p.only, \"\\n\");\n\treturn: 0\n}\n";
		// the order matters: the second module resolves `Pair` to the first one's type
		let files = vec![("b.pn".to_string(), b.to_string()), ("a.pn".to_string(), a.to_string())];
		out.key = 1;
		out.nontrivial = true;
		// runs in this worker: an LLVM abort kills it and is recorded by site
		let o = alpha::compile_modules(&files, alpha::Options { link: true, ..Default::default() });
		if !o.ok
		{
			out.fail(
				format!("two modules with private structures of the same name rejected {:?}", o.codes),
				json!({"files": files_json(&files)}),
			);
		}
		if ctx.want_sample
		{
			out.sample = Some(json!({"files": files_json(&files)}));
		}
		out
	}
}

impl Check for C12
{
	fn id(&self) -> &'static str
	{
		"C12"
	}
	fn rule(&self) -> String
	{
		"(a) generated executable programs whose top-level declarations are randomly partitioned over 2-4 files; every item used from another file, and everything its interface mentions, becomes `pub`, and each file imports exactly the files it needs; the file list is compiled in up to 4 (quick) / all <= 24 (thorough) orders through one Compiler as src/main.rs does, linked and run; (b) the same with one needed `pub` removed, or one needed import removed (also when the imported file is still reachable transitively); (b2) EVERY combination of {constant, structure, word, function, function head} exported by leaf.pn x {top.pn imports only mid.pn (which imports leaf.pn), imports leaf.pn, imports both} x {mid.pn uses the item or not} x all 6 file orders, and import \"util.pn\" from a/ or b/ with same-named files in both directories x all 6 orders (exhaustive, 192 sets); (b3) 31 hand-written three-module programs x 6 file orders around features the generator lacks: print!, abort!() and panic!() in every assignment to the three modules, and an exported `extern fn` with a body and a view parameter defined in one module and called from two — accepted and behaving exactly like the single file made of the same declarations; (c) histories: 2-4 unrelated executable modules pushed through ONE Compiler in two orders, each also compiled alone. Oracle: (b2) transitive-only use rejected with E401/E402/E405 in every order, direct and diamond imports accepted and the linked program prints the expected values, the sibling file is the one imported; (a) accepted in every order and stdout/exit status equal the single-file program's interpreter result; (b) rejected with E401/E402/E405; (c) each module's IR text is byte-identical whether compiled first, last or alone. Non-trivial: at least one item crosses a file boundary; distinct by file contents.".into()
	}
	fn assumptions(&self) -> Vec<String>
	{
		vec![
			"a `pub` constant's initialiser may mention other constants: they are made `pub` and imported as well (the docs do not say whether private ones would work)".into(),
			"generated splits use m0.pn..m3.pn in one directory; directories are covered by the hand-shaped sets; URI schemes (core:, vendor:) are C18's subject".into(),
		]
	}
	fn streams(&self) -> Vec<Box<dyn Stream>>
	{
		vec![Box::new(SplitPrograms), Box::new(Negative), Box::new(Histories), Box::new(Interfaces), Box::new(Features), Box::new(Probes)]
	}
}
