
use pv::engine::*;
use pv::*;

fn checks() -> Vec<Box<dyn Check>>
{
	vec![Box::new(c01::C01), Box::new(c02::C02), Box::new(c03::C03), Box::new(c04::C04), Box::new(c05::C05), Box::new(c06::C06), Box::new(c07::C07), Box::new(c08::C08), Box::new(c09::C09), Box::new(c10::C10), Box::new(c11::C11), Box::new(c12::C12), Box::new(c13::C13), Box::new(c14::C14), Box::new(c15::C15), Box::new(c16::C16), Box::new(c17::C17), Box::new(c18::C18), Box::new(c19::C19), Box::new(c20::C20)]
}

fn main()
{
	let args: Vec<String> = std::env::args().collect();
	let checks = checks();
	match args.get(1).map(|s| s.as_str())
	{
		Some("worker") =>
		{
			worker_main(&checks);
		}
		Some("xml") =>
		{
			// development aid: print the second-generation XML dump of a file
			let src = std::fs::read_to_string(args.get(2).expect("file")).expect("read");
			let p = c16::delta_parse(&src);
			println!("lex {:?} parse {:?}", p.lex_codes, p.parse_codes);
			for l in &p.xml
			{
				println!("{}", l);
			}
			match synterm::module_delta(&p.xml)
			{
				Ok(t) => println!("TERM {}", t),
				Err(e) => println!("ERR {}", e),
			}
			let a = penne::alpha::parser::parse(penne::alpha::lexer::lex(&src, "m.pn"));
			println!("ALPHA {}", synterm::module_alpha(&a));
		}
		Some("reduce") =>
		{
			// pv reduce <ID> <file.json> <signature> [stream]
			let id = args.get(2).expect("reduce <ID> <file> <signature>");
			let check = checks.iter().find(|c| c.id() == id).expect("check");
			let code = reduce_files(
				check.as_ref(),
				args.get(3).expect("file"),
				args.get(4).expect("signature"),
				args.get(5).map(|s| s.as_str()).unwrap_or("mutated-corpus"),
			);
			std::process::exit(code);
		}
		Some("stages") =>
		{
			// development aid: where does poison sit after each stage?
			use penne::alpha::*;
			let src = std::fs::read_to_string(args.get(2).expect("file")).expect("read");
			let d = parser::parse(lexer::lex(&src, "m.pn"));
			let d = expander::expand_one("m.pn", d);
			let d = scoper::analyze(d);
			let mut typer = typer::Typer::default();
			let mut analyzer = analyzer::Analyzer::default();
			let d: Vec<_> = d.into_iter().map(|x| typer.declare(x)).collect();
			for x in &d
			{
				analyzer.declare(x);
			}
			for x in d
			{
				let x = typer.analyze(x);
				let dump = format!("{:#?}", x);
				println!("AFTER TYPER: {} poison mentions", dump.matches("Poison").count());
				for (i, l) in dump.lines().enumerate()
				{
					if std::env::var("PV_FULL").is_ok() || l.contains("Poison") || l.contains("Error(")
					{
						println!("  {}: {}", i, l.trim());
					}
				}
				let x = analyzer.analyze(x);
				let dump = format!("{:#?}", x);
				println!("AFTER ANALYZER: {} poison mentions", dump.matches("Poison").count());
				match resolver::resolve(x)
				{
					Ok(_) => println!("RESOLVED ok"),
					Err(e) => println!("RESOLVE errors: {:?}", e.codes()),
				}
			}
		}
		Some("digest") =>
		{
			install_panic_hook();
			c13::digest_main();
		}
		Some("check") =>
		{
			let id = args.get(2).expect("check <ID> <tier>");
			let tier = match std::env::var("VERIF_TIER")
				.ok()
				.or_else(|| args.get(3).cloned())
				.as_deref()
			{
				Some("thorough") => Tier::Thorough,
				_ => Tier::Quick,
			};
			let tier = match args.get(3).map(|s| s.as_str())
			{
				Some("thorough") => Tier::Thorough,
				Some("quick") => Tier::Quick,
				_ => tier,
			};
			let seed = std::env::var("VERIF_SEED")
				.ok()
				.and_then(|s| s.trim().parse::<i64>().ok())
				.map(|v| v as u64)
				.unwrap_or(0);
			let threads = std::env::var("PV_THREADS")
				.ok()
				.and_then(|s| s.parse().ok())
				.unwrap_or_else(|| {
					std::thread::available_parallelism().map(|n| n.get()).unwrap_or(8)
				});
			let check = checks
				.iter()
				.find(|c| c.id() == id)
				.unwrap_or_else(|| {
					eprintln!("unknown check {}", id);
					std::process::exit(2)
				});
			let cfg = RunConfig { tier, seed, threads };
			let code = run_check(check.as_ref(), &cfg);
			std::process::exit(code);
		}
		Some("replay") =>
		{
			let id = args.get(2).expect("replay <ID> <file>");
			let file = args.get(3).expect("replay <ID> <file>");
			let check = checks
				.iter()
				.find(|c| c.id() == id)
				.unwrap_or_else(|| {
					eprintln!("unknown check {}", id);
					std::process::exit(2)
				});
			std::process::exit(replay(check.as_ref(), file));
		}
		_ =>
		{
			eprintln!("usage: pv check <ID> <quick|thorough> | pv replay <ID> <file> | pv worker");
			std::process::exit(2);
		}
	}
}
