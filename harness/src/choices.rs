//! Choice sequences: every structured generator in this harness is a decoder
//! over a vector of u32 "choices". The vector itself is produced by proptest
//! (`vec(any::<u32>(), 0..=N)` from a seeded `TestRunner`), so proptest's own
//! shrinking (delete elements, lower values) shrinks the decoded artefact
//! toward the simplest one. The same decoder can be driven by fuzzer bytes.

use proptest::strategy::{Strategy, ValueTree};
use proptest::test_runner::{Config, RngAlgorithm, TestRng, TestRunner};

pub struct Choices<'a>
{
	data: &'a [u32],
	pos: usize,
}

impl<'a> Choices<'a>
{
	pub fn new(data: &'a [u32]) -> Self
	{
		Choices { data, pos: 0 }
	}

	pub fn raw(&mut self) -> u32
	{
		let v = self.data.get(self.pos).copied().unwrap_or(0);
		self.pos += 1;
		v
	}

	pub fn exhausted(&self) -> bool
	{
		self.pos >= self.data.len()
	}

	pub fn used(&self) -> usize
	{
		self.pos
	}

	/// Monotone reduction into 0..n (never `%`, so shrinking the raw value
	/// shrinks the drawn value). Alternative 0 must be the simplest.
	pub fn draw(&mut self, n: usize) -> usize
	{
		if n <= 1
		{
			// Still consume nothing: a forced choice costs no entropy.
			return 0;
		}
		let x = self.raw() as u64;
		((x * n as u64) >> 32) as usize
	}

	pub fn range(&mut self, lo: i64, hi_inclusive: i64) -> i64
	{
		debug_assert!(hi_inclusive >= lo);
		lo + self.draw((hi_inclusive - lo + 1) as usize) as i64
	}

	pub fn flag(&mut self) -> bool
	{
		self.draw(2) == 1
	}

	/// true with probability num/den; false is the "simple" outcome.
	pub fn chance(&mut self, num: usize, den: usize) -> bool
	{
		self.draw(den) >= den - num
	}

	pub fn weighted(&mut self, weights: &[u32]) -> usize
	{
		let total: u64 = weights.iter().map(|w| *w as u64).sum();
		if total == 0
		{
			return 0;
		}
		let x = self.raw() as u64;
		let mut t = (x * total) >> 32;
		for (i, w) in weights.iter().enumerate()
		{
			if t < *w as u64
			{
				return i;
			}
			t -= *w as u64;
		}
		weights.len() - 1
	}

	pub fn pick<'b, T>(&mut self, items: &'b [T]) -> &'b T
	{
		let i = self.draw(items.len());
		&items[i]
	}

	pub fn u64(&mut self) -> u64
	{
		((self.raw() as u64) << 32) | self.raw() as u64
	}

	pub fn u128(&mut self) -> u128
	{
		((self.u64() as u128) << 64) | self.u64() as u128
	}
}

pub fn fnv(s: &str) -> u64
{
	let mut h: u64 = 0xcbf29ce484222325;
	for b in s.bytes()
	{
		h ^= b as u64;
		h = h.wrapping_mul(0x100000001b3);
	}
	h
}

pub fn fnv_bytes(s: &[u8]) -> u64
{
	let mut h: u64 = 0xcbf29ce484222325;
	for b in s
	{
		h ^= *b as u64;
		h = h.wrapping_mul(0x100000001b3);
	}
	h
}

fn splitmix(mut z: u64) -> u64
{
	z = z.wrapping_add(0x9e3779b97f4a7c15);
	z = (z ^ (z >> 30)).wrapping_mul(0xbf58476d1ce4e5b9);
	z = (z ^ (z >> 27)).wrapping_mul(0x94d049bb133111eb);
	z ^ (z >> 31)
}

fn case_seed(seed: u64, id: &str, stream: &str, idx: u64) -> [u8; 32]
{
	let mut out = [0u8; 32];
	let mut s = splitmix(seed ^ fnv(id)) ^ splitmix(fnv(stream)).rotate_left(17);
	s = splitmix(s ^ idx.wrapping_mul(0x9e3779b97f4a7c15));
	for i in 0..4
	{
		s = splitmix(s);
		out[i * 8..i * 8 + 8].copy_from_slice(&s.to_le_bytes());
	}
	out
}

pub struct CaseTree
{
	#[allow(dead_code)]
	runner: TestRunner,
	tree: Box<dyn ValueTree<Value = Vec<u32>>>,
}

impl CaseTree
{
	pub fn current(&self) -> Vec<u32>
	{
		self.tree.current()
	}
	pub fn simplify(&mut self) -> bool
	{
		self.tree.simplify()
	}
	pub fn complicate(&mut self) -> bool
	{
		self.tree.complicate()
	}
}

/// The proptest value tree for case `idx` of a stream; a pure function of
/// (seed, property id, stream name, idx, max_len).
pub fn case_tree(
	seed: u64,
	id: &str,
	stream: &str,
	idx: u64,
	max_len: usize,
) -> CaseTree
{
	let config = Config {
		failure_persistence: None,
		..Config::default()
	};
	let rng =
		TestRng::from_seed(RngAlgorithm::ChaCha, &case_seed(seed, id, stream, idx));
	let mut runner = TestRunner::new_with_rng(config, rng);
	let strategy = proptest::collection::vec(
		proptest::arbitrary::any::<u32>(),
		0..=max_len,
	);
	let tree = strategy.new_tree(&mut runner).expect("vec strategy");
	CaseTree {
		runner,
		tree: Box::new(tree),
	}
}
