//! C16 — the second-generation parser builds a faithful parse tree.

use crate::choices::{fnv, Choices};
use crate::engine::*;
use crate::syngen;
use crate::synterm::{self, T};
use serde_json::json;

pub struct C16;

pub struct Parsed
{
	pub lex_codes: Vec<u16>,
	pub parse_codes: Vec<u16>,
	pub xml: Vec<String>,
	pub header_xml: Vec<String>,
	pub num_declarations: usize,
	pub header_declarations: usize,
}

pub fn delta_parse(src: &str) -> Parsed
{
	let tokens = penne::delta::lexer::lex(src.as_bytes(), "m.pn");
	let mut p = Parsed {
		lex_codes: Vec::new(),
		parse_codes: Vec::new(),
		xml: Vec::new(),
		header_xml: Vec::new(),
		num_declarations: 0,
		header_declarations: 0,
	};
	if let Some(e) = tokens.errors()
	{
		p.lex_codes = e.codes();
		return p;
	}
	let tree = penne::delta::parser::parse(&tokens);
	if let Some(e) = tree.errors(&tokens)
	{
		p.parse_codes = e.codes();
		return p;
	}
	p.num_declarations = tree.num_declarations();
	p.xml = tree.as_xml(&tokens, src).collect();
	let header = tree.build_header();
	p.header_declarations = header.num_declarations();
	p.header_xml = header.as_xml(&tokens, src).collect();
	p
}

/// compare the delta tree of `src` with the alpha tree; failures into `out`
/// every `return` is followed by `:`, sits directly in a function body and
/// is the last one there
fn return_only_as_documented(src: &str) -> bool
{
	let toks = crate::reflex::lex(src.as_bytes()).toks;
	let text = |k: usize| src.get(toks[k].start..toks[k].end).unwrap_or("");
	let mut depth = 0i32;
	let mut seen_in_body = false;
	let mut in_function = false;
	for i in 0..toks.len()
	{
		if depth == 0
		{
			match text(i)
			{
				"fn" => in_function = true,
				"struct" | "const" | "import" | "word8" | "word16" | "word32" | "word64" | "word128" => in_function = false,
				_ => (),
			}
		}
		match text(i)
		{
			"{" => depth += 1,
			"}" =>
			{
				depth -= 1;
				if depth == 0
				{
					seen_in_body = false;
				}
			}
			"return" | "return!" =>
			{
				if text(i) == "return!" || depth != 1 || !in_function || seen_in_body || i + 1 >= toks.len() || text(i + 1) != ":"
				{
					return false;
				}
				seen_in_body = true;
			}
			_ =>
			{
				// nothing but the value may follow it
				if seen_in_body && depth == 1 && matches!(text(i), ";" | "var" | "goto" | "loop" | "if")
				{
					return false;
				}
			}
		}
	}
	true
}

pub fn compare_trees(src: &str, what: &str, out: &mut CaseOut) -> Option<T>
{
	crate::alpha::record_input(&[("m.pn".to_string(), src.to_string())]);
	let alpha_decls = penne::alpha::parser::parse(penne::alpha::lexer::lex(src, "m.pn"));
	// accepted by the first-generation parser: no poison anywhere in the tree
	// (check_surface_level_errors looks at top-level declarations only)
	let dump = format!("{:?}", alpha_decls);
	let alpha_ok = penne::alpha::resolver::check_surface_level_errors(&alpha_decls).is_ok()
		&& !dump.contains("Err(")
		&& !dump.contains("Poison(");
	let d = delta_parse(src);
	let delta_ok = d.lex_codes.is_empty() && d.parse_codes.is_empty();
	if !alpha_ok
	{
		out.discarded = Some(format!("{}: not accepted by the first-generation parser", what));
		return None;
	}
	if !delta_ok
	{
		let mut codes = d.lex_codes.clone();
		codes.extend(d.parse_codes.iter());
		codes.dedup();
		out.fail(
			format!("{}: syntactically valid module rejected by the second-generation parser {:?}", what, codes),
			json!({"source": src, "lex_codes": d.lex_codes, "parse_codes": d.parse_codes}),
		);
		return None;
	}
	let dt = match synterm::module_delta(&d.xml)
	{
		Ok(t) => t,
		Err(e) =>
		{
			let class: String = e
				.split(": ")
				.skip(1)
				.collect::<Vec<_>>()
				.join(": ")
				.chars()
				.map(|c| if c.is_ascii_digit() { '#' } else { c })
				.take(70)
				.collect();
			out.fail(
				format!("{}: XML dump is not well formed: {}", what, class),
				json!({"source": src, "problem": e, "xml_head": d.xml.iter().take(60).collect::<Vec<_>>()}),
			);
			return None;
		}
	};
	let at = synterm::module_alpha(&alpha_decls);
	if let Some((path, a, b)) = synterm::first_difference(&at, &dt)
	{
		let where_: String = path.split('/').rev().take(2).collect::<Vec<_>>().join("<-");
		out.fail(
			format!("{}: parse trees differ at {}", what, where_),
			json!({"source": src, "path": path, "first_generation": a.chars().take(400).collect::<String>(), "second_generation": b.chars().take(400).collect::<String>()}),
		);
		return None;
	}
	Some(dt)
}

struct Generated;
impl Stream for Generated
{
	fn name(&self) -> String
	{
		"grammar-generated-modules".into()
	}
	fn count(&self, tier: Tier) -> u64
	{
		tier.pick(200_000, 600_000)
	}
	fn choice_len(&self) -> usize
	{
		900
	}
	fn stride(&self) -> u64
	{
		16
	}
	fn run(&self, _idx: u64, c: &mut Choices, ctx: &RunCtx) -> CaseOut
	{
		let mut out = CaseOut::default();
		let decls = syngen::Syn::new(c).module(8);
		let src = syngen::render(&decls);
		out.key = fnv(&src);
		if let Some(t) = compare_trees(&src, "generated", &mut out)
		{
			let mut ks = std::collections::BTreeSet::new();
			synterm::kinds(&t, &mut ks);
			out.nontrivial = ks.len() >= 12;
			for k in ks
			{
				out.class(format!("node:{}", k));
			}
		}
		if ctx.want_sample
		{
			out.sample = Some(json!({"source": src}));
		}
		out
	}
}

struct FromPrograms;
impl Stream for FromPrograms
{
	fn name(&self) -> String
	{
		"well-typed-programs".into()
	}
	fn count(&self, tier: Tier) -> u64
	{
		tier.pick(10_000, 60_000)
	}
	fn choice_len(&self) -> usize
	{
		1600
	}
	fn run(&self, _idx: u64, c: &mut Choices, ctx: &RunCtx) -> CaseOut
	{
		use crate::ast::{print_program, Layout};
		let mut out = CaseOut::default();
		let mut prog = crate::progen::generate(c, crate::progen::Profile::exec());
		crate::c03::decorate(c, &mut prog);
		let layout = Layout::random(c);
		let src = print_program(&prog, layout, Some(c));
		out.key = fnv(&src);
		if compare_trees(&src, "program", &mut out).is_some()
		{
			out.nontrivial = true;
		}
		if ctx.want_sample
		{
			out.sample = Some(json!({"source_head": src.chars().take(400).collect::<String>()}));
		}
		out
	}
}

struct Corpus;
impl Stream for Corpus
{
	fn name(&self) -> String
	{
		"repository-corpus".into()
	}
	fn count(&self, _tier: Tier) -> u64
	{
		crate::c15::corpus_files().len() as u64
	}
	fn exhaustive(&self) -> bool
	{
		true
	}
	fn run(&self, idx: u64, _c: &mut Choices, ctx: &RunCtx) -> CaseOut
	{
		let mut out = CaseOut::default();
		let files = crate::c15::corpus_files();
		let path = &files[idx as usize];
		out.key = idx;
		let src = match std::fs::read_to_string(path)
		{
			Ok(s) => s,
			Err(_) =>
			{
				out.discarded = Some("not UTF-8".into());
				return out;
			}
		};
		if compare_trees(&src, "corpus file", &mut out).is_some()
		{
			out.nontrivial = true;
		}
		// samples the maintainers file under "invalid" are not claimed to be
		// syntactically valid: a rejection there is not a failure
		if path.to_string_lossy().contains("/invalid/") || path.to_string_lossy().contains("/unresolved/")
		{
			let before = out.failures.len();
			out.failures.retain(|f| !f.sig.contains("rejected by the second-generation parser"));
			if out.failures.len() != before
			{
				out.discarded = Some("invalid sample rejected by the second-generation parser".into());
			}
		}
		for f in out.failures.iter_mut()
		{
			if let serde_json::Value::Object(m) = &mut f.detail
			{
				m.insert("file".into(), json!(path.to_string_lossy()));
			}
		}
		if ctx.want_sample
		{
			out.sample = Some(json!({"file": path.to_string_lossy()}));
		}
		out
	}
}

/// precedence and associativity patterns for all operator pairs
struct OperatorPairs;
const BINOPS: &[&str] = &["+", "-", "*", "/", "%", "&", "|", "^", "<<", ">>"];
impl Stream for OperatorPairs
{
	fn name(&self) -> String
	{
		"operator-pairs".into()
	}
	fn count(&self, _tier: Tier) -> u64
	{
		(BINOPS.len() * BINOPS.len() * 4) as u64
	}
	fn exhaustive(&self) -> bool
	{
		true
	}
	fn stride(&self) -> u64
	{
		16
	}
	fn run(&self, idx: u64, _c: &mut Choices, ctx: &RunCtx) -> CaseOut
	{
		let mut out = CaseOut::default();
		let n = BINOPS.len() as u64;
		let a = BINOPS[(idx / 4 / n) as usize];
		let b = BINOPS[((idx / 4) % n) as usize];
		let expr = match idx % 4
		{
			0 => format!("x {} y {} z", a, b),
			1 => format!("(x {} y) {} z", a, b),
			2 => format!("x {} (y {} z)", a, b),
			_ => format!("-x {} !y as u8 {} |z|", a, b),
		};
		let src = format!("fn f(x: u8, y: u8, z: u8) -> u8\n{{\n\tvar r = {};\n\treturn: r\n}}\n", expr);
		out.key = idx;
		out.nontrivial = true;
		// combinations the grammar forbids are rejected by the first
		// generation; they are discarded inside compare_trees
		compare_trees(&src, "operator pair", &mut out);
		if ctx.want_sample
		{
			out.sample = Some(json!({"source": src}));
		}
		out
	}
}

impl Check for C16
{
	fn id(&self) -> &'static str
	{
		"C16"
	}
	fn rule(&self) -> String
	{
		"(a) grammar-generated modules covering every production the docs show: imports, pub/extern in all combinations, opaque structs, words, all type forms ([N]T, [NAME]T, []T, [:]T, &[..]T, &T, &&T, (T)), every statement form, every expression form incl. cast, chains of `as`, bitwise chains, shifts, pointer advance, |x|, |:T|, builtins, struct literals with shorthand fields, adjacent strings, reference chains, all literal spellings; (b) generated well-typed programs decorated with extern/pub and printed in random layouts; (c) every repository corpus file the first-generation parser accepts; (d) all 100 ordered pairs of binary operators in 4 parenthesisations. Oracle: the second-generation parser reports no error; the XML dump is read by a strict reader (every open tag closed by the same name, no MALFORMED); its canonical term equals the canonical term of the first-generation parser's tree (declarations, flags, names, types, statements in order, operators with the same operands in the same order, nesting, literal values, address depths, reference steps). Non-trivial: >= 12 distinct node kinds (a), accepted module (b-d); distinct by source.".into()
	}
	fn assumptions(&self) -> Vec<String>
	{
		vec![
			"normalisations granted by the property: locations and literal spellings dropped; a minus sign before a decimal literal is part of the literal (the first generation folds it); `return:` is the function's return value in both; builtin names compared without `!`".into(),
			"modules the first-generation parser rejects are discarded and counted (the generator only emits well-formed types)".into(),
		]
	}
	fn judge_bytes(&self, bytes: &[u8]) -> Option<CaseOut>
	{
		let mut out = CaseOut::default();
		if let Ok(src) = std::str::from_utf8(bytes)
		{
			// `return` is an ordinary identifier for the first generation and a
			// reserved word for the second (the properties grant this): only
			// texts that use it the documented way, as the `return:` that ends
			// a function body, are compared
			if return_only_as_documented(src)
			{
				compare_trees(src, "any text", &mut out);
			}
			else
			{
				out.discarded = Some("`return` used as an ordinary name".into());
			}
		}
		Some(out)
	}
	fn fuzz_specs(&self, tier: Tier) -> Vec<FuzzSpec>
	{
		if tier == Tier::Quick
		{
			return Vec::new();
		}
		vec![FuzzSpec {
			target: "fuzz_parsediff",
			runs_per_job: 200_000,
			jobs: 14,
			max_len: 2048,
			seeds: crate::c15::fuzz_seed_corpus(2048, 150),
			dictionary: crate::c15::fuzz_dictionary(),
		}]
	}
	fn streams(&self) -> Vec<Box<dyn Stream>>
	{
		vec![Box::new(Generated), Box::new(FromPrograms), Box::new(Corpus), Box::new(OperatorPairs)]
	}
}
