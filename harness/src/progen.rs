//! Generator of well-typed, terminating, UB-free Penne programs
//! (construction, not rejection), decoded from a choice sequence.
//!
//! Constructs that are known to hit recorded defects of the compiler are
//! excluded by construction and exercised by fixed probe programs instead
//! (see `known_defect_probes`).

use crate::ast::*;
use crate::choices::Choices;

#[derive(Clone, Debug)]
struct VarInfo
{
	name: String,
	ty: Ty,
	/// may be assigned to / have its address taken
	mutable: bool,
	/// loop counters are never written by generated statements
	counter: bool,
	/// declaration sequence number (for pointer lifetime reasoning)
	seq: usize,
}

#[derive(Clone, Debug)]
struct FuncSig
{
	params: Vec<Param>,
	ret: Option<Prim>,
	/// has pointer parameters or prints: only called at statement level
	/// or as a whole initialiser
	impure: bool,
}

#[derive(Clone, Copy, Debug)]
pub struct Profile
{
	pub max_funcs: usize,
	pub max_stmts: usize,
	pub max_depth: usize,
	pub structs: bool,
	pub pointers: bool,
	pub loops: bool,
	pub wide: bool,
	/// favour functions with pointer / view parameters and calls to them
	pub call_heavy: bool,
	/// chains of declarations without annotation whose type is inferred
	/// backwards from a later typed use
	pub infer: bool,
}

impl Profile
{
	pub fn exec() -> Profile
	{
		Profile {
			max_funcs: 4,
			max_stmts: 10,
			max_depth: 3,
			structs: true,
			pointers: true,
			loops: true,
			wide: true,
			call_heavy: false,
			infer: false,
		}
	}
	pub fn exec_with_inference() -> Profile
	{
		Profile {
			infer: true,
			..Profile::exec()
		}
	}
	pub fn calls() -> Profile
	{
		Profile {
			max_funcs: 5,
			call_heavy: true,
			..Profile::exec()
		}
	}
}

pub struct Gen<'a, 'c>
{
	c: &'a mut Choices<'c>,
	pub prog: Program,
	sigs: Vec<FuncSig>,
	scopes: Vec<Vec<VarInfo>>,
	next_var: usize,
	next_label: usize,
	next_member: usize,
	seq: usize,
	profile: Profile,
	/// while > 0 the current sequence must not declare variables directly
	/// (a goto to a later label of this sequence is pending)
	no_decl: Vec<u32>,
	in_func: usize,
	budget: usize,
	/// generating a constant initialiser: only scalar constants may be read
	in_const: bool,
	/// generating an `if` condition: no structure literals (the parser
	/// reserves `{` for the branch, as the docs' examples imply)
	in_cond: bool,
	/// statement-level call: missing argument holders may be declared first
	make_holders: bool,
	prelude: Vec<Stmt>,
}

fn lit(v: u128, ty: Prim) -> Expr
{
	Expr::Lit(v & ty.mask(), ty, Spell::default())
}

impl<'a, 'c> Gen<'a, 'c>
{
	pub fn new(c: &'a mut Choices<'c>, profile: Profile) -> Gen<'a, 'c>
	{
		Gen {
			c,
			prog: Program::default(),
			sigs: Vec::new(),
			scopes: Vec::new(),
			next_var: 0,
			next_label: 0,
			next_member: 0,
			seq: 0,
			profile,
			no_decl: Vec::new(),
			in_func: 0,
			budget: 0,
			in_const: false,
			in_cond: false,
			make_holders: false,
			prelude: Vec::new(),
		}
	}

	// ------------------------------------------------------------ types

	fn pick_prim(&mut self) -> Prim
	{
		// i32 first: the simplest choice
		let weights: &[(Prim, u32)] = &[
			(Prim::I32, 6),
			(Prim::U8, 4),
			(Prim::U32, 3),
			(Prim::I64, 3),
			(Prim::U64, 3),
			(Prim::Usize, 3),
			(Prim::I8, 2),
			(Prim::I16, 2),
			(Prim::U16, 2),
			(Prim::I128, if self.profile.wide { 2 } else { 0 }),
			(Prim::U128, if self.profile.wide { 2 } else { 0 }),
			(Prim::Bool, 2),
			(Prim::Char8, 1),
		];
		let w: Vec<u32> = weights.iter().map(|x| x.1).collect();
		weights[self.c.weighted(&w)].0
	}

	fn pick_int(&mut self) -> Prim
	{
		loop
		{
			let p = self.pick_prim();
			if p.is_int()
			{
				return p;
			}
			if self.c.exhausted()
			{
				return Prim::I32;
			}
		}
	}

	fn fresh_var(&mut self, prefix: &str) -> String
	{
		self.next_var += 1;
		format!("{}{}", prefix, self.next_var)
	}

	fn fresh_label(&mut self) -> String
	{
		self.next_label += 1;
		format!("l{}", self.next_label)
	}

	fn declare(&mut self, name: &str, ty: Ty, mutable: bool, counter: bool)
	{
		self.seq += 1;
		let seq = self.seq;
		self.scopes.last_mut().unwrap().push(VarInfo {
			name: name.to_string(),
			ty,
			mutable,
			counter,
			seq,
		});
	}

	fn visible(&self) -> Vec<VarInfo>
	{
		self.scopes.iter().flat_map(|s| s.iter().cloned()).collect()
	}

	// ----------------------------------------------------------- values

	fn interesting_value(&mut self, ty: Prim) -> u128
	{
		let m = ty.mask();
		match ty
		{
			Prim::Bool => return self.c.draw(2) as u128,
			Prim::Char8 => return *self.c.pick(&[b'a', b'Z', b'0', b' ', b'~', b'\n', 0x7f, 0xe9, 0]) as u128,
			_ => (),
		}
		match self.c.draw(10)
		{
			0 | 1 | 2 | 3 => self.c.draw(10) as u128,
			4 => self.c.draw(200) as u128,
			5 => m,                     // max unsigned / -1
			6 => m >> 1,                // max signed
			7 => (m >> 1).wrapping_add(1) & m, // min signed / 2^(n-1)
			8 => (self.c.u128()) & m,
			_ =>
			{
				// small negative for signed, large for unsigned
				let k = 1 + self.c.draw(20) as u128;
				(0u128.wrapping_sub(k)) & m
			}
		}
	}

	fn spell(&mut self, ty: Prim, bits: u128, need_suffix: bool) -> Spell
	{
		let mut sp = Spell::default();
		if !ty.is_int()
		{
			sp.upper = self.c.chance(1, 6);
			return sp;
		}
		sp.suffix = need_suffix || self.c.chance(1, 8);
		let negative = ty.signed() && ty.to_signed(bits) < 0;
		if !negative
		{
			sp.radix = match self.c.draw(8)
			{
				6 => Radix::Hex,
				7 => Radix::Bin,
				_ => Radix::Dec,
			};
			// the i128 minimum cannot be spelled in decimal without tripping a
			// recorded lint defect; everything else is fair game
		}
		sp.upper = self.c.flag();
		if self.c.chance(1, 6)
		{
			let n = 1 + self.c.draw(3);
			for _ in 0..n
			{
				sp.underscores.push(1 + self.c.draw(8));
			}
		}
		// a hex literal that ends in a hex letter cannot take a suffix that
		// starts with one; no integer suffix starts with a-f, fine.
		sp
	}

	fn literal(&mut self, ty: Prim, need_suffix: bool) -> Expr
	{
		let mut v = self.interesting_value(ty);
		if ty == Prim::I128 && v == (1u128 << 127)
		{
			v = v.wrapping_add(1);
		}
		let sp = self.spell(ty, v, need_suffix);
		Expr::Lit(v & ty.mask(), ty, sp)
	}

	// ----------------------------------------------------------- places

	/// all readable places of primitive type `want` (or any primitive if None)
	/// reachable from visible variables, up to 3 steps
	fn places(&mut self, want: Option<Prim>, for_write: bool) -> Vec<(Place, Prim)>
	{
		let mut out = Vec::new();
		let vars = self.visible();
		for v in &vars
		{
			if v.counter && for_write
			{
				continue;
			}
			let base = Place::var(&v.name);
			self.collect_places(&base, &v.ty, v.mutable, for_write, want, 0, &mut out, false);
		}
		// constants are readable
		if !for_write
		{
			for cst in self.prog.consts.clone()
			{
				// indexing a constant array is not supported in constant
				// expressions (E360)
				if self.in_const && !matches!(cst.ty, Ty::Prim(_))
				{
					continue;
				}
				let base = Place::var(&cst.name);
				self.collect_places(&base, &cst.ty, false, false, want, 0, &mut out, false);
			}
		}
		out
	}

	#[allow(clippy::too_many_arguments)]
	fn collect_places(
		&mut self,
		base: &Place,
		ty: &Ty,
		mutable: bool,
		for_write: bool,
		want: Option<Prim>,
		depth: usize,
		out: &mut Vec<(Place, Prim)>,
		after_member: bool,
	)
	{
		if depth > 3
		{
			return;
		}
		match ty
		{
			Ty::Prim(p) =>
			{
				if (want.is_none() || want == Some(*p)) && (!for_write || mutable)
				{
					out.push((base.clone(), *p));
				}
			}
			Ty::Ptr(inner) =>
			{
				// auto-dereference: through a pointer everything is mutable
				self.collect_places(base, inner, true, for_write, want, depth, out, after_member);
			}
			Ty::Array(elem, n, _) =>
			{
				if *n == 0
				{
					return;
				}
				// recorded defect: an assignment whose place ends in an element
				// step right after a member step is rejected (E504)
				let elem_is_prim = matches!(**elem, Ty::Prim(_));
				if for_write && after_member && elem_is_prim
				{
					return;
				}
				// recorded defect: element-then-member on an array of
				// structures (`a[i].m`) confuses type inference
				if matches!(**elem, Ty::Named(_)) && !after_member
				{
					return;
				}
				let idx = self.index_expr(*n);
				let mut p = base.clone();
				p.steps.push(Step::Index(Box::new(idx)));
				self.collect_places(&p, elem, mutable, for_write, want, depth + 1, out, false);
			}
			Ty::Slice(elem) | Ty::SlicePtr(elem) =>
			{
				// length unknown statically: only index 0 (callers pass
				// non-empty arrays)
				let m = matches!(ty, Ty::SlicePtr(_));
				let mut p = base.clone();
				p.steps.push(Step::Index(Box::new(lit(0, Prim::Usize))));
				if matches!(**elem, Ty::Prim(_))
				{
					self.collect_places(&p, elem, m, for_write, want, depth + 1, out, false);
				}
			}
			Ty::Named(si) =>
			{
				let members = self.prog.structs[*si].members.clone();
				for (mname, mty) in members
				{
					let mut p = base.clone();
					p.steps.push(Step::Member(mname));
					self.collect_places(&p, &mty, mutable, for_write, want, depth + 1, out, true);
				}
			}
		}
	}

	/// places whose address may be taken: mutable, and not an element of a
	/// slice / slice pointer parameter (recorded defect: `&q[0]` on `q: &[]T`
	/// fails with E500 or with an empty error list)
	fn addressable(&mut self, want: Option<Prim>) -> Vec<(Place, Prim)>
	{
		let slices: Vec<String> = self
			.visible()
			.into_iter()
			.filter(|v| matches!(v.ty, Ty::Slice(_) | Ty::SlicePtr(_)))
			.map(|v| v.name)
			.collect();
		self.places(want, true)
			.into_iter()
			.filter(|(p, _)| !slices.contains(&p.base))
			// `&a[i]`: whether this is the address of the element or the
			// pointer stored in it is settled only for arrays of pointers
			// (examples/array_of_pointers.pn); not generated
			.filter(|(p, _)| !p.steps.iter().any(|s| matches!(s, Step::Index(_))))
			.collect()
	}

	/// an in-range index expression for an array of length n
	fn index_expr(&mut self, n: usize) -> Expr
	{
		// literal index (simplest), or `counter % n`
		let counters: Vec<VarInfo> = self
			.visible()
			.into_iter()
			.filter(|v| v.ty == Ty::Prim(Prim::Usize) && v.counter)
			.collect();
		if !counters.is_empty() && self.c.chance(1, 3)
		{
			let v = self.c.pick(&counters).clone();
			let read = Expr::Read(Place::var(&v.name), Ty::Prim(Prim::Usize));
			Expr::Bin(
				BinOp::Rem,
				Box::new(read),
				Box::new(lit(n as u128, Prim::Usize)),
				Prim::Usize,
			)
		}
		else
		{
			lit(self.c.draw(n) as u128, Prim::Usize)
		}
	}

	// ------------------------------------------------------ expressions

	/// `typed`: the context fixes the type (unsuffixed literals are fine)
	fn expr(&mut self, ty: Prim, depth: usize, typed: bool) -> Expr
	{
		let leaf = depth == 0 || self.budget == 0;
		self.budget = self.budget.saturating_sub(1);
		let kinds: &[u32] = if leaf
		{
			&[2, 6, 0, 0, 0, 0, 0, 0]
		}
		else
		{
			&[1, 6, 6, 2, 3, 2, 1, 1]
		};
		match self.c.weighted(kinds)
		{
			0 => self.literal(ty, !typed),
			1 =>
			{
				let ps = self.places(Some(ty), false);
				if ps.is_empty()
				{
					return self.literal(ty, !typed);
				}
				let (p, t) = self.c.pick(&ps).clone();
				Expr::Read(p, Ty::Prim(t))
			}
			2 => self.binary(ty, depth, typed),
			3 => self.unary(ty, depth, typed),
			4 => self.cast(ty, depth),
			5 => self.call_expr(ty, depth, typed),
			6 =>
			{
				if ty == Prim::Usize
				{
					self.len_or_size()
				}
				else
				{
					self.cast(ty, depth)
				}
			}
			_ =>
			{
				let inner = self.expr(ty, depth - 1, typed);
				Expr::Paren(Box::new(inner))
			}
		}
	}

	fn len_or_size(&mut self) -> Expr
	{
		let arrays: Vec<Place> = self
			.visible()
			.into_iter()
			.filter(|v| matches!(v.ty, Ty::Array(..) | Ty::Slice(_) | Ty::SlicePtr(_)))
			.map(|v| Place::var(&v.name))
			.collect();
		if !arrays.is_empty() && self.c.flag()
		{
			Expr::Len(self.c.pick(&arrays).clone())
		}
		else
		{
			let p = self.pick_prim();
			let t = if self.c.chance(1, 3)
			{
				Ty::Array(Box::new(Ty::Prim(p)), self.c.draw(5), None)
			}
			else
			{
				Ty::Prim(p)
			};
			Expr::SizeOf(t)
		}
	}

	fn self_typed(e: &Expr) -> bool
	{
		match e
		{
			Expr::Lit(_, t, sp) => sp.suffix || !t.is_int(),
			Expr::Read(..) | Expr::Cast(..) | Expr::Len(_) | Expr::SizeOf(_) | Expr::Call(..) => true,
			Expr::Bin(_, l, r, _) => Self::self_typed(l) || Self::self_typed(r),
			Expr::Un(_, x, _) | Expr::Paren(x) => Self::self_typed(x),
			_ => true,
		}
	}

	fn binary(&mut self, ty: Prim, depth: usize, typed: bool) -> Expr
	{
		if !ty.is_int()
		{
			// bool and char8 have no binary operators in generated programs
			return self.unary(ty, depth, typed);
		}
		let ops: Vec<BinOp> = if ty.is_bitwise()
		{
			vec![
				BinOp::Add,
				BinOp::Sub,
				BinOp::Mul,
				BinOp::Div,
				BinOp::Rem,
				BinOp::And,
				BinOp::Or,
				BinOp::Xor,
				BinOp::Shl,
				BinOp::Shr,
			]
		}
		else
		{
			vec![BinOp::Add, BinOp::Sub, BinOp::Mul, BinOp::Div, BinOp::Rem]
		};
		let op = *self.c.pick(&ops);
		let l = self.expr(ty, depth - 1, typed);
		let r = match op
		{
			BinOp::Div | BinOp::Rem =>
			{
				// non-zero literal divisor; never -1 for signed types
				let mut v = 1 + self.c.draw(11) as u128;
				if ty.signed() && self.c.chance(1, 4)
				{
					v = (0u128.wrapping_sub(v + 1)) & ty.mask();
				}
				let need = !typed && !Self::self_typed(&l);
				let sp = self.spell(ty, v, need);
				Expr::Lit(v & ty.mask(), ty, sp)
			}
			BinOp::Shl | BinOp::Shr =>
			{
				let v = self.c.draw(ty.bits() as usize) as u128;
				let need = !typed && !Self::self_typed(&l);
				let sp = self.spell(ty, v, need);
				Expr::Lit(v, ty, sp)
			}
			_ =>
			{
				let t2 = typed || Self::self_typed(&l);
				self.expr(ty, depth - 1, t2)
			}
		};
		Expr::Bin(op, Box::new(l), Box::new(r), ty)
	}

	fn unary(&mut self, ty: Prim, depth: usize, typed: bool) -> Expr
	{
		if ty.signed()
		{
			let x = self.expr(ty, depth.saturating_sub(1), typed);
			// `-` directly on a literal is folded by the parser; both forms
			// mean the same
			Expr::Un(UnOp::Neg, Box::new(x), ty)
		}
		else if ty.is_bitwise() || ty == Prim::Bool
		{
			let x = self.expr(ty, depth.saturating_sub(1), typed);
			Expr::Un(UnOp::Not, Box::new(x), ty)
		}
		else
		{
			self.literal(ty, !typed)
		}
	}

	fn cast(&mut self, to: Prim, depth: usize) -> Expr
	{
		// legal sources: int<->int, u8<->char8, bool->int
		let from: Prim = match to
		{
			Prim::Bool => return self.literal(Prim::Bool, false),
			Prim::Char8 => Prim::U8,
			_ =>
			{
				let mut cands: Vec<Prim> = INT_PRIMS.iter().copied().filter(|p| *p != to).collect();
				if !self.profile.wide
				{
					cands.retain(|p| p.bits() < 128);
				}
				cands.push(Prim::Bool);
				if to == Prim::U8
				{
					cands.push(Prim::Char8);
				}
				*self.c.pick(&cands)
			}
		};
		let x = self.expr(from, depth.saturating_sub(1), false);
		Expr::Cast(Box::new(x), from, to)
	}

	fn call_expr(&mut self, ty: Prim, depth: usize, typed: bool) -> Expr
	{
		if self.in_const
		{
			return self.literal(ty, !typed);
		}
		let cands: Vec<usize> = (0..self.sigs.len())
			.filter(|i| self.sigs[*i].ret == Some(ty) && !self.sigs[*i].impure)
			.collect();
		if cands.is_empty()
		{
			return self.literal(ty, !typed);
		}
		let f = *self.c.pick(&cands);
		match self.args_for(f, depth.saturating_sub(1))
		{
			Some(args) => Expr::Call(f, args, ty),
			None => self.literal(ty, !typed),
		}
	}

	/// arguments for function f from what is visible; None if impossible
	fn args_for(&mut self, f: usize, depth: usize) -> Option<Vec<Arg>>
	{
		let params = self.sigs[f].params.clone();
		let mut args = Vec::new();
		for p in &params
		{
			let a = match &p.ty
			{
				Ty::Prim(t) => Arg::Value(self.expr(*t, depth, true)),
				Ty::Named(si) =>
				{
					let is_word = self.prog.structs[*si].word_bytes.is_some();
					let holders = self.aggregate_places(&Ty::Named(*si), false);
					if is_word
					{
						if !holders.is_empty() && (self.in_cond || self.c.flag())
						{
							let h = self.c.pick(&holders).clone();
							Arg::Value(Expr::Read(h, Ty::Named(*si)))
						}
						else if self.in_cond
						{
							return None;
						}
						else
						{
							Arg::Value(self.struct_lit(*si, depth))
						}
					}
					else
					{
						if holders.is_empty()
						{
							Arg::View(self.make_holder(&Ty::Named(*si))?)
						}
						else
						{
							Arg::View(self.c.pick(&holders).clone())
						}
					}
				}
				Ty::Slice(elem) =>
				{
					let holders = self.array_places(elem, false);
					if holders.is_empty()
					{
						let n = 1 + self.c.draw(3);
						Arg::View(self.make_holder(&Ty::Array(elem.clone(), n, None))?)
					}
					else
					{
						Arg::View(self.c.pick(&holders).clone())
					}
				}
				Ty::SlicePtr(elem) =>
				{
					let holders = self.array_places(elem, true);
					if holders.is_empty()
					{
						let n = 1 + self.c.draw(3);
						Arg::Addr(self.make_holder(&Ty::Array(elem.clone(), n, None))?, 1)
					}
					else
					{
						Arg::Addr(self.c.pick(&holders).clone(), 1)
					}
				}
				Ty::Ptr(inner) => match &**inner
				{
					Ty::Prim(t) =>
					{
						let ps = self.addressable(Some(*t));
						if ps.is_empty()
						{
							Arg::Addr(self.make_holder(&Ty::Prim(*t))?, 1)
						}
						else
						{
							Arg::Addr(self.c.pick(&ps).clone().0, 1)
						}
					}
					Ty::Named(si) =>
					{
						let holders = self.aggregate_places(&Ty::Named(*si), true);
						if holders.is_empty()
						{
							Arg::Addr(self.make_holder(&Ty::Named(*si))?, 1)
						}
						else
						{
							Arg::Addr(self.c.pick(&holders).clone(), 1)
						}
					}
					Ty::Ptr(inner2) =>
					{
						// `&&T`: address of a local pointer variable
						let ptrs: Vec<Place> = self
							.visible()
							.into_iter()
							.filter(|v| v.mutable && v.ty == Ty::Ptr(inner2.clone()))
							.map(|v| Place::var(&v.name))
							.collect();
						if ptrs.is_empty()
						{
							// declare a target and a pointer to it
							let target = match &**inner2
							{
								Ty::Prim(t) => self.make_holder(&Ty::Prim(*t))?,
								_ => return None,
							};
							let pname = self.fresh_var("p");
							let pty = Ty::Ptr(inner2.clone());
							self.declare(&pname, pty.clone(), true, false);
							self.prelude.push(Stmt::Var {
								name: pname.clone(),
								ty: pty.clone(),
								annotate: true,
								init: Some(Expr::Read(target, pty)),
							});
							Arg::Addr(Place::var(&pname), 2)
						}
						else
						{
							Arg::Addr(self.c.pick(&ptrs).clone(), 2)
						}
					}
					_ => return None,
				},
				Ty::Array(..) => return None,
			};
			args.push(a);
		}
		Some(args)
	}

	/// declare a fresh local of type `ty` (statement pushed to the prelude)
	fn make_holder(&mut self, ty: &Ty) -> Option<Place>
	{
		if !self.make_holders || !self.can_declare() || self.in_cond
		{
			return None;
		}
		let prefix = match ty
		{
			Ty::Prim(_) => "v",
			Ty::Array(..) => "a",
			Ty::Named(_) => "s",
			_ => return None,
		};
		let name = self.fresh_var(prefix);
		let saved = self.make_holders;
		self.make_holders = false;
		let init = self.init_expr(ty, 1);
		self.make_holders = saved;
		self.declare(&name, ty.clone(), true, false);
		self.prelude.push(Stmt::Var {
			name: name.clone(),
			ty: ty.clone(),
			annotate: true,
			init: Some(init),
		});
		Some(Place::var(&name))
	}

	/// places holding a value of aggregate type `ty` (struct/word)
	fn aggregate_places(&mut self, ty: &Ty, for_write: bool) -> Vec<Place>
	{
		let mut out = Vec::new();
		for v in self.visible()
		{
			let base = Place::var(&v.name);
			self.collect_aggregates(&base, &v.ty, v.mutable, for_write, ty, 0, &mut out, false);
		}
		out
	}

	#[allow(clippy::too_many_arguments)]
	fn collect_aggregates(
		&mut self,
		base: &Place,
		ty: &Ty,
		mutable: bool,
		for_write: bool,
		want: &Ty,
		depth: usize,
		out: &mut Vec<Place>,
		after_member: bool,
	)
	{
		if depth > 2
		{
			return;
		}
		if ty == want && (!for_write || mutable)
		{
			out.push(base.clone());
		}
		match ty
		{
			Ty::Ptr(inner) =>
			{
				if **inner == *want
				{
					out.push(base.clone());
				}
				else
				{
					self.collect_aggregates(base, inner, true, for_write, want, depth, out, after_member);
				}
			}
			Ty::Named(si) =>
			{
				for (mname, mty) in self.prog.structs[*si].members.clone()
				{
					let mut p = base.clone();
					p.steps.push(Step::Member(mname));
					self.collect_aggregates(&p, &mty, mutable, for_write, want, depth + 1, out, true);
				}
			}
			Ty::Array(elem, n, _) if *n > 0 && **elem == *want =>
			{
				// an element of an array of words/structs, as a whole value
				// (never followed by a member step: recorded defect)
				if for_write && after_member
				{
					return;
				}
				let idx = self.index_expr(*n);
				let mut p = base.clone();
				p.steps.push(Step::Index(Box::new(idx)));
				if !for_write || mutable
				{
					out.push(p);
				}
			}
			_ => (),
		}
	}

	/// places denoting arrays with element type `elem`
	fn array_places(&mut self, elem: &Ty, need_mut: bool) -> Vec<Place>
	{
		let mut out = Vec::new();
		for v in self.visible()
		{
			match &v.ty
			{
				Ty::Array(e, n, _) if **e == *elem && *n > 0 && (!need_mut || v.mutable) =>
				{
					out.push(Place::var(&v.name));
				}
				// rows of a two-dimensional array, as views only
				Ty::Array(row, n, _) if !need_mut && *n > 0 =>
				{
					if let Ty::Array(e, m, _) = &**row
					{
						if **e == *elem && *m > 0
						{
							let idx = self.index_expr(*n);
							out.push(Place {
								base: v.name.clone(),
								steps: vec![Step::Index(Box::new(idx))],
							});
						}
					}
				}
				// forwarding: a view as a view, a slice pointer as a slice pointer
				Ty::Slice(e) if **e == *elem && !need_mut => out.push(Place::var(&v.name)),
				Ty::SlicePtr(e) if **e == *elem && need_mut => out.push(Place::var(&v.name)),
				// a local pointer to a sized array can be viewed
				Ty::Ptr(inner) if !need_mut =>
				{
					if let Ty::Array(e, n, _) = &**inner
					{
						if **e == *elem && *n > 0
						{
							out.push(Place::var(&v.name));
						}
					}
				}
				// array members of structures
				Ty::Named(si) =>
				{
					for (mname, mty) in self.prog.structs[*si].members.clone()
					{
						if let Ty::Array(e, n, _) = &mty
						{
							if **e == *elem && *n > 0 && (!need_mut || v.mutable)
							{
								out.push(Place {
									base: v.name.clone(),
									steps: vec![Step::Member(mname)],
								});
							}
						}
					}
				}
				_ => (),
			}
		}
		out
	}

	fn struct_lit(&mut self, si: usize, depth: usize) -> Expr
	{
		let members = self.prog.structs[si].members.clone();
		let mut fields = Vec::new();
		for (name, ty) in members
		{
			let e = self.init_expr(&ty, depth);
			fields.push((name, e));
		}
		// members of a literal are matched by name: any textual order
		if fields.len() > 1 && self.c.chance(1, 2)
		{
			for i in (1..fields.len()).rev()
			{
				let j = self.c.draw(i + 1);
				fields.swap(i, j);
			}
		}
		Expr::StructLit(si, fields)
	}

	/// an initialiser for a value of type ty (typed context)
	fn init_expr(&mut self, ty: &Ty, depth: usize) -> Expr
	{
		match ty
		{
			Ty::Prim(p) => self.expr(*p, depth.min(2), true),
			Ty::Array(e, n, _) =>
			{
				let mut elems = Vec::new();
				for _ in 0..*n
				{
					elems.push(self.init_expr(e, depth.saturating_sub(1)));
				}
				Expr::ArrayLit(elems)
			}
			Ty::Named(si) => self.struct_lit(*si, depth.saturating_sub(1)),
			_ => lit(0, Prim::I32),
		}
	}

	// -------------------------------------------------------- statements

	fn cmp(&mut self, depth: usize) -> Cmp
	{
		let saved = self.in_cond;
		self.in_cond = true;
		let c = self.cmp_inner(depth);
		self.in_cond = saved;
		c
	}

	fn cmp_inner(&mut self, depth: usize) -> Cmp
	{
		let ty = self.pick_prim();
		// ordering of bool and char8 is not documented: equality only
		let ops: &[CmpOp] = if ty.is_int()
		{
			&[CmpOp::Eq, CmpOp::Ne, CmpOp::Lt, CmpOp::Le, CmpOp::Gt, CmpOp::Ge]
		}
		else
		{
			&[CmpOp::Eq, CmpOp::Ne]
		};
		let op = *self.c.pick(ops);
		let left = self.expr(ty, depth, false);
		let left = if Self::self_typed(&left)
		{
			left
		}
		else
		{
			// make the type evident
			match left
			{
				Expr::Lit(v, t, mut sp) if t.is_int() =>
				{
					sp.suffix = true;
					Expr::Lit(v, t, sp)
				}
				other =>
				{
					let ps = self.places(Some(ty), false);
					if ps.is_empty()
					{
						let sp = Spell {
							suffix: true,
							..Spell::default()
						};
						let _ = other;
						Expr::Lit(1 & ty.mask(), ty, sp)
					}
					else
					{
						let (p, t) = self.c.pick(&ps).clone();
						Expr::Read(p, Ty::Prim(t))
					}
				}
			}
		};
		let right = self.expr(ty, depth, true);
		Cmp {
			op,
			left,
			right,
			ty,
		}
	}

	fn print_stmt(&mut self) -> Stmt
	{
		let mut items = Vec::new();
		let n = 1 + self.c.draw(3);
		for i in 0..n
		{
			if i > 0
			{
				items.push(Expr::Str(b" ".to_vec()));
			}
			let ty = self.pick_prim();
			// bytes that are not valid UTF-8 on their own are still printed raw
			let e = self.expr(ty, 2, false);
			let e = if Self::self_typed(&e)
			{
				e
			}
			else
			{
				match e
				{
					Expr::Lit(v, t, mut sp) =>
					{
						sp.suffix = true;
						Expr::Lit(v, t, sp)
					}
					other => Expr::Cast(
						Box::new(other),
						ty,
						if ty == Prim::I64 { Prim::I32 } else { Prim::I64 },
					),
				}
			};
			items.push(e);
		}
		items.push(Expr::Str(b"\n".to_vec()));
		Stmt::Print(items)
	}

	fn can_declare(&self) -> bool
	{
		self.no_decl.last().copied().unwrap_or(0) == 0
	}

	fn var_stmt(&mut self, depth: usize) -> Vec<Stmt>
	{
		let kind = self.c.weighted(&[
			8,
			3,
			if self.profile.structs && !self.prog.structs.is_empty() { 3 } else { 0 },
			if self.profile.pointers { 3 } else { 0 },
			2,
		]);
		match kind
		{
			0 =>
			{
				let ty = self.pick_prim();
				let name = self.fresh_var("v");
				let style = if self.profile.infer && ty.is_int() && self.c.chance(1, 5) { 4 } else { self.c.draw(4) };
				let out = match style
				{
					// `var a = 14; var b = a; var x = b + 1; var w: T = x;`: the
					// types travel backwards from the typed use
					4 =>
					{
						// (the compiler's backward pass covers the statements of the
						// function body proper; inside nested blocks only chains
						// of two are observed to be inferred, and E581 documents
						// that an annotation can be demanded)
						let at_top = self.scopes.len() <= 3;
						let n = if at_top { 1 + self.c.draw(6) } else { 1 + self.c.draw(2) };
						let mut stmts = Vec::new();
						let mut prev: Option<String> = None;
						for i in 0..n
						{
							let nm = if i + 1 == n { name.clone() } else { self.fresh_var("v") };
							let init = match &prev
							{
								None => lit(self.c.draw(50) as u128, ty),
								Some(p) =>
								{
									let read = Expr::Read(Place::var(p), Ty::Prim(ty));
									match self.c.draw(3)
									{
										0 => read,
										1 => Expr::Bin(BinOp::Add, Box::new(read), Box::new(lit(self.c.draw(10) as u128, ty)), ty),
										_ => Expr::Paren(Box::new(read)),
									}
								}
							};
							stmts.push(Stmt::Var {
								name: nm.clone(),
								ty: Ty::Prim(ty),
								annotate: false,
								init: Some(init),
							});
							prev = Some(nm);
						}
						let anchor = self.fresh_var("v");
						stmts.push(Stmt::Var {
							name: anchor,
							ty: Ty::Prim(ty),
							annotate: true,
							init: Some(Expr::Read(Place::var(&name), Ty::Prim(ty))),
						});
						stmts
					}
					// `var x: T; x = e;`
					3 =>
					{
						let e = self.expr(ty, depth, true);
						vec![
							Stmt::Var {
								name: name.clone(),
								ty: Ty::Prim(ty),
								annotate: true,
								init: None,
							},
							Stmt::Assign(Place::var(&name), e),
						]
					}
					// `var x = e;` with a self-typed initialiser
					2 =>
					{
						let e = self.expr(ty, depth, false);
						let annotate = !Self::self_typed(&e);
						vec![Stmt::Var {
							name: name.clone(),
							ty: Ty::Prim(ty),
							annotate,
							init: Some(e),
						}]
					}
					_ =>
					{
						let e = self.expr(ty, depth, true);
						vec![Stmt::Var {
							name: name.clone(),
							ty: Ty::Prim(ty),
							annotate: true,
							init: Some(e),
						}]
					}
				};
				self.declare(&name, Ty::Prim(ty), true, false);
				out
			}
			1 =>
			{
				// arrays of primitives, one or two dimensions
				let p = self.pick_prim();
				let n = 1 + self.c.draw(4);
				let named = self.named_length(n);
				let ty = if self.c.chance(1, 4)
				{
					let m = 1 + self.c.draw(3);
					Ty::Array(Box::new(Ty::Array(Box::new(Ty::Prim(p)), n, named)), m, None)
				}
				else
				{
					Ty::Array(Box::new(Ty::Prim(p)), n, named)
				};
				let name = self.fresh_var("a");
				let init = self.init_expr(&ty, 1);
				self.declare(&name, ty.clone(), true, false);
				vec![Stmt::Var {
					name,
					ty,
					annotate: true,
					init: Some(init),
				}]
			}
			2 =>
			{
				let si = self.c.draw(self.prog.structs.len());
				let name = self.fresh_var("s");
				let init = self.struct_lit(si, 1);
				let annotate = self.c.flag();
				self.declare(&name, Ty::Named(si), true, false);
				vec![Stmt::Var {
					name,
					ty: Ty::Named(si),
					annotate,
					init: Some(init),
				}]
			}
			3 => self.pointer_var(),
			_ =>
			{
				// array of words
				let words: Vec<usize> = (0..self.prog.structs.len())
					.filter(|i| self.prog.structs[*i].word_bytes.is_some())
					.collect();
				if words.is_empty()
				{
					return Vec::new();
				}
				let si = *self.c.pick(&words);
				let n = 1 + self.c.draw(3);
				let ty = Ty::Array(Box::new(Ty::Named(si)), n, None);
				let name = self.fresh_var("a");
				let init = self.init_expr(&ty, 1);
				self.declare(&name, ty.clone(), true, false);
				vec![Stmt::Var {
					name,
					ty,
					annotate: true,
					init: Some(init),
				}]
			}
		}
	}

	fn named_length(&mut self, n: usize) -> Option<String>
	{
		let cands: Vec<String> = self
			.prog
			.consts
			.iter()
			.filter(|c| c.ty == Ty::Prim(Prim::Usize))
			.filter(|c| matches!(&c.init, Expr::Lit(v, _, _) if *v == n as u128))
			.map(|c| c.name.clone())
			.collect();
		if !cands.is_empty() && self.c.flag()
		{
			Some(self.c.pick(&cands).clone())
		}
		else
		{
			None
		}
	}

	fn pointer_var(&mut self) -> Vec<Stmt>
	{
		// target: a mutable primitive place, a struct variable, a sized array,
		// or (for `&&T`) a pointer variable — all declared before the pointer
		// and living at least as long
		let kind = self.c.draw(4);
		let name = self.fresh_var("p");
		match kind
		{
			0 | 1 =>
			{
				let ps = self.addressable(None);
				if ps.is_empty()
				{
					return Vec::new();
				}
				let (target, t) = self.c.pick(&ps).clone();
				let ty = Ty::Ptr(Box::new(Ty::Prim(t)));
				self.declare(&name, ty.clone(), true, false);
				vec![Stmt::Var {
					name,
					ty: ty.clone(),
					annotate: true,
					init: Some(Expr::Read(target, ty)),
				}]
			}
			2 =>
			{
				let ptrs: Vec<VarInfo> = self
					.visible()
					.into_iter()
					.filter(|v| v.mutable && matches!(&v.ty, Ty::Ptr(i) if matches!(**i, Ty::Prim(_))))
					.collect();
				if ptrs.is_empty()
				{
					return Vec::new();
				}
				let target = self.c.pick(&ptrs).clone();
				let ty = Ty::Ptr(Box::new(target.ty.clone()));
				self.declare(&name, ty.clone(), true, false);
				vec![Stmt::Var {
					name,
					ty: ty.clone(),
					annotate: true,
					init: Some(Expr::Read(Place::var(&target.name), ty)),
				}]
			}
			_ =>
			{
				let aggs: Vec<VarInfo> = self
					.visible()
					.into_iter()
					.filter(|v| {
						v.mutable
							&& match &v.ty
							{
								Ty::Named(si) => self.prog.structs[*si].word_bytes.is_none(),
								Ty::Array(e, n, _) => *n > 0 && matches!(**e, Ty::Prim(_)),
								_ => false,
							}
					})
					.collect();
				if aggs.is_empty()
				{
					return Vec::new();
				}
				let target = self.c.pick(&aggs).clone();
				let ty = Ty::Ptr(Box::new(target.ty.clone()));
				self.declare(&name, ty.clone(), true, false);
				vec![Stmt::Var {
					name,
					ty: ty.clone(),
					annotate: true,
					init: Some(Expr::Read(Place::var(&target.name), ty)),
				}]
			}
		}
	}

	fn assign_stmt(&mut self, depth: usize) -> Option<Stmt>
	{
		if self.c.chance(1, 6)
		{
			// whole word assignment
			let words: Vec<usize> = (0..self.prog.structs.len())
				.filter(|i| self.prog.structs[*i].word_bytes.is_some())
				.collect();
			if !words.is_empty()
			{
				let si = *self.c.pick(&words);
				let holders = self.aggregate_places(&Ty::Named(si), true);
				if !holders.is_empty()
				{
					let h = self.c.pick(&holders).clone();
					let v = self.struct_lit(si, 1);
					return Some(Stmt::Assign(h, v));
				}
			}
		}
		let ps = self.places(None, true);
		if ps.is_empty()
		{
			return None;
		}
		let (p, t) = self.c.pick(&ps).clone();
		let e = self.expr(t, depth, true);
		Some(Stmt::Assign(p, e))
	}

	fn repoint_stmt(&mut self) -> Option<Stmt>
	{
		let vis = self.visible();
		let ptrs: Vec<&VarInfo> = vis
			.iter()
			.filter(|v| v.mutable && matches!(&v.ty, Ty::Ptr(i) if matches!(**i, Ty::Prim(_))))
			.collect();
		if ptrs.is_empty()
		{
			return None;
		}
		let p = (*self.c.pick(&ptrs)).clone();
		let inner = match &p.ty
		{
			Ty::Ptr(i) => (**i).clone(),
			_ => return None,
		};
		// new target: a variable of the pointee type declared before the
		// pointer itself (so it outlives it), or another such pointer
		let targets: Vec<&VarInfo> = vis
			.iter()
			.filter(|v| v.seq < p.seq && v.mutable && !v.counter && (v.ty == inner || v.ty == p.ty))
			.collect();
		if targets.is_empty()
		{
			return None;
		}
		let t = (*self.c.pick(&targets)).clone();
		Some(Stmt::Repoint(Place::var(&p.name), Place::var(&t.name), 1))
	}

	fn call_stmt(&mut self) -> Option<Stmt>
	{
		let cands: Vec<usize> = (0..self.sigs.len()).filter(|i| self.sigs[*i].ret.is_none()).collect();
		if cands.is_empty()
		{
			return None;
		}
		let f = *self.c.pick(&cands);
		self.make_holders = true;
		let args = self.args_for(f, 1);
		self.make_holders = false;
		let args = args?;
		Some(Stmt::Call(f, args))
	}

	/// `var r: T = impure_call(...);`
	fn call_var_stmt(&mut self) -> Option<Stmt>
	{
		if !self.can_declare()
		{
			return None;
		}
		let cands: Vec<usize> = (0..self.sigs.len())
			.filter(|i| self.sigs[*i].ret.is_some() && self.sigs[*i].impure)
			.collect();
		if cands.is_empty()
		{
			return None;
		}
		let f = *self.c.pick(&cands);
		self.make_holders = true;
		let args = self.args_for(f, 1);
		self.make_holders = false;
		let args = args?;
		let ret = self.sigs[f].ret.unwrap();
		let name = self.fresh_var("r");
		self.declare(&name, Ty::Prim(ret), true, false);
		Some(Stmt::Var {
			name,
			ty: Ty::Prim(ret),
			annotate: self.c.flag(),
			init: Some(Expr::Call(f, args, ret)),
		})
	}

	fn block(&mut self, depth: usize, max: usize) -> Vec<Stmt>
	{
		self.scopes.push(Vec::new());
		self.no_decl.push(0);
		let v = self.seq_stmts(depth, max);
		self.no_decl.pop();
		self.scopes.pop();
		v
	}

	fn loop_stmt(&mut self, depth: usize) -> Vec<Stmt>
	{
		// var i: usize = 0; { if i == N goto done; ...; i = i + 1; loop; } done:
		let counter = self.fresh_var("n");
		let done = self.fresh_label();
		let n = 1 + self.c.draw(5);
		let mut out = vec![Stmt::Var {
			name: counter.clone(),
			ty: Ty::Prim(Prim::Usize),
			annotate: true,
			init: Some(lit(0, Prim::Usize)),
		}];
		self.declare(&counter, Ty::Prim(Prim::Usize), false, true);
		let read = || Expr::Read(Place::var(&counter), Ty::Prim(Prim::Usize));
		let mut body = vec![Stmt::If(
			Cmp {
				op: if self.c.flag() { CmpOp::Eq } else { CmpOp::Ge },
				left: read(),
				right: lit(n as u128, Prim::Usize),
				ty: Prim::Usize,
			},
			Branch::Goto(done.clone()),
			None,
		)];
		// statements of the loop body live in the block's scope; a goto to
		// `done` from inside is a `break`
		self.scopes.push(Vec::new());
		self.no_decl.push(0);
		let inner = self.seq_stmts(depth, 4);
		body.extend(inner);
		if self.c.chance(1, 4)
		{
			// early exit
			let c = self.cmp(1);
			body.push(Stmt::If(c, Branch::Goto(done.clone()), None));
		}
		self.no_decl.pop();
		self.scopes.pop();
		body.push(Stmt::Assign(
			Place::var(&counter),
			Expr::Bin(BinOp::Add, Box::new(read()), Box::new(lit(1, Prim::Usize)), Prim::Usize),
		));
		body.push(Stmt::Loop);
		out.push(Stmt::Block(body));
		out.push(Stmt::Label(done));
		out
	}

	/// forward goto over a few statements to a label in the same sequence
	fn goto_region(&mut self, depth: usize) -> Vec<Stmt>
	{
		let label = self.fresh_label();
		let mut out = Vec::new();
		// the jump itself: plain, conditional, or from inside nested blocks
		let jump = match self.c.draw(4)
		{
			0 => Stmt::Goto(label.clone()),
			1 =>
			{
				let c = self.cmp(1);
				Stmt::If(c, Branch::Goto(label.clone()), None)
			}
			2 =>
			{
				let c = self.cmp(1);
				let mut inner = self.block(depth.saturating_sub(1), 2);
				inner.push(Stmt::Goto(label.clone()));
				Stmt::If(c, Branch::Block(inner), None)
			}
			_ =>
			{
				let mut inner = self.block(depth.saturating_sub(1), 2);
				let c = self.cmp(1);
				inner.push(Stmt::If(c, Branch::Goto(label.clone()), None));
				Stmt::Block(vec![Stmt::Block(inner)])
			}
		};
		out.push(jump);
		// statements that may be skipped: no declarations at this level
		*self.no_decl.last_mut().unwrap() += 1;
		let n = 1 + self.c.draw(3);
		for _ in 0..n
		{
			out.extend(self.stmt(depth.saturating_sub(1)));
		}
		*self.no_decl.last_mut().unwrap() -= 1;
		out.push(Stmt::Label(label));
		out
	}

	fn if_stmt(&mut self, depth: usize) -> Stmt
	{
		let c = self.cmp(2);
		let t = Branch::Block(self.block(depth.saturating_sub(1), 3));
		let e = match self.c.draw(4)
		{
			0 | 1 => None,
			2 => Some(Branch::Block(self.block(depth.saturating_sub(1), 3))),
			_ =>
			{
				let inner = self.if_stmt(depth.saturating_sub(1));
				Some(Branch::If(Box::new(inner)))
			}
		};
		Stmt::If(c, t, e)
	}

	fn stmt(&mut self, depth: usize) -> Vec<Stmt>
	{
		let mut out = self.stmt_inner(depth);
		if !self.prelude.is_empty()
		{
			let mut pre = std::mem::take(&mut self.prelude);
			pre.append(&mut out);
			out = pre;
		}
		out
	}

	fn stmt_inner(&mut self, depth: usize) -> Vec<Stmt>
	{
		self.budget = self.budget.saturating_sub(1);
		let deep = depth > 0 && self.budget > 0;
		let w: [u32; 10] = [
			if self.can_declare() { 8 } else { 0 },            // var
			8,                                                 // assign
			6,                                                 // print
			if deep { 3 } else { 0 },                          // if
			if deep { 2 } else { 0 },                          // block
			if deep && self.profile.loops { 2 } else { 0 },    // loop
			if deep { 2 } else { 0 },                          // goto region
			if self.profile.call_heavy { 8 } else { 2 },       // call stmt
			if self.profile.pointers { 1 } else { 0 },         // repoint
			if self.profile.call_heavy { 8 } else { 2 },       // var = impure call
		];
		match self.c.weighted(&w)
		{
			0 => self.var_stmt(2),
			1 => self.assign_stmt(2).map(|s| vec![s]).unwrap_or_else(|| vec![self.print_stmt()]),
			2 => vec![self.print_stmt()],
			3 => vec![self.if_stmt(depth)],
			4 => vec![Stmt::Block(self.block(depth - 1, 4))],
			5 =>
			{
				if self.can_declare()
				{
					self.loop_stmt(depth - 1)
				}
				else
				{
					// the counter declaration must not sit between a goto and
					// its label: wrap the whole loop in a block
					self.scopes.push(Vec::new());
					self.no_decl.push(0);
					let inner = self.loop_stmt(depth - 1);
					self.no_decl.pop();
					self.scopes.pop();
					vec![Stmt::Block(inner)]
				}
			}
			6 => self.goto_region(depth),
			7 => self.call_stmt().map(|s| vec![s]).unwrap_or_else(|| vec![self.print_stmt()]),
			8 => self.repoint_stmt().map(|s| vec![s]).unwrap_or_else(|| vec![self.print_stmt()]),
			_ => self.call_var_stmt().map(|s| vec![s]).unwrap_or_else(|| vec![self.print_stmt()]),
		}
	}

	fn seq_stmts(&mut self, depth: usize, max: usize) -> Vec<Stmt>
	{
		let n = self.c.draw(max + 1);
		let mut out = Vec::new();
		for _ in 0..n
		{
			out.extend(self.stmt(depth));
		}
		out
	}

	/// print every primitive that is visible: makes the final state observable
	fn dump_state(&mut self) -> Vec<Stmt>
	{
		let mut out = Vec::new();
		let ps = self.places(None, false);
		let mut items = Vec::new();
		for (p, t) in ps.into_iter().take(24)
		{
			if self.prog.consts.iter().any(|c| c.name == p.base)
			{
				continue;
			}
			items.push(Expr::Read(p, Ty::Prim(t)));
			items.push(Expr::Str(b" ".to_vec()));
			if items.len() >= 12
			{
				items.push(Expr::Str(b"\n".to_vec()));
				out.push(Stmt::Print(std::mem::take(&mut items)));
			}
		}
		if !items.is_empty()
		{
			items.push(Expr::Str(b"\n".to_vec()));
			out.push(Stmt::Print(items));
		}
		out
	}

	// -------------------------------------------------------- top level

	fn gen_structs(&mut self)
	{
		if !self.profile.structs
		{
			return;
		}
		let n = self.c.draw(4);
		for _ in 0..n
		{
			let idx = self.prog.structs.len();
			let is_word = self.c.flag();
			if is_word
			{
				let bytes = *self.c.pick(&[8usize, 4, 2, 16, 1]);
				let mut members = Vec::new();
				let mut used = 0;
				// exactly filled, with naturally aligned members
				while used < bytes
				{
					let rest = bytes - used;
					let mut cands: Vec<Prim> = vec![
						Prim::U8,
						Prim::I8,
						Prim::Bool,
						Prim::U16,
						Prim::I16,
						Prim::U32,
						Prim::I32,
						Prim::U64,
						Prim::I64,
					];
					cands.retain(|p| p.bytes() <= rest && used % p.bytes() == 0);
					let p = *self.c.pick(&cands);
					self.next_member += 1;
					members.push((format!("m{}", self.next_member), Ty::Prim(p)));
					used += p.bytes();
				}
				self.prog.structs.push(StructDecl {
					name: format!("W{}", idx),
					word_bytes: Some(bytes),
					members,
					public: false,
				});
			}
			else
			{
				let k = 1 + self.c.draw(4);
				let mut members = Vec::new();
				for _ in 0..k
				{
					self.next_member += 1;
					let mname = format!("m{}", self.next_member);
					let ty = match self.c.draw(6)
					{
						0 | 1 | 2 => Ty::Prim(self.pick_prim()),
						3 =>
						{
							let p = self.pick_prim();
							Ty::Array(Box::new(Ty::Prim(p)), 1 + self.c.draw(3), None)
						}
						_ =>
						{
							// an earlier struct or word by value (no cycles)
							if idx > 0
							{
								Ty::Named(self.c.draw(idx))
							}
							else
							{
								Ty::Prim(self.pick_prim())
							}
						}
					};
					members.push((mname, ty));
				}
				self.prog.structs.push(StructDecl {
					name: format!("S{}", idx),
					word_bytes: None,
					members,
					public: false,
				});
			}
			self.prog.order.push(Top::Struct(idx));
		}
	}

	fn gen_consts(&mut self)
	{
		self.in_const = true;
		self.gen_consts_inner();
		self.in_const = false;
	}

	fn gen_consts_inner(&mut self)
	{
		let n = self.c.draw(4);
		for _ in 0..n
		{
			let idx = self.prog.consts.len();
			let name = format!("C{}", idx);
			if self.c.chance(1, 3)
			{
				// a length constant
				let v = 1 + self.c.draw(4) as u128;
				self.prog.consts.push(ConstDecl {
					name,
					ty: Ty::Prim(Prim::Usize),
					init: lit(v, Prim::Usize),
					public: false,
				});
			}
			else if self.c.chance(1, 4)
			{
				let p = self.pick_int();
				let len = 1 + self.c.draw(3);
				let ty = Ty::Array(Box::new(Ty::Prim(p)), len, None);
				self.scopes.push(Vec::new());
				let init = self.init_expr(&ty, 0);
				self.scopes.pop();
				self.prog.consts.push(ConstDecl {
					name,
					ty,
					init,
					public: false,
				});
			}
			else
			{
				let p = self.pick_prim();
				// constant expressions: literals, earlier constants, operators
				self.scopes.push(Vec::new());
				self.budget = 6;
				let init = self.expr(p, 2, true);
				self.scopes.pop();
				self.prog.consts.push(ConstDecl {
					name,
					ty: Ty::Prim(p),
					init,
					public: false,
				});
			}
			self.prog.order.push(Top::Const(idx));
		}
	}

	fn gen_params(&mut self) -> Vec<Param>
	{
		let n = self.c.draw(4);
		let mut out = Vec::new();
		for _ in 0..n
		{
			let name = self.fresh_var("q");
			let structs: Vec<usize> = (0..self.prog.structs.len()).collect();
			let heavy = if self.profile.call_heavy { 3 } else { 1 };
			let ty = match self.c.weighted(&[
				6,
				if self.profile.pointers { 3 * heavy } else { 0 },
				3 * heavy,
				if self.profile.pointers { 2 * heavy } else { 0 },
				if structs.is_empty() { 0 } else { 3 * heavy },
				if structs.is_empty() || !self.profile.pointers { 0 } else { 2 * heavy },
				if self.profile.pointers { heavy } else { 0 },
			])
			{
				0 => Ty::Prim(self.pick_prim()),
				1 => Ty::Ptr(Box::new(Ty::Prim(self.pick_prim()))),
				2 => Ty::Slice(Box::new(Ty::Prim(self.pick_prim()))),
				3 => Ty::SlicePtr(Box::new(Ty::Prim(self.pick_prim()))),
				4 => Ty::Named(*self.c.pick(&structs)),
				5 =>
				{
					let s: Vec<usize> = structs
						.iter()
						.copied()
						.filter(|i| self.prog.structs[*i].word_bytes.is_none())
						.collect();
					if s.is_empty()
					{
						Ty::Prim(self.pick_prim())
					}
					else
					{
						Ty::Ptr(Box::new(Ty::Named(*self.c.pick(&s))))
					}
				}
				_ => Ty::Ptr(Box::new(Ty::Ptr(Box::new(Ty::Prim(self.pick_prim()))))),
			};
			out.push(Param { name, ty });
		}
		out
	}

	fn gen_function(&mut self, is_main: bool)
	{
		let idx = self.prog.funcs.len();
		self.in_func = idx;
		let params = if is_main { Vec::new() } else { self.gen_params() };
		let ret = if is_main
		{
			Some(Prim::I32)
		}
		else if self.c.chance(3, 4)
		{
			Some(self.pick_prim())
		}
		else
		{
			None
		};
		self.scopes.push(Vec::new());
		for p in &params
		{
			// by-value parameters and views are immutable; pointers give
			// mutable access to their pointee (handled in collect_places)
			let mutable = false;
			self.scopes.last_mut().unwrap().push(VarInfo {
				name: p.name.clone(),
				ty: p.ty.clone(),
				mutable,
				counter: false,
				seq: 0,
			});
		}
		self.scopes.push(Vec::new());
		self.no_decl.push(0);
		self.budget = if is_main { 60 } else { 30 };
		let max = self.profile.max_stmts;
		let mut body = self.seq_stmts(self.profile.max_depth, max);
		if is_main
		{
			body.extend(self.dump_state());
		}
		let ret_expr = ret.map(|t| {
			self.budget = 6;
			if is_main
			{
				let e = self.expr(t, 1, true);
				// exit status is the low byte; keep it in range via a cast chain
				e
			}
			else
			{
				self.expr(t, 2, true)
			}
		});
		self.no_decl.pop();
		self.scopes.pop();
		self.scopes.pop();
		let impure = body_has_print_or_call(&body)
			|| params.iter().any(|p| matches!(p.ty, Ty::Ptr(_) | Ty::SlicePtr(_)));
		self.sigs.push(FuncSig {
			params: params.clone(),
			ret,
			impure,
		});
		self.prog.funcs.push(FuncDecl {
			name: if is_main { "main".to_string() } else { format!("f{}", idx) },
			params,
			ret,
			body,
			ret_expr,
			public: false,
			external: false,
			head_only: false,
		});
		self.prog.order.push(Top::Func(idx));
	}

	pub fn program(mut self) -> Program
	{
		self.scopes.push(Vec::new());
		self.gen_structs();
		self.gen_consts();
		let nf = self.c.draw(self.profile.max_funcs + 1);
		for _ in 0..nf
		{
			self.gen_function(false);
		}
		self.gen_function(true);
		// top-level order is free: shuffle it
		let n = self.prog.order.len();
		if n > 1 && self.c.flag()
		{
			for i in (1..n).rev()
			{
				let j = self.c.draw(i + 1);
				self.prog.order.swap(i, j);
			}
		}
		self.prog
	}
}

fn body_has_print_or_call(body: &[Stmt]) -> bool
{
	body.iter().any(|s| match s
	{
		Stmt::Print(_) | Stmt::Call(..) => true,
		Stmt::Block(b) => body_has_print_or_call(b),
		Stmt::If(_, t, e) =>
		{
			let bt = match t
			{
				Branch::Block(b) => body_has_print_or_call(b),
				Branch::If(s) => body_has_print_or_call(std::slice::from_ref(s)),
				_ => false,
			};
			let be = match e
			{
				Some(Branch::Block(b)) => body_has_print_or_call(b),
				Some(Branch::If(s)) => body_has_print_or_call(std::slice::from_ref(s)),
				_ => false,
			};
			bt || be
		}
		Stmt::Var { init: Some(Expr::Call(..)), .. } => true,
		_ => false,
	})
}

pub fn generate(c: &mut Choices, profile: Profile) -> Program
{
	Gen::new(c, profile).program()
}

// ---------------------------------------------------------------- C10 helpers

/// constants initialised with expressions (referring to each other in any
/// order), each mirrored by a local variable with the same initialiser
pub fn const_program(c: &mut Choices) -> Program
{
	let mut g = Gen::new(c, Profile::exec());
	g.scopes.push(Vec::new());
	g.in_const = true;
	let n = 2 + g.c.draw(7);
	for i in 0..n
	{
		let ty = if g.c.chance(1, 5) { Prim::Usize } else { g.pick_int() };
		g.budget = 4 + g.c.draw(30);
		let depth = 1 + g.c.draw(5);
		let init = g.expr(ty, depth, true);
		g.prog.consts.push(ConstDecl {
			name: format!("C{}", i),
			ty: Ty::Prim(ty),
			init,
			public: false,
		});
	}
	g.in_const = false;
	let mut body = Vec::new();
	for i in 0..n
	{
		let k = g.prog.consts[i].clone();
		let ty = k.ty.prim().unwrap();
		body.push(Stmt::Var {
			name: format!("v{}", i),
			ty: k.ty.clone(),
			annotate: true,
			init: Some(k.init.clone()),
		});
		body.push(Stmt::Print(vec![
			Expr::Read(Place::var(&k.name), Ty::Prim(ty)),
			Expr::Str(b" ".to_vec()),
			Expr::Read(Place::var(&format!("v{}", i)), Ty::Prim(ty)),
			Expr::Str(b"\n".to_vec()),
		]));
	}
	g.prog.funcs.push(FuncDecl {
		name: "main".into(),
		params: Vec::new(),
		ret: Some(Prim::I32),
		body,
		ret_expr: Some(lit(0, Prim::I32)),
		public: false,
		external: false,
		head_only: false,
	});
	// any top-level order: constants may refer to later ones
	let mut order: Vec<Top> = (0..n).map(Top::Const).collect();
	order.push(Top::Func(0));
	for i in (1..order.len()).rev()
	{
		let j = g.c.draw(i + 1);
		order.swap(i, j);
	}
	g.prog.order = order;
	g.prog
}

/// structures and words with random member lists; sizes printed at run time
/// and through constants
pub fn layout_program(c: &mut Choices) -> Program
{
	let mut g = Gen::new(c, Profile::exec());
	g.scopes.push(Vec::new());
	let n = 1 + g.c.draw(5);
	for _ in 0..n
	{
		let idx = g.prog.structs.len();
		if g.c.chance(1, 3)
		{
			// exactly filled word, members naturally aligned, may nest words
			let bytes = *g.c.pick(&[8usize, 4, 2, 16, 1]);
			let mut members = Vec::new();
			let mut used = 0;
			while used < bytes
			{
				let rest = bytes - used;
				let words: Vec<usize> = (0..idx)
					.filter(|i| {
						g.prog.structs[*i]
							.word_bytes
							.map(|b| b <= rest && used % b.min(8) == 0)
							.unwrap_or(false)
					})
					.collect();
				g.next_member += 1;
				let mname = format!("m{}", g.next_member);
				if !words.is_empty() && g.c.chance(1, 3)
				{
					let w = *g.c.pick(&words);
					used += g.prog.structs[w].word_bytes.unwrap();
					members.push((mname, Ty::Named(w)));
					continue;
				}
				let mut cands: Vec<Prim> = vec![
					Prim::U8,
					Prim::I8,
					Prim::Bool,
					Prim::Char8,
					Prim::U16,
					Prim::I16,
					Prim::U32,
					Prim::I32,
					Prim::U64,
					Prim::I64,
				];
				cands.retain(|p| p.bytes() <= rest && used % p.bytes() == 0);
				let p = *g.c.pick(&cands);
				used += p.bytes();
				members.push((mname, Ty::Prim(p)));
			}
			g.prog.structs.push(StructDecl {
				name: format!("W{}", idx),
				word_bytes: Some(bytes),
				members,
				public: false,
			});
		}
		else
		{
			let k = g.c.draw(6);
			let mut members = Vec::new();
			for _ in 0..k
			{
				g.next_member += 1;
				let mname = format!("m{}", g.next_member);
				let ty = match g.c.draw(7)
				{
					0 | 1 | 2 => Ty::Prim(*g.c.pick(ALL_PRIMS)),
					3 =>
					{
						let p = *g.c.pick(ALL_PRIMS);
						Ty::Array(Box::new(Ty::Prim(p)), g.c.draw(5), None)
					}
					4 => Ty::Ptr(Box::new(Ty::Prim(*g.c.pick(ALL_PRIMS)))),
					_ =>
					{
						if idx > 0
						{
							let j = g.c.draw(idx);
							if g.c.flag()
							{
								Ty::Named(j)
							}
							else
							{
								Ty::Array(Box::new(Ty::Named(j)), g.c.draw(4), None)
							}
						}
						else
						{
							Ty::Prim(*g.c.pick(ALL_PRIMS))
						}
					}
				};
				members.push((mname, ty));
			}
			g.prog.structs.push(StructDecl {
				name: format!("S{}", idx),
				word_bytes: None,
				members,
				public: false,
			});
		}
	}
	let mut body = Vec::new();
	let ns = g.prog.structs.len();
	for i in 0..ns
	{
		let k = 1 + g.c.draw(4);
		g.prog.consts.push(ConstDecl {
			name: format!("SZ{}", i),
			ty: Ty::Prim(Prim::Usize),
			init: Expr::SizeOf(Ty::Named(i)),
			public: false,
		});
		body.push(Stmt::Print(vec![
			Expr::SizeOf(Ty::Named(i)),
			Expr::Str(b" ".to_vec()),
			Expr::Read(Place::var(&format!("SZ{}", i)), Ty::Prim(Prim::Usize)),
			Expr::Str(b" ".to_vec()),
			Expr::SizeOf(Ty::Array(Box::new(Ty::Named(i)), k, None)),
			Expr::Str(b"\n".to_vec()),
		]));
	}
	for _ in 0..g.c.draw(4)
	{
		let p = *g.c.pick(ALL_PRIMS);
		let k = g.c.draw(6);
		let m = 1 + g.c.draw(3);
		body.push(Stmt::Print(vec![
			Expr::SizeOf(Ty::Prim(p)),
			Expr::Str(b" ".to_vec()),
			Expr::SizeOf(Ty::Array(Box::new(Ty::Prim(p)), k, None)),
			Expr::Str(b" ".to_vec()),
			Expr::SizeOf(Ty::Array(
				Box::new(Ty::Array(Box::new(Ty::Prim(p)), k, None)),
				m,
				None,
			)),
			Expr::Str(b"\n".to_vec()),
		]));
	}
	g.prog.funcs.push(FuncDecl {
		name: "main".into(),
		params: Vec::new(),
		ret: Some(Prim::I32),
		body,
		ret_expr: Some(lit(0, Prim::I32)),
		public: false,
		external: false,
		head_only: false,
	});
	let mut order: Vec<Top> = (0..ns).map(Top::Struct).collect();
	order.extend((0..ns).map(Top::Const));
	order.push(Top::Func(0));
	for i in (1..order.len()).rev()
	{
		let j = g.c.draw(i + 1);
		order.swap(i, j);
	}
	g.prog.order = order;
	g.prog
}
