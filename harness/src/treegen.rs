//! Exhaustive enumeration (ranking/unranking) and random generation of
//! statement trees, shared by the small-scope checks C04, C05, C06.

use crate::choices::Choices;

#[derive(Debug, Clone, PartialEq)]
pub enum Node
{
	Atom(usize),
	Block(Vec<Node>),
	/// `if c <branch>`
	If(Box<Node>),
	/// `if c <branch> else <branch>`
	IfElse(Box<Node>, Box<Node>),
}

#[derive(Clone, Copy)]
pub struct Grammar
{
	pub atoms: usize,
	/// branches may be any statement (true) or only braced blocks (false)
	pub naked_branches: bool,
}

pub struct Counter
{
	g: Grammar,
	max_n: usize,
	max_d: usize,
	seqs: Vec<Vec<u64>>, // [d][n]
	stmt: Vec<Vec<u64>>, // [d][s]
}

impl Counter
{
	pub fn new(g: Grammar, max_n: usize, max_d: usize) -> Counter
	{
		let mut c = Counter {
			g,
			max_n,
			max_d,
			seqs: vec![vec![0; max_n + 1]; max_d + 1],
			stmt: vec![vec![0; max_n + 1]; max_d + 1],
		};
		for d in 0..=max_d
		{
			// stmt[d][s] needs seqs[d-1][*]
			for s in 1..=max_n
			{
				let mut t: u64 = if s == 1 { g.atoms as u64 } else { 0 };
				if d > 0
				{
					t += c.seqs[d - 1][s - 1]; // block
					t += c.branch(s - 1, d); // if
					for i in 1..s.saturating_sub(1)
					{
						t += c.branch(i, d) * c.branch(s - 1 - i, d);
					}
				}
				c.stmt[d][s] = t;
			}
			c.seqs[d][0] = 1;
			for n in 1..=max_n
			{
				let mut t = 0;
				for s in 1..=n
				{
					t += c.stmt[d][s] * c.seqs[d][n - s];
				}
				c.seqs[d][n] = t;
			}
		}
		c
	}

	/// number of branches of size s for an `if` whose own depth budget is d >= 1
	fn branch(&self, s: usize, d: usize) -> u64
	{
		if s == 0 || d == 0
		{
			return 0;
		}
		if self.g.naked_branches
		{
			self.stmt[d - 1][s]
		}
		else
		{
			// a braced block of size s whose content has depth budget d - 1
			self.seqs[d - 1][s - 1]
		}
	}

	/// number of bodies (statement sequences) of total size 1..=max_n
	pub fn total(&self) -> u64
	{
		(1..=self.max_n).map(|n| self.seqs[self.max_d][n]).sum()
	}

	pub fn unrank(&self, mut idx: u64) -> Vec<Node>
	{
		for n in 1..=self.max_n
		{
			let k = self.seqs[self.max_d][n];
			if idx < k
			{
				return self.unrank_seq(idx, n, self.max_d);
			}
			idx -= k;
		}
		Vec::new()
	}

	fn unrank_seq(&self, mut idx: u64, n: usize, d: usize) -> Vec<Node>
	{
		if n == 0
		{
			return Vec::new();
		}
		for s in 1..=n
		{
			let k = self.stmt[d][s] * self.seqs[d][n - s];
			if idx < k
			{
				let rest = self.seqs[d][n - s];
				let first = self.unrank_stmt(idx / rest, s, d);
				let mut v = vec![first];
				v.extend(self.unrank_seq(idx % rest, n - s, d));
				return v;
			}
			idx -= k;
		}
		unreachable!("rank out of range")
	}

	fn unrank_branch(&self, idx: u64, s: usize, d: usize) -> Node
	{
		if self.g.naked_branches
		{
			self.unrank_stmt(idx, s, d - 1)
		}
		else
		{
			Node::Block(self.unrank_seq(idx, s - 1, d - 1))
		}
	}

	fn unrank_stmt(&self, mut idx: u64, s: usize, d: usize) -> Node
	{
		if s == 1
		{
			if idx < self.g.atoms as u64
			{
				return Node::Atom(idx as usize);
			}
			idx -= self.g.atoms as u64;
		}
		// d > 0 from here
		let k = self.seqs[d - 1][s - 1];
		if idx < k
		{
			return Node::Block(self.unrank_seq(idx, s - 1, d - 1));
		}
		idx -= k;
		let k = self.branch(s - 1, d);
		if idx < k
		{
			return Node::If(Box::new(self.unrank_branch(idx, s - 1, d)));
		}
		idx -= k;
		for i in 1..s.saturating_sub(1)
		{
			let a = self.branch(i, d);
			let b = self.branch(s - 1 - i, d);
			if idx < a * b
			{
				let x = self.unrank_branch(idx / b, i, d);
				let y = self.unrank_branch(idx % b, s - 1 - i, d);
				return Node::IfElse(Box::new(x), Box::new(y));
			}
			idx -= a * b;
		}
		unreachable!("stmt rank out of range")
	}
}

/// random body: up to `budget` nodes, nesting up to `depth`
pub fn random_seq(
	c: &mut Choices,
	g: Grammar,
	budget: &mut usize,
	depth: usize,
	max_len: usize,
) -> Vec<Node>
{
	let n = c.draw(max_len + 1);
	let mut v = Vec::new();
	for _ in 0..n
	{
		if *budget == 0
		{
			break;
		}
		v.push(random_stmt(c, g, budget, depth));
	}
	v
}

fn random_branch(c: &mut Choices, g: Grammar, budget: &mut usize, depth: usize) -> Node
{
	if g.naked_branches && c.chance(1, 3)
	{
		random_stmt(c, g, budget, depth)
	}
	else
	{
		*budget = budget.saturating_sub(1);
		Node::Block(random_seq(c, g, budget, depth.saturating_sub(1), 4))
	}
}

pub fn random_stmt(c: &mut Choices, g: Grammar, budget: &mut usize, depth: usize) -> Node
{
	*budget = budget.saturating_sub(1);
	let kind = if depth == 0 || *budget == 0 { 0 } else { c.weighted(&[6, 2, 2, 1]) };
	match kind
	{
		0 => Node::Atom(c.draw(g.atoms)),
		1 => Node::Block(random_seq(c, g, budget, depth - 1, 5)),
		2 => Node::If(Box::new(random_branch(c, g, budget, depth - 1))),
		_ =>
		{
			let a = random_branch(c, g, budget, depth - 1);
			let b = random_branch(c, g, budget, depth - 1);
			Node::IfElse(Box::new(a), Box::new(b))
		}
	}
}

pub fn size(v: &[Node]) -> usize
{
	v.iter()
		.map(|n| match n
		{
			Node::Atom(_) => 1,
			Node::Block(b) => 1 + size(b),
			Node::If(b) => 1 + size(std::slice::from_ref(b)),
			Node::IfElse(a, b) =>
			{
				1 + size(std::slice::from_ref(a)) + size(std::slice::from_ref(b))
			}
		})
		.sum()
}

pub fn depth(v: &[Node]) -> usize
{
	v.iter()
		.map(|n| match n
		{
			Node::Atom(_) => 0,
			Node::Block(b) => 1 + depth(b),
			Node::If(b) => 1 + depth(std::slice::from_ref(b)),
			Node::IfElse(a, b) =>
			{
				1 + depth(std::slice::from_ref(a)).max(depth(std::slice::from_ref(b)))
			}
		})
		.max()
		.unwrap_or(0)
}

/// print a body; `atom` renders one atom as a full statement
pub fn print_seq(v: &[Node], indent: usize, atom: &dyn Fn(usize) -> String, out: &mut String)
{
	for n in v
	{
		print_stmt(n, indent, atom, out);
	}
}

fn pad(indent: usize, out: &mut String)
{
	for _ in 0..indent
	{
		out.push('\t');
	}
}

pub fn print_stmt(n: &Node, indent: usize, atom: &dyn Fn(usize) -> String, out: &mut String)
{
	match n
	{
		Node::Atom(k) =>
		{
			pad(indent, out);
			out.push_str(&atom(*k));
			out.push('\n');
		}
		Node::Block(b) =>
		{
			pad(indent, out);
			out.push_str("{\n");
			print_seq(b, indent + 1, atom, out);
			pad(indent, out);
			out.push_str("}\n");
		}
		Node::If(b) =>
		{
			pad(indent, out);
			out.push_str("if p == 0\n");
			print_stmt(b, indent + if matches!(**b, Node::Block(_)) { 0 } else { 1 }, atom, out);
		}
		Node::IfElse(a, b) =>
		{
			pad(indent, out);
			out.push_str("if p == 0\n");
			print_stmt(a, indent + if matches!(**a, Node::Block(_)) { 0 } else { 1 }, atom, out);
			pad(indent, out);
			out.push_str("else\n");
			print_stmt(b, indent + if matches!(**b, Node::Block(_)) { 0 } else { 1 }, atom, out);
		}
	}
}
