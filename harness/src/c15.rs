//! C15 — the second-generation front end is total and memory-safe on any bytes.

use crate::choices::{fnv_bytes, Choices};
use crate::engine::*;
use crate::lexgen;
use crate::reflex;
use serde_json::json;

pub struct C15;

#[derive(Default, Debug)]
pub struct DeltaRun
{
	pub lex_codes: Vec<u16>,
	pub parse_codes: Option<Vec<u16>>,
	pub num_tokens: usize,
	pub num_nodes: usize,
	pub num_declarations: usize,
	pub header_declarations: usize,
	pub xml_lines: usize,
}

/// The sequence of src/main.rs::compile_to_ir_using_delta, every dump fully
/// iterated. Panics propagate (the worker process dies and the driver records
/// the panic site).
pub fn run_delta(bytes: &[u8], dumps: bool) -> DeltaRun
{
	let mut r = DeltaRun::default();
	let tokens = penne::delta::lexer::lex(bytes, "x.pn");
	r.num_tokens = tokens.base_tokens().len();
	if let Some(errors) = tokens.errors()
	{
		r.lex_codes = errors.codes();
		return r;
	}
	let text = std::str::from_utf8(bytes).ok();
	if let (Some(text), true) = (text, dumps)
	{
		for line in tokens.as_xml(text)
		{
			r.xml_lines += 1;
			std::hint::black_box(&line);
		}
	}
	let tree = penne::delta::parser::parse(&tokens);
	r.num_nodes = tree.num_parse_nodes();
	r.num_declarations = tree.num_declarations();
	if let Some(errors) = tree.errors(&tokens)
	{
		r.parse_codes = Some(errors.codes());
		return r;
	}
	r.parse_codes = Some(Vec::new());
	if let (Some(text), true) = (text, dumps)
	{
		for line in tree.as_xml(&tokens, text)
		{
			r.xml_lines += 1;
			std::hint::black_box(&line);
		}
	}
	let header = tree.build_header();
	r.header_declarations = header.num_declarations();
	if let (Some(text), true) = (text, dumps)
	{
		for line in header.as_xml(&tokens, text)
		{
			r.xml_lines += 1;
			std::hint::black_box(&line);
		}
	}
	r
}

/// token-vector oracle: what delta published must be exactly what the
/// reference lexer sees (an extra, missing or garbage token cannot match)
fn check_tokens(bytes: &[u8], out: &mut CaseOut)
{
	if bytes.is_empty()
	{
		// E101 has no position to speak of (delta reports line 0, alpha line 1)
		return;
	}
	let r = reflex::lex(bytes);
	if !r.unspecified.is_empty()
	{
		return;
	}
	let dl = penne::delta::lexer::lex(bytes, "x.pn");
	let codes = dl.errors().map(|e| e.codes()).unwrap_or_default();
	if codes == [103] || codes == [102]
	{
		return;
	}
	let d = reflex::delta_tokens(bytes, &dl);
	if !d.tail_ok
	{
		out.fail(
			"delta token vector does not end in exactly two EndOfSource tokens",
			json!({"source": String::from_utf8_lossy(bytes)}),
		);
	}
	let mut dt = reflex::merge_bytewise_e110(bytes, &d.toks);
	let mut rt = r.toks.clone();
	if d.num_errors >= 100
	{
		// documented cap: delta stops recording errors after the first 100;
		// the ordinary tokens must still all be there
		dt.retain(|t| !t.kind.starts_with('E'));
		rt.retain(|t| !t.kind.starts_with('E'));
	}
	if let Some((_, w, cls, ex)) = reflex::first_diff(bytes, &dt, &rt, false)
	{
		out.fail(
			format!("delta-vs-reference {} at={}", w, cls),
			json!({"source": String::from_utf8_lossy(bytes), "first_difference": ex}),
		);
	}
}

fn classify(r: &DeltaRun, out: &mut CaseOut)
{
	if !r.lex_codes.is_empty()
	{
		out.class("outcome:lex-error");
	}
	else if r.parse_codes.as_ref().map(|c| !c.is_empty()).unwrap_or(false)
	{
		out.class("outcome:parse-error");
	}
	else
	{
		out.class("outcome:accepted");
	}
}

pub fn corpus_files() -> Vec<std::path::PathBuf>
{
	fn walk(dir: &std::path::Path, out: &mut Vec<std::path::PathBuf>)
	{
		if let Ok(rd) = std::fs::read_dir(dir)
		{
			let mut entries: Vec<_> = rd.filter_map(|e| e.ok()).map(|e| e.path()).collect();
			entries.sort();
			for p in entries
			{
				if p.is_dir()
				{
					walk(&p, out);
				}
				else if p.extension().map(|e| e == "pn").unwrap_or(false)
				{
					out.push(p);
				}
			}
		}
	}
	let mut v = Vec::new();
	for d in ["tests/samples", "examples", "core", "vendor"]
	{
		walk(&std::path::Path::new("/repo").join(d), &mut v);
	}
	v
}

/// every k-th repository corpus file of at most `max_len` bytes
pub fn fuzz_seed_corpus(max_len: usize, n: usize) -> Vec<Vec<u8>>
{
	let all: Vec<Vec<u8>> = corpus_files()
		.iter()
		.filter_map(|p| std::fs::read(p).ok())
		.filter(|b| b.len() <= max_len)
		.collect();
	let step = (all.len() / n.max(1)).max(1);
	all.into_iter().step_by(step).take(n).collect()
}

pub fn fuzz_dictionary() -> Vec<String>
{
	[
		"fn", "var", "const", "if", "else", "goto", "loop", "as", "cast", "pub", "extern", "struct",
		"word8", "word16", "word32", "word64", "word128", "import", "i8", "i16", "i32", "i64", "i128",
		"u8", "u16", "u32", "u64", "u128", "usize", "bool", "char8", "void", "true", "false", "->",
		"|:", "==", "!=", "<=", ">=", "<<", ">>", "..", "[..]", "[]", "print!", "format!", "abort!",
		"file!", "line!", "0x", "0b", "'\\n'", "\"\\u{20ac}\"", "\r\n", "//", "return:", "&", "|x|",
	]
	.iter()
	.map(|s| s.to_string())
	.collect()
}

pub fn mutate_bytes(c: &mut Choices, data: &mut Vec<u8>, other: &[u8])
{
	let n = 1 + c.draw(4);
	for _ in 0..n
	{
		if data.is_empty()
		{
			data.push(c.draw(256) as u8);
			continue;
		}
		let pos = c.draw(data.len());
		match c.draw(9)
		{
			0 => data[pos] ^= 1 << c.draw(8),
			1 =>
			{
				data.insert(pos, c.draw(256) as u8);
			}
			2 =>
			{
				data.remove(pos);
			}
			3 =>
			{
				// splice a window of another file
				if !other.is_empty()
				{
					let a = c.draw(other.len());
					let l = c.draw(64.min(other.len() - a) + 1);
					let w: Vec<u8> = other[a..a + l].to_vec();
					data.splice(pos..pos, w);
				}
			}
			4 => data.truncate(pos),
			5 =>
			{
				let ch = *c.pick(&['\u{e9}', '\u{20ac}', '\u{1F35D}']);
				let mut b = [0u8; 4];
				let s = ch.encode_utf8(&mut b).as_bytes().to_vec();
				data.splice(pos..pos, s);
			}
			6 => data[pos] = *c.pick(&[0u8, b'\r', b'\\', b'"', b'\'', 0xff, 0x80]),
			7 =>
			{
				// duplicate a window many times (token density / long lists)
				let l = c.draw(16.min(data.len() - pos) + 1);
				let w: Vec<u8> = data[pos..pos + l].to_vec();
				let times = 1 + c.draw(40);
				for _ in 0..times
				{
					data.splice(pos..pos, w.clone());
				}
			}
			_ =>
			{
				// LF -> CRLF
				if data[pos] == b'\n'
				{
					data.insert(pos, b'\r');
				}
			}
		}
	}
}

struct RandomBytes;
impl Stream for RandomBytes
{
	fn name(&self) -> String
	{
		"random-bytes".into()
	}
	fn count(&self, tier: Tier) -> u64
	{
		tier.pick(100_000, 2_000_000)
	}
	fn choice_len(&self) -> usize
	{
		400
	}
	fn stride(&self) -> u64
	{
		256
	}
	fn run(&self, _idx: u64, c: &mut Choices, ctx: &RunCtx) -> CaseOut
	{
		let mut out = CaseOut::default();
		let n = c.draw(300);
		let mut bytes = Vec::with_capacity(n);
		let ascii_heavy = c.flag();
		for _ in 0..n
		{
			if ascii_heavy
			{
				bytes.push(*c.pick(b"afx01 (){}[];:=,.&|!<>+-*/%^'\"\\\n\t_u8ib"));
			}
			else
			{
				bytes.push(c.draw(256) as u8);
			}
		}
		let r = run_delta(&bytes, true);
		check_tokens(&bytes, &mut out);
		classify(&r, &mut out);
		out.key = fnv_bytes(&bytes);
		out.nontrivial = r.num_tokens >= 8;
		if std::str::from_utf8(&bytes).is_err()
		{
			out.class("input:invalid-utf8");
		}
		if ctx.want_sample
		{
			out.sample = Some(json!({"bytes_hex": reflex::hex(&bytes)}));
		}
		out
	}
}

struct MutatedCorpus;
impl Stream for MutatedCorpus
{
	fn name(&self) -> String
	{
		"mutated-corpus".into()
	}
	fn count(&self, tier: Tier) -> u64
	{
		tier.pick(100_000, 2_000_000)
	}
	fn choice_len(&self) -> usize
	{
		80
	}
	fn stride(&self) -> u64
	{
		128
	}
	fn run(&self, _idx: u64, c: &mut Choices, ctx: &RunCtx) -> CaseOut
	{
		thread_local! {
			static CORPUS: Vec<Vec<u8>> = corpus_files().iter().filter_map(|p| std::fs::read(p).ok()).collect();
		}
		let mut out = CaseOut::default();
		let (mut data, other) = CORPUS.with(|files| {
			if files.is_empty()
			{
				return (Vec::new(), Vec::new());
			}
			let a = files[c.draw(files.len())].clone();
			let b = files[c.draw(files.len())].clone();
			(a, b)
		});
		let pristine = c.draw(8) == 0;
		if !pristine
		{
			mutate_bytes(c, &mut data, &other);
		}
		let r = run_delta(&data, true);
		check_tokens(&data, &mut out);
		classify(&r, &mut out);
		out.key = fnv_bytes(&data);
		out.nontrivial = r.num_tokens >= 8;
		if ctx.want_sample
		{
			let s = String::from_utf8_lossy(&data);
			out.sample = Some(json!({"source_head": s.chars().take(300).collect::<String>()}));
		}
		out
	}
}

struct TokenSoup;
impl Stream for TokenSoup
{
	fn name(&self) -> String
	{
		"token-soup".into()
	}
	fn count(&self, tier: Tier) -> u64
	{
		tier.pick(100_000, 2_000_000)
	}
	fn choice_len(&self) -> usize
	{
		1500
	}
	fn stride(&self) -> u64
	{
		128
	}
	fn run(&self, idx: u64, c: &mut Choices, ctx: &RunCtx) -> CaseOut
	{
		let mut out = CaseOut::default();
		let crlf = c.chance(1, 4);
		let (mut src, _toks) = lexgen::gen_token_stream(c, 120, crlf);
		// one in four gets a malformed lexeme planted: must be rejected
		let plant = idx % 4 == 0;
		if plant
		{
			let (bad, _code, eol) =
				lexgen::MALFORMED[((idx / 4) % lexgen::MALFORMED.len() as u64) as usize];
			src.push(' ');
			src.push_str(bad);
			src.push_str(if eol { "\n" } else { " " });
			let (post, _) = lexgen::gen_token_stream(c, 10, false);
			src.push_str(&post);
		}
		let bytes = src.as_bytes();
		let r = run_delta(bytes, true);
		check_tokens(bytes, &mut out);
		if plant && r.lex_codes.is_empty()
		{
			out.fail(
				"input with an invalid lexeme is not rejected by the delta lexer",
				json!({"source": src}),
			);
		}
		if !plant && !r.lex_codes.is_empty()
		{
			out.fail(
				format!("valid lexemes rejected by the delta lexer E{}", r.lex_codes[0]),
				json!({"source": src, "codes": r.lex_codes}),
			);
		}
		classify(&r, &mut out);
		out.key = fnv_bytes(bytes);
		out.nontrivial = r.num_tokens >= 8;
		if ctx.want_sample
		{
			out.sample = Some(json!({"source": src, "planted_invalid_lexeme": plant}));
		}
		out
	}
}

pub const TOKEN_ALPHABET: &[&str] = &[
	"fn", "f", "(", ")", "{", "}", ";", "=", "x", "1", "+", "if", "==", "goto", ":", "var", ",",
	"[", "]", "&",
];

struct ExhaustiveTokens;
impl ExhaustiveTokens
{
	fn max_len(tier: Tier) -> u32
	{
		tier.pick(4, 5) as u32
	}
}
impl Stream for ExhaustiveTokens
{
	fn name(&self) -> String
	{
		"exhaustive-token-sequences".into()
	}
	fn count(&self, tier: Tier) -> u64
	{
		2 * lexgen::enum_count(TOKEN_ALPHABET.len() as u64, Self::max_len(tier))
	}
	fn exhaustive(&self) -> bool
	{
		true
	}
	fn stride(&self) -> u64
	{
		4096
	}
	fn run(&self, idx: u64, _c: &mut Choices, ctx: &RunCtx) -> CaseOut
	{
		let mut out = CaseOut::default();
		let in_body = idx % 2 == 1;
		let mut i = idx / 2;
		// decode into a token sequence
		let k = TOKEN_ALPHABET.len() as u64;
		let mut len = 1;
		let mut block = k;
		while len < Self::max_len(ctx.tier) && i >= block
		{
			i -= block;
			len += 1;
			block *= k;
		}
		let mut toks = Vec::new();
		for _ in 0..len
		{
			toks.push(TOKEN_ALPHABET[(i % k) as usize]);
			i /= k;
		}
		toks.reverse();
		let seq = toks.join(" ");
		let src = if in_body { format!("fn g() {{ {} }}", seq) } else { seq };
		let r = run_delta(src.as_bytes(), true);
		if !r.lex_codes.is_empty()
		{
			out.fail(
				format!("valid lexemes rejected by the delta lexer E{}", r.lex_codes[0]),
				json!({"source": src}),
			);
		}
		classify(&r, &mut out);
		out.key = idx;
		out.nontrivial = len >= 3;
		if ctx.want_sample || idx % 500_003 == 77
		{
			out.sample = Some(json!({"source": src, "parse_codes": r.parse_codes}));
		}
		out
	}
}

/// valid by construction, identifier-dense (the densest productions of the
/// parser), sized from tiny to beyond the token heuristics
fn dense_program(c: &mut Choices, target_tokens: usize) -> (String, usize)
{
	let mut s = String::new();
	let mut tokens = 0;
	let mut fi = 0;
	while tokens < target_tokens
	{
		s.push_str(&format!("fn f{}(a: i32, b: i32)\n{{\n", fi));
		fi += 1;
		tokens += 13;
		let stmts = 1 + c.draw(30);
		for _ in 0..stmts
		{
			match c.draw(6)
			{
				0 =>
				{
					// x = a+a+a+...;
					let n = 1 + c.draw(60);
					s.push_str("\tvar x = a");
					for _ in 1..n
					{
						s.push_str(*c.pick(&["+a", "-b", "*a", "/b", " + a", "%b"]));
					}
					s.push_str(";\n");
					tokens += 4 + 2 * n - 1;
				}
				1 =>
				{
					let n = c.draw(40);
					s.push_str("\tg(");
					for k in 0..n
					{
						if k > 0
						{
							s.push(',');
						}
						s.push_str("a");
					}
					s.push_str(");\n");
					tokens += 4 + if n > 0 { 2 * n - 1 } else { 0 };
				}
				2 =>
				{
					let n = c.draw(40);
					s.push_str("\tvar y = [");
					for _ in 0..n
					{
						s.push_str("a,");
					}
					s.push_str("];\n");
					tokens += 6 + 2 * n;
				}
				3 =>
				{
					let n = 1 + c.draw(40);
					s.push_str("\tvar z = S{");
					for _ in 0..n
					{
						s.push_str("a,");
					}
					s.push_str("};\n");
					tokens += 7 + 2 * n;
				}
				4 =>
				{
					let n = 1 + c.draw(30);
					s.push_str("\tb");
					for _ in 0..n
					{
						s.push_str(*c.pick(&["[a]", ".m", "[a+b]"]));
					}
					s.push_str(" = -a;\n");
					tokens += 5 + 3 * n;
				}
				_ =>
				{
					s.push_str("\tif a == b goto end; // ");
					let n = c.draw(80);
					for _ in 0..n
					{
						s.push('c');
					}
					s.push('\n');
					tokens += 7;
				}
			}
		}
		s.push_str("\tend:\n}\n");
		tokens += 3;
	}
	(s, tokens)
}

struct DenseValid;
impl Stream for DenseValid
{
	fn name(&self) -> String
	{
		"dense-valid-programs".into()
	}
	fn count(&self, tier: Tier) -> u64
	{
		tier.pick(4_000, 60_000)
	}
	fn choice_len(&self) -> usize
	{
		4000
	}
	fn stride(&self) -> u64
	{
		16
	}
	fn run(&self, idx: u64, c: &mut Choices, ctx: &RunCtx) -> CaseOut
	{
		let mut out = CaseOut::default();
		// sizes: mostly small, some around and beyond the 65536-token heuristic
		let target = match idx % 40
		{
			0 => 60_000 + c.draw(12_000),
			1 => 20_000 + c.draw(20_000),
			_ => 1 + c.draw(600),
		};
		let (src, approx_tokens) = dense_program(c, target);
		let bytes = src.as_bytes();
		let r = run_delta(bytes, approx_tokens < 5_000 || idx % 40 == 1);
		let cap = std::cmp::max(bytes.len() / 2, 1 << 16);
		let over_limit = r.lex_codes == [103];
		if over_limit
		{
			out.class("limit:E103");
			// the only permitted diagnostic above the token heuristic
			let exact_tokens = reflex::lex(bytes).toks.len() + 2;
			if exact_tokens <= cap.min(1 << 24)
			{
				out.fail(
					"E103 reported for a module below the documented token heuristic",
					json!({"approx_tokens": approx_tokens, "token_cap": cap, "bytes": bytes.len()}),
				);
			}
		}
		else if !r.lex_codes.is_empty()
			|| r.parse_codes.as_ref().map(|c| !c.is_empty()).unwrap_or(true)
		{
			out.fail(
				format!(
					"well-formed module rejected by delta: lex {:?} parse {:?}",
					r.lex_codes, r.parse_codes
				),
				json!({"source_head": src.chars().take(2000).collect::<String>(), "bytes": bytes.len()}),
			);
		}
		else
		{
			out.class("outcome:accepted");
			let ratio = r.num_nodes as f64 / r.num_tokens.max(1) as f64;
			out.class(format!("nodes-per-token:{:.1}", (ratio * 2.0).round() / 2.0));
		}
		out.class(format!("size:{}", match approx_tokens
		{
			0..=99 => "<100",
			100..=999 => "<1k",
			1000..=9999 => "<10k",
			10000..=65533 => "<65534",
			_ => ">=65534",
		}));
		out.key = fnv_bytes(bytes);
		out.nontrivial = true;
		if ctx.want_sample
		{
			out.sample = Some(json!({"source_head": src.chars().take(400).collect::<String>(), "tokens": r.num_tokens, "nodes": r.num_nodes}));
		}
		out
	}
}

struct GiantLists;
impl Stream for GiantLists
{
	fn name(&self) -> String
	{
		"giant-lists".into()
	}
	fn count(&self, tier: Tier) -> u64
	{
		tier.pick(24, 200)
	}
	fn choice_len(&self) -> usize
	{
		8
	}
	fn timeout(&self) -> std::time::Duration
	{
		std::time::Duration::from_secs(120)
	}
	fn run(&self, idx: u64, c: &mut Choices, ctx: &RunCtx) -> CaseOut
	{
		let mut out = CaseOut::default();
		let n = match idx % 3
		{
			0 => 1000 + c.draw(2000),
			1 => 10_000 + c.draw(10_000),
			_ => 20_000 + c.draw(10_000),
		};
		let kind = (idx / 3) % 6;
		let mut s = String::new();
		match kind
		{
			0 =>
			{
				s.push_str("fn f()\n{\n");
				for _ in 0..n
				{
					s.push_str("g();\n");
				}
				s.push_str("}\n");
			}
			1 =>
			{
				s.push_str("fn f()\n{\n\tg(");
				for _ in 0..n
				{
					s.push_str("1,");
				}
				s.push_str(");\n}\n");
			}
			2 =>
			{
				s.push_str("struct S\n{\n");
				for k in 0..n
				{
					s.push_str(&format!("m{}: i32,\n", k));
				}
				s.push_str("}\n");
			}
			3 =>
			{
				s.push_str("fn f(");
				for k in 0..n
				{
					s.push_str(&format!("p{}: i32, ", k));
				}
				s.push_str(")\n{\n}\n");
			}
			4 =>
			{
				s.push_str("const A: [");
				s.push_str(&n.to_string());
				s.push_str("]u8 = [");
				for _ in 0..n
				{
					s.push_str("0,");
				}
				s.push_str("];\n");
			}
			_ =>
			{
				for k in 0..n
				{
					s.push_str(&format!("fn f{}();\n", k));
				}
			}
		}
		let r = run_delta(s.as_bytes(), true);
		if r.lex_codes == [103]
		{
			out.class("limit:E103");
		}
		else if !r.lex_codes.is_empty()
			|| r.parse_codes.as_ref().map(|c| !c.is_empty()).unwrap_or(true)
		{
			out.fail(
				format!(
					"well-formed module rejected by delta: lex {:?} parse {:?}",
					r.lex_codes, r.parse_codes
				),
				json!({"kind": kind, "n": n}),
			);
		}
		out.class(format!("list-kind:{}", kind));
		out.key = fnv_bytes(s.as_bytes());
		out.nontrivial = true;
		if ctx.want_sample
		{
			out.sample = Some(json!({"kind": kind, "elements": n, "source_head": s.chars().take(120).collect::<String>()}));
		}
		out
	}
}

/// deep nesting and long operator chains, up to the stated input size: the
/// front end has to cope without running out of stack
struct DeepExpressions;
const DEEP_KINDS: &[&str] = &["binary chain", "parentheses", "unary chain", "blocks", "ifs", "array literals", "calls", "indices", "array types", "pointer types", "else-if chain", "address run", "address run in a length", "address run before an assignment", "member chain"];
const DEEP_SIZES: &[usize] = &[100, 1000, 3000, 8000, 20_000, 40_000];
impl Stream for DeepExpressions
{
	fn name(&self) -> String
	{
		"deep-expressions".into()
	}
	fn count(&self, _tier: Tier) -> u64
	{
		(DEEP_KINDS.len() * DEEP_SIZES.len()) as u64
	}
	fn exhaustive(&self) -> bool
	{
		true
	}
	fn run(&self, idx: u64, _c: &mut Choices, ctx: &RunCtx) -> CaseOut
	{
		let mut out = CaseOut::default();
		let kind = DEEP_KINDS[idx as usize / DEEP_SIZES.len()];
		let n = DEEP_SIZES[idx as usize % DEEP_SIZES.len()];
		// up to 1000 levels must work; beyond that the recorded finding applies
		note_case_class(&format!("{}, {}", kind, if n >= 3000 { "thousands deep" } else { "up to 1000 deep" }));
		let rep = |s: &str| s.repeat(n);
		let src = match kind
		{
			"binary chain" => format!("const P: i32 = {}a;\n", rep("a + ")),
			"parentheses" => format!("const P: i32 = {}a{};\n", rep("("), rep(")")),
			"unary chain" => format!("const P: i32 = {}a;\n", rep("- ")),
			"blocks" => format!("fn f()\n{{\n{}{}}}\n", rep("{\n"), rep("}\n")),
			"ifs" => format!("fn f()\n{{\n{}{}}}\n", rep("if a == b\n{\n"), rep("}\n")),
			"array literals" => format!("const P: i32 = {}a{};\n", rep("["), rep("]")),
			"calls" => format!("const P: i32 = {}a{};\n", rep("f("), rep(")")),
			"indices" => format!("const P: i32 = {}a{};\n", rep("a["), rep("]")),
			"array types" => format!("const P: {}i32 = a;\n", rep("[1]")),
			"pointer types" => format!("fn f(x: {}i32);\n", rep("&")),
			"else-if chain" => format!("fn f()\n{{\n\tif a == b\n\t{{\n\t}}\n{}}}\n", rep("\telse if a == b\n\t{\n\t}\n")),
			// (runs of `&` are counted in a narrow integer: the limit is E390)
			"address run" => format!("fn f()\n{{\n\tvar x = {}a;\n}}\n", rep("&")),
			"address run in a length" => format!("fn f()\n{{\n\tvar x = |{}a|;\n}}\n", rep("&")),
			"address run before an assignment" => format!("fn f()\n{{\n\t{}a = b;\n}}\n", rep("&")),
			_ => format!("const P: i32 = a{};\n", rep(".m")),
		};
		if src.len() > 262_144
		{
			out.discarded = Some("beyond 256 KiB".into());
			return out;
		}
		let r = run_delta(src.as_bytes(), true);
		classify(&r, &mut out);
		out.class(format!("deep:{}", kind));
		out.key = idx;
		out.nontrivial = n >= 1000;
		if ctx.want_sample && n == 100
		{
			out.sample = Some(json!({"kind": kind, "repetitions": n, "source_head": src.chars().take(120).collect::<String>()}));
		}
		out
	}
}

impl Check for C15
{
	fn id(&self) -> &'static str
	{
		"C15"
	}
	fn rule(&self) -> String
	{
		"streams: random bytes (incl. invalid UTF-8, NUL); byte-mutated repository corpus (357 .pn files; bit flips, inserts, deletes, splices, truncation, UTF-8 inserts, window duplication, CRLF); token soup of valid lexemes (every 4th with a planted invalid lexeme); exhaustive token sequences of length <= 4 (quick) / <= 5 (thorough) over a 20-token alphabet at top level and inside a function body; identifier-dense well-formed programs from 1 to 72k tokens (densest parser productions, straddling the 65536-token heuristic); giant single lists (1k-30k statements / arguments / members / parameters / elements / declarations); fifteen recursive or counted constructs (operator chains, parentheses, unary chains, blocks, ifs, else-if chains, array literals, calls, indices, array and pointer types, member chains, runs of `&` in an expression / a length / before an assignment) repeated 100 - 40 000 times. Oracle: lex -> errors -> parse -> errors -> build_header -> all three XML dumps fully iterated inside an isolated worker (any panic/abort/overflow = failure by site); published token vector == independent reference lexer; valid-by-construction modules accepted with no diagnostics, or exactly E103 above the token heuristic; planted invalid lexeme => rejected. Non-trivial: >= 8 tokens (byte streams), >= 3 tokens (exhaustive), always for generated valid programs; distinct by byte hash.".into()
	}
	fn assumptions(&self) -> Vec<String>
	{
		vec![
			"harness profile has debug assertions and overflow checks ON, so debug_assert!/arithmetic overflow in delta count as crashes".into(),
			"memory safety proper (uninitialised / out-of-bounds reads) is attacked by the sanitizer builds of the same input streams (thorough tier, see DESIGN.md), and indirectly here by the token-vector oracle".into(),
			"E102 (2 GiB) and the 2^24 hard token cap are out of reach of these input sizes; only the max(len/2, 65536) heuristic is exercised".into(),
			"termination is observed up to the per-block watchdog (exit 2 when hit, never a violation)".into(),
		]
	}
	fn judge_bytes(&self, bytes: &[u8]) -> Option<CaseOut>
	{
		let mut out = CaseOut::default();
		let r = run_delta(bytes, true);
		check_tokens(bytes, &mut out);
		classify(&r, &mut out);
		Some(out)
	}
	fn fuzz_specs(&self, tier: Tier) -> Vec<FuzzSpec>
	{
		if tier == Tier::Quick
		{
			return Vec::new();
		}
		vec![FuzzSpec {
			target: "fuzz_delta",
			runs_per_job: 300_000,
			jobs: 14,
			max_len: 4096,
			seeds: fuzz_seed_corpus(4096, 120),
			dictionary: fuzz_dictionary(),
		}]
	}
	fn streams(&self) -> Vec<Box<dyn Stream>>
	{
		vec![
			Box::new(RandomBytes),
			Box::new(MutatedCorpus),
			Box::new(TokenSoup),
			Box::new(ExhaustiveTokens),
			Box::new(DenseValid),
			Box::new(GiantLists),
			Box::new(DeepExpressions),
		]
	}
}
