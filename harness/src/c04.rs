//! C04 — goto only ever jumps forward and outward.

use crate::alpha;
use crate::choices::{fnv, Choices};
use crate::engine::*;
use crate::treegen::{self, Counter, Grammar, Node};
use serde_json::json;

pub struct C04;

#[derive(Clone, PartialEq)]
enum Atom
{
	Label(&'static str),
	Goto(&'static str),
	IfGoto(&'static str),
	Nop,
}

fn atoms_small() -> Vec<Atom>
{
	vec![
		Atom::Label("a"),
		Atom::Label("b"),
		Atom::Goto("a"),
		Atom::Goto("b"),
		Atom::IfGoto("a"),
		Atom::IfGoto("b"),
		Atom::Nop,
		Atom::Goto("return"),
		Atom::IfGoto("return"),
	]
}

fn atoms_large() -> Vec<Atom>
{
	let mut v = Vec::new();
	for l in ["a", "b", "c", "d"]
	{
		v.push(Atom::Label(l));
		v.push(Atom::Goto(l));
		v.push(Atom::IfGoto(l));
	}
	v.push(Atom::Nop);
	v.push(Atom::Goto("return"));
	// `return:` anywhere but at the end of a value-returning function is an
	// ordinary label (the first generation does not reserve the word)
	v.push(Atom::Label("return"));
	v.push(Atom::IfGoto("return"));
	// a label that exists, but only in another function of the module
	v.push(Atom::Goto("elsewhere"));
	v.push(Atom::IfGoto("elsewhere"));
	v
}

fn atom_text(a: &Atom) -> String
{
	match a
	{
		Atom::Label(l) => format!("{}:", l),
		Atom::Goto(l) => format!("goto {};", l),
		Atom::IfGoto(l) => format!("if p == 0 goto {};", l),
		Atom::Nop => "nop();".to_string(),
	}
}

/// Reference model of label visibility, written from docs/features.md:
/// a label is visible to statements earlier in the same block and in blocks
/// nested in those earlier statements. Returns (#unresolved gotos, #labels that
/// clash with a later visible label of the same name).
fn model(body: &[Node], atoms: &[Atom], has_return: bool) -> (usize, usize, bool)
{
	// labels of a sequence, by index
	fn labels_after<'a>(seq: &[Node], i: usize, atoms: &'a [Atom]) -> Vec<&'a str>
	{
		seq.iter()
			.skip(i + 1)
			.filter_map(|n| match n
			{
				Node::Atom(k) => match &atoms[*k]
				{
					Atom::Label(l) => Some(*l),
					_ => None,
				},
				_ => None,
			})
			.collect()
	}
	struct Acc
	{
		e400: usize,
		e420: usize,
		nontrivial: bool,
	}
	fn walk(seq: &[Node], outer: &[&str], level: usize, atoms: &[Atom], tail: &[&str], acc: &mut Acc)
	{
		for (i, n) in seq.iter().enumerate()
		{
			let mut visible: Vec<&str> = labels_after(seq, i, atoms);
			visible.extend_from_slice(tail);
			let same_block = visible.clone();
			visible.extend_from_slice(outer);
			match n
			{
				Node::Atom(k) => match &atoms[*k]
				{
					Atom::Label(l) =>
					{
						if visible.contains(l)
						{
							acc.e420 += 1;
							acc.nontrivial = true;
						}
					}
					Atom::Goto(l) | Atom::IfGoto(l) =>
					{
						if !visible.contains(l)
						{
							acc.e400 += 1;
						}
						else if !same_block.contains(l) && level > 0
						{
							// resolved outward: jump out of a nested block
							acc.nontrivial = true;
						}
					}
					Atom::Nop => (),
				},
				Node::Block(b) => walk(b, &visible, level + 1, atoms, &[], acc),
				Node::If(b) =>
				{
					if let Node::Block(b) = &**b
					{
						walk(b, &visible, level + 1, atoms, &[], acc)
					}
				}
				Node::IfElse(x, y) =>
				{
					for br in [x, y]
					{
						if let Node::Block(b) = &**br
						{
							walk(b, &visible, level + 1, atoms, &[], acc)
						}
					}
				}
			}
		}
	}
	let mut acc = Acc {
		e400: 0,
		e420: 0,
		nontrivial: false,
	};
	// the `return:` label closes the function body
	let tail: Vec<&str> = if has_return { vec!["return"] } else { vec![] };
	walk(body, &[], 0, atoms, &tail, &mut acc);
	// labels at different nesting depths?
	fn has_nested_label(seq: &[Node], atoms: &[Atom], level: usize) -> bool
	{
		seq.iter().any(|n| match n
		{
			Node::Atom(k) => level > 0 && matches!(atoms[*k], Atom::Label(_)),
			Node::Block(b) => has_nested_label(b, atoms, level + 1),
			Node::If(b) => has_nested_label(std::slice::from_ref(b), atoms, level),
			Node::IfElse(x, y) =>
			{
				has_nested_label(std::slice::from_ref(x), atoms, level)
					|| has_nested_label(std::slice::from_ref(y), atoms, level)
			}
		})
	}
	fn has_goto(seq: &[Node], atoms: &[Atom]) -> bool
	{
		seq.iter().any(|n| match n
		{
			Node::Atom(k) => matches!(atoms[*k], Atom::Goto(_) | Atom::IfGoto(_)),
			Node::Block(b) => has_goto(b, atoms),
			Node::If(b) => has_goto(std::slice::from_ref(b), atoms),
			Node::IfElse(x, y) =>
			{
				has_goto(std::slice::from_ref(x), atoms) || has_goto(std::slice::from_ref(y), atoms)
			}
		})
	}
	let nt = acc.nontrivial || (has_goto(body, atoms) && has_nested_label(body, atoms, 0));
	(acc.e400, acc.e420, nt)
}

fn render(body: &[Node], atoms: &[Atom], has_return: bool) -> String
{
	let mut s = String::from("fn nop()\n{\n}\n\nfn other()\n{\n\telsewhere:\n}\n\n");
	if has_return
	{
		s.push_str("fn f(p: i32) -> i32\n{\n");
	}
	else
	{
		s.push_str("fn f(p: i32)\n{\n");
	}
	let at = |k: usize| atom_text(&atoms[k]);
	let mut body_text = String::new();
	treegen::print_seq(body, 1, &at, &mut body_text);
	// every fourth body on ONE source line (line numbers must not matter)
	if fnv(&body_text) % 4 == 0
	{
		body_text = format!("\t{}\n", body_text.split_whitespace().collect::<Vec<_>>().join(" "));
	}
	s.push_str(&body_text);
	if has_return
	{
		s.push_str("\treturn: p\n");
	}
	s.push_str("}\n");
	s
}

fn judge(body: &[Node], atoms: &[Atom], has_return: bool, ctx: &RunCtx, out: &mut CaseOut)
{
	let (e400, e420, nt) = model(body, atoms, has_return);
	let src = render(body, atoms, has_return);
	let o = alpha::analyze_one(&src);
	let mut expected: Vec<u16> = Vec::new();
	expected.extend(std::iter::repeat(400).take(e400));
	expected.extend(std::iter::repeat(420).take(e420));
	let mut actual = o.codes.clone();
	actual.sort();
	out.nontrivial = nt;
	out.key = fnv(&src);
	out.class(if expected.is_empty() { "expected:accept" } else { "expected:reject" });
	let detail = json!({"source": src, "expected_codes": expected, "actual": o.summary()});
	if let Some(e) = &o.internal_error
	{
		out.fail(format!("internal error: {}", e.chars().take(60).collect::<String>()), detail);
	}
	else if expected.is_empty() && !o.ok
	{
		out.fail(
			format!("forward/outward jumps to unique labels rejected: {:?}", dedup(&actual)),
			detail,
		);
	}
	else if !expected.is_empty() && o.ok
	{
		out.fail(
			format!("bad jump or clashing label accepted (expected {:?})", dedup(&expected)),
			detail,
		);
	}
	else if actual != expected
	{
		out.fail(
			format!(
				"wrong diagnostics: expected {:?} got {:?}",
				dedup(&expected),
				dedup(&actual)
			),
			detail,
		);
	}
	if ctx.want_sample
	{
		out.sample = Some(json!({"source": src, "expected_codes": expected}));
	}
}

fn dedup(v: &[u16]) -> Vec<u16>
{
	let mut d = v.to_vec();
	d.dedup();
	d
}

/// one body of the exhaustive enumeration (quick bound), drawn at random (used by C02)
pub fn enumerated_source(c: &mut Choices) -> String
{
	thread_local! {
		static CNT: std::cell::RefCell<Option<Counter>> = std::cell::RefCell::new(None);
	}
	let r = c.u64();
	let body = CNT.with(|k| {
		let mut k = k.borrow_mut();
		if k.is_none()
		{
			*k = Some(Exhaustive::counter(Tier::Quick));
		}
		let k = k.as_ref().unwrap();
		k.unrank(((r as u128 * k.total() as u128) >> 64) as u64)
	});
	let has_return = r & 1 == 1;
	render(&body, &atoms_small(), has_return)
}

struct Exhaustive;
impl Exhaustive
{
	fn counter(tier: Tier) -> Counter
	{
		let g = Grammar {
			atoms: atoms_small().len(),
			naked_branches: false,
		};
		Counter::new(g, tier.pick(5, 6) as usize, 3)
	}
}
impl Stream for Exhaustive
{
	fn name(&self) -> String
	{
		"exhaustive-bodies".into()
	}
	fn count(&self, tier: Tier) -> u64
	{
		2 * Self::counter(tier).total()
	}
	fn exhaustive(&self) -> bool
	{
		true
	}
	fn stride(&self) -> u64
	{
		512
	}
	fn run(&self, idx: u64, _c: &mut Choices, ctx: &RunCtx) -> CaseOut
	{
		thread_local! {
			static CNT: std::cell::RefCell<Option<(Tier, Counter)>> = std::cell::RefCell::new(None);
		}
		let mut out = CaseOut::default();
		let body = CNT.with(|c| {
			let mut c = c.borrow_mut();
			if c.as_ref().map(|(t, _)| *t != ctx.tier).unwrap_or(true)
			{
				*c = Some((ctx.tier, Self::counter(ctx.tier)));
			}
			c.as_ref().unwrap().1.unrank(idx / 2)
		});
		let atoms = atoms_small();
		judge(&body, &atoms, idx % 2 == 1, ctx, &mut out);
		out.key = idx;
		out
	}
}

/// `return:` is an ordinary label only as the last statement of a nested
/// block of a function without a return value (elsewhere the parser takes it
/// for the return statement): every other occurrence becomes a `nop();`
fn fix_return_labels(seq: &mut Vec<Node>, atoms: &[Atom], nested: bool, has_return: bool)
{
	let nop = atoms.iter().position(|a| *a == Atom::Nop).unwrap_or(0);
	let n = seq.len();
	for (i, node) in seq.iter_mut().enumerate()
	{
		match node
		{
			Node::Atom(k) =>
			{
				if atoms[*k] == Atom::Label("return") && !(nested && !has_return && i + 1 == n)
				{
					*k = nop;
				}
			}
			Node::Block(inner) => fix_return_labels(inner, atoms, true, has_return),
			Node::If(b) =>
			{
				if let Node::Block(inner) = b.as_mut()
				{
					fix_return_labels(inner, atoms, true, has_return);
				}
			}
			Node::IfElse(a, b) =>
			{
				for x in [a, b]
				{
					if let Node::Block(inner) = x.as_mut()
					{
						fix_return_labels(inner, atoms, true, has_return);
					}
				}
			}
		}
	}
}

/// the source of one random body (also compiled to IR by C02)
pub fn random_source(c: &mut Choices) -> String
{
	let atoms = atoms_large();
	let g = Grammar {
		atoms: atoms.len(),
		naked_branches: false,
	};
	let mut budget = 40;
	let has_return = c.flag();
	let mut body = treegen::random_seq(c, g, &mut budget, 5, 12);
	fix_return_labels(&mut body, &atoms, false, has_return);
	render(&body, &atoms, has_return)
}

struct RandomBodies;
impl Stream for RandomBodies
{
	fn name(&self) -> String
	{
		"random-bodies".into()
	}
	fn count(&self, tier: Tier) -> u64
	{
		tier.pick(120_000, 600_000)
	}
	fn choice_len(&self) -> usize
	{
		200
	}
	fn stride(&self) -> u64
	{
		64
	}
	fn run(&self, _idx: u64, c: &mut Choices, ctx: &RunCtx) -> CaseOut
	{
		let mut out = CaseOut::default();
		let atoms = atoms_large();
		let g = Grammar {
			atoms: atoms.len(),
			naked_branches: false,
		};
		let mut budget = 40;
		let has_return = c.flag();
		let mut body = treegen::random_seq(c, g, &mut budget, 5, 12);
		fix_return_labels(&mut body, &atoms, false, has_return);
		judge(&body, &atoms, has_return, ctx, &mut out);
		out.class(format!("depth:{}", treegen::depth(&body).min(6)));
		out
	}
}

impl Check for C04
{
	fn id(&self) -> &'static str
	{
		"C04"
	}
	fn rule(&self) -> String
	{
		"function bodies over {label, goto, if-goto, call, block, if-block, if-else-blocks}: (a) EVERY body of <= 5 (quick) / <= 6 (thorough) statement nodes, nesting <= 3, over 2 label names plus `return`, each in a void and a value-returning function (exhaustive); every fourth body is printed on a single source line; (b) random bodies of up to 40 nodes, depth 5, 4 label names, gotos to `return` and to a label that exists only in another function. Oracle: an independent model of reverse label scope predicts the exact multiset of E400 (one per goto without a later/outer visible target) and E420 (one per label that clashes with a later visible label); verdict and sorted Errors::codes() must equal it, both directions. Non-trivial: a goto resolved outward from a nested block, a clash, or gotos together with nested labels; distinct by body.".into()
	}
	fn assumptions(&self) -> Vec<String>
	{
		vec![
			"the label-scope model (harness/src/c04.rs::model) is a direct restatement of docs/features.md 'Scoped goto statements' and docs E400/E420".into(),
			"bodies contain nothing else that could be rejected (one i32 parameter, calls to an empty function)".into(),
		]
	}
	fn streams(&self) -> Vec<Box<dyn Stream>>
	{
		vec![Box::new(Exhaustive), Box::new(RandomBodies)]
	}
}
