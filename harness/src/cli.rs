//! Location of the real `penne` binary built from /repo by ./check.

pub fn penne_bin() -> String
{
	std::env::var("PV_PENNE_BIN").unwrap_or_else(|_| {
		crate::engine::verif_root()
			.join("target/penne-bin/release/penne")
			.to_string_lossy()
			.to_string()
	})
}
