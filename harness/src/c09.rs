//! C09 — literals mean exactly what they say.

use crate::alpha;
use crate::ast::{Prim, INT_PRIMS};
use crate::choices::{fnv, Choices};
use crate::engine::*;
use crate::lexgen;
use serde_json::json;

pub struct C09;

#[derive(Clone, Debug)]
struct Item
{
	ty: Prim,
	neg: bool,
	mag: u128,
	text: String,
	context: &'static str,
	spelling: String,
	/// line (1-based) of the literal in the generated source
	line: usize,
	in_range: bool,
	/// expected output line, when the value is asserted
	expect: Option<String>,
}

struct Src
{
	top: String,
	main: String,
}

fn value_class(c: &mut Choices, ty: Prim) -> (bool, u128, &'static str)
{
	let max = ty.max_value();
	let signed = ty.signed();
	let min_mag: u128 = if signed { max + 1 } else { 0 };
	match c.draw(16)
	{
		0 => (false, 0, "zero"),
		1 => (false, 1, "one"),
		2 => (false, max, "max"),
		3 if max < u128::MAX => (false, max + 1, "max+1"),
		4 if signed => (true, min_mag, "min"),
		5 if signed && min_mag < u128::MAX => (true, min_mag + 1, "min-1"),
		6 => (false, (1u128 << 31) - 1 + c.draw(3) as u128, "2^31"),
		7 => (false, (1u128 << 32) - 1 + c.draw(3) as u128, "2^32"),
		8 => (false, (1u128 << 63) - 1 + c.draw(3) as u128, "2^63"),
		9 => (false, (1u128 << 64) - 1 + c.draw(3) as u128, "2^64"),
		10 => (false, (1u128 << 127) - 1 + c.draw(3) as u128, "2^127"),
		11 => (false, u128::MAX - c.draw(2) as u128, "2^128-1"),
		12 if signed => (true, 1 + c.draw(200) as u128, "small-negative"),
		13 if signed => (true, c.u128() & max, "random-negative"),
		14 => (false, c.u128() & ty.mask(), "random"),
		_ => (false, c.draw(300) as u128, "small"),
	}
}

fn spell(c: &mut Choices, ty: Prim, neg: bool, mag: u128, suffix: bool) -> (String, String)
{
	let mut cls = Vec::new();
	// a minus sign directly before a decimal literal is part of the literal;
	// before 0x / 0b it is a run-time negation of a bit pattern, which is a
	// different construct
	let body = match if neg { 0 } else { c.draw(4) }
	{
		0 | 1 =>
		{
			cls.push("dec");
			let d = mag.to_string();
			if mag != 0 && c.chance(1, 3)
			{
				cls.push("_");
				let mut s = String::new();
				for (i, ch) in d.chars().enumerate()
				{
					s.push(ch);
					if i + 1 < d.len() && c.chance(1, 4)
					{
						s.push('_');
					}
				}
				s
			}
			else
			{
				d
			}
		}
		2 =>
		{
			cls.push("hex");
			lexgen::spell_hex(c, mag)
		}
		_ =>
		{
			cls.push("bin");
			lexgen::spell_bin(c, mag)
		}
	};
	let mut text = String::new();
	if neg
	{
		cls.push("minus");
		text.push('-');
	}
	text.push_str(&body);
	if suffix
	{
		cls.push("suffix");
		text.push_str(ty.name());
	}
	(text, cls.join("+"))
}

fn fmt_value(ty: Prim, neg: bool, mag: u128) -> String
{
	let _ = ty;
	if neg && mag != 0
	{
		format!("-{}", mag)
	}
	else
	{
		mag.to_string()
	}
}

fn representable(ty: Prim, neg: bool, mag: u128) -> bool
{
	if neg && mag != 0
	{
		ty.signed() && mag <= ty.max_value() + 1
	}
	else
	{
		mag <= ty.max_value()
	}
}

const CONTEXTS: &[&str] =
	&["var", "const", "array-element", "struct-member", "argument", "return", "if-operand", "cast-operand"];

struct Integers;
impl Stream for Integers
{
	fn name(&self) -> String
	{
		"integer-literals".into()
	}
	fn count(&self, tier: Tier) -> u64
	{
		tier.pick(2500, 60_000)
	}
	fn choice_len(&self) -> usize
	{
		400
	}
	fn run(&self, _idx: u64, c: &mut Choices, ctx: &RunCtx) -> CaseOut
	{
		let mut out = CaseOut::default();
		let mut src = Src {
			top: String::new(),
			main: String::new(),
		};
		// identity helpers per type
		for t in INT_PRIMS
		{
			src.top.push_str(&format!(
				"fn id_{n}(x: {n}) -> {n}\n{{\n\treturn: x\n}}\n",
				n = t.name()
			));
		}
		let mut items: Vec<Item> = Vec::new();
		let n = 4 + c.draw(10);
		for k in 0..n
		{
			let ty = *c.pick(INT_PRIMS);
			let (neg, mag, vclass) = value_class(c, ty);
			let context = *c.pick(CONTEXTS);
			let in_range = representable(ty, neg, mag);
			// contexts that need a representable value for their own plumbing

			let suffix = context == "cast-operand" || c.chance(1, 4);
			let (text, scls) = spell(c, ty, neg, mag, suffix);
			let t = ty.name();
			let mut item = Item {
				ty,
				neg,
				mag,
				text: text.clone(),
				context,
				spelling: format!("{}:{}", vclass, scls),
				line: 0,
				in_range,
				expect: if in_range { Some(fmt_value(ty, neg, mag)) } else { None },
			};
			let top_lines = |s: &Src| s.top.matches('\n').count();
			let main_lines = |s: &Src| s.main.matches('\n').count();
			// main starts after the top section plus its own two header lines;
			// line numbers are fixed up after assembly
			match context
			{
				"var" =>
				{
					item.line = 10_000 + main_lines(&src) + 1;
					src.main.push_str(&format!("\tvar x{k}: {t} = {text};\n\tprint!(x{k}, \"\\n\");\n"));
				}
				"const" =>
				{
					item.line = top_lines(&src) + 1;
					src.top.push_str(&format!("const K{k}: {t} = {text};\n"));
					src.main.push_str(&format!("\tprint!(K{k}, \"\\n\");\n"));
				}
				"array-element" =>
				{
					item.line = 10_000 + main_lines(&src) + 1;
					src.main.push_str(&format!(
						"\tvar a{k}: [2]{t} = [{text}, 0];\n\tprint!(a{k}[0], \"\\n\");\n"
					));
				}
				"struct-member" =>
				{
					src.top.push_str(&format!("struct T{k}\n{{\n\tm{k}: {t},\n}}\n"));
					item.line = 10_000 + main_lines(&src) + 1;
					src.main.push_str(&format!(
						"\tvar s{k} = T{k} {{ m{k}: {text} }};\n\tprint!(s{k}.m{k}, \"\\n\");\n"
					));
				}
				"argument" =>
				{
					item.line = 10_000 + main_lines(&src) + 1;
					src.main.push_str(&format!("\tprint!(id_{t}({text}), \"\\n\");\n"));
				}
				"return" =>
				{
					item.line = top_lines(&src) + 3;
					src.top.push_str(&format!("fn r{k}() -> {t}\n{{\n\treturn: {text}\n}}\n"));
					src.main.push_str(&format!("\tprint!(r{k}(), \"\\n\");\n"));
				}
				"if-operand" =>
				{
					let plain = if in_range { fmt_value(ty, neg, mag) } else { "0".to_string() };
					src.main.push_str(&format!("\tvar y{k}: {t} = {plain};\n"));
					item.line = 10_000 + main_lines(&src) + 1;
					src.main.push_str(&format!(
						"\tif y{k} == {text}\n\t{{\n\t\tprint!(\"{plain}\\n\");\n\t}}\n\telse\n\t{{\n\t\tprint!(\"differs\\n\");\n\t}}\n"
					));
				}
				_ =>
				{
					let wide = if ty.signed() { "i128" } else { "u128" };
					item.line = 10_000 + main_lines(&src) + 1;
					if ty == Prim::I128 || ty == Prim::U128
					{
						src.main.push_str(&format!("\tprint!({text}, \"\\n\");\n"));
					}
					else
					{
						src.main.push_str(&format!("\tprint!({text} as {wide}, \"\\n\");\n"));
					}
				}
			}
			items.push(item);
		}
		let header_lines = src.top.matches('\n').count() + 2;
		for it in items.iter_mut()
		{
			if it.line >= 10_000
			{
				it.line = it.line - 10_000 + header_lines;
			}
		}
		let source = format!("{}fn main() -> i32\n{{\n{}\treturn: 0\n}}\n", src.top, src.main);
		out.key = fnv(&source);
		let o = alpha::compile_one(
			&source,
			alpha::Options {
				want_ir: true,
				..Default::default()
			},
		);
		for it in &items
		{
			out.class(format!("type:{}", it.ty.name()));
			out.class(format!("context:{}", it.context));
			out.class(if it.in_range { "value:in-range" } else { "value:out-of-range" });
		}
		out.nontrivial = items.iter().any(|it| {
			it.spelling.matches('+').count() >= 1
				|| it.spelling.starts_with("m")
				|| it.spelling.starts_with("2^")
		});
		let describe = |it: &Item| json!({"type": it.ty.name(), "literal": it.text, "context": it.context, "line": it.line, "class": it.spelling});
		if let Some(e) = &o.internal_error
		{
			out.fail(
				format!("internal error {}", e.chars().take(50).collect::<String>()),
				json!({"source": source}),
			);
			return out;
		}
		if !o.ok
		{
			let mut codes = o.codes.clone();
			codes.sort();
			codes.dedup();
			out.fail(
				format!("program of valid literals rejected {:?}", codes),
				json!({"source": source, "codes": o.codes, "items": items.iter().map(describe).collect::<Vec<_>>()}),
			);
			return out;
		}
		// lints by line
		let lint_lines: Vec<usize> =
			o.lints.iter().filter(|l| l.code == 1142).map(|l| l.line).collect();
		for it in &items
		{
			let linted = lint_lines.contains(&it.line);
			let is_min = it.neg && it.ty.signed() && it.mag == it.ty.max_value() + 1;
			if it.in_range && linted
			{
				let what = if is_min
				{
					"false L1142: negated literal equal to the type's minimum".to_string()
				}
				else
				{
					format!("false L1142 on an in-range literal ({} in {})", it.spelling.split(':').next().unwrap_or(""), it.context)
				};
				out.fail(what, json!({"source": source, "item": describe(it)}));
			}
			if !it.in_range && !linted
			{
				let what = match it.context
				{
					"return" | "if-operand" => format!(
						"missing L1142: out-of-range literal in {} position is never linted",
						it.context
					),
					_ => format!("missing L1142 on an out-of-range literal ({})", it.context),
				};
				out.fail(what, json!({"source": source, "item": describe(it)}));
			}
		}
		// run and compare values of in-range items
		let r = alpha::run_ir(&o.module_irs[0], 10);
		if r.timed_out
		{
			out.discarded = Some("lli watchdog".into());
			return out;
		}
		let stdout = String::from_utf8_lossy(&r.stdout).to_string();
		let lines: Vec<&str> = stdout.lines().collect();
		if lines.len() != items.len() || !r.stderr.is_empty()
		{
			out.fail(
				"program of literals did not print one line per literal",
				json!({"source": source, "stdout": stdout, "stderr": String::from_utf8_lossy(&r.stderr)}),
			);
			return out;
		}
		for (it, got) in items.iter().zip(lines.iter())
		{
			if let Some(want) = &it.expect
			{
				if want != got
				{
					out.fail(
						format!(
							"literal denotes the wrong value at run time ({} {})",
							it.ty.name(),
							it.spelling.split(':').nth(1).unwrap_or("")
						),
						json!({"source": source, "item": describe(it), "expected": want, "printed": got}),
					);
				}
			}
		}
		if ctx.want_sample
		{
			out.sample = Some(json!({"source": source, "items": items.iter().map(describe).collect::<Vec<_>>()}));
		}
		out
	}
}

struct Chars;
impl Stream for Chars
{
	fn name(&self) -> String
	{
		"char-literals".into()
	}
	fn count(&self, _tier: Tier) -> u64
	{
		// 256 byte values x 3 spelling attempts, 32 per program
		24
	}
	fn exhaustive(&self) -> bool
	{
		true
	}
	fn run(&self, idx: u64, _c: &mut Choices, ctx: &RunCtx) -> CaseOut
	{
		let mut out = CaseOut::default();
		let style = idx / 8; // 0 raw/named, 1 \xhh, 2 \xHH
		let lo = (idx % 8) * 32;
		let mut body = String::new();
		let mut expect = String::new();
		let mut n = 0;
		for b in lo..lo + 32
		{
			let b = b as u8;
			let text = match style
			{
				0 => match b
				{
					b'\n' => "\\n".to_string(),
					b'\r' => "\\r".to_string(),
					b'\t' => "\\t".to_string(),
					b'\\' => "\\\\".to_string(),
					b'\'' => "\\'".to_string(),
					b'"' => "\\\"".to_string(),
					0 => "\\0".to_string(),
					0x20..=0x7e => (b as char).to_string(),
					_ => continue,
				},
				1 => format!("\\x{:02x}", b),
				_ => format!("\\x{:02X}", b),
			};
			body.push_str(&format!("\tvar c{n}: char8 = '{text}';\n\tprint!(c{n} as u8, \"\\n\");\n"));
			if style == 0 && b == b'"'
			{
				// the unescaped double quote is a legal char literal too
				body.push_str(&format!("\tvar d{n} = '\"';\n\tprint!(d{n} as u8, \"\\n\");\n"));
				expect.push_str("34\n");
			}
			expect.push_str(&format!("{}\n", b));
			n += 1;
		}
		out.key = idx;
		out.nontrivial = true;
		if n == 0
		{
			out.discarded = Some("no raw spelling for these bytes".into());
			return out;
		}
		let source = format!("fn main() -> i32\n{{\n{}\treturn: 0\n}}\n", body);
		let mut dummy = CaseOut::default();
		match crate::c01::compile_and_run(&source, "char literals", &mut dummy)
		{
			Some(obs) =>
			{
				if String::from_utf8_lossy(&obs.stdout) != expect
				{
					out.fail(
						"char literal denotes the wrong byte",
						json!({"source": source, "expected": expect, "stdout": String::from_utf8_lossy(&obs.stdout)}),
					);
				}
			}
			None =>
			{
				out.failures = dummy.failures;
			}
		}
		out.class(format!("spelling-style:{}", style));
		if ctx.want_sample
		{
			out.sample = Some(json!({"source_head": source.chars().take(400).collect::<String>()}));
		}
		out
	}
}

struct Strings;
impl Stream for Strings
{
	fn name(&self) -> String
	{
		"string-literals".into()
	}
	fn count(&self, tier: Tier) -> u64
	{
		tier.pick(2000, 40_000)
	}
	fn choice_len(&self) -> usize
	{
		500
	}
	fn run(&self, _idx: u64, c: &mut Choices, ctx: &RunCtx) -> CaseOut
	{
		let mut out = CaseOut::default();
		let mut body = String::new();
		let mut expect = String::new();
		let n = 1 + c.draw(6);
		let mut has_escape = false;
		for k in 0..n
		{
			let bytes = lexgen::random_bytes(c, 24);
			// split into adjacent literals at random points
			let parts = 1 + c.draw(3);
			let mut cuts: Vec<usize> = (0..parts - 1).map(|_| c.draw(bytes.len() + 1)).collect();
			cuts.sort();
			let mut lits = Vec::new();
			let mut from = 0;
			for cut in cuts.iter().chain(std::iter::once(&bytes.len()))
			{
				// never cut inside a UTF-8 scalar that will be spelled raw:
				// spell_bytes works bytewise on invalid sequences, so any cut is fine
				let piece = &bytes[from..*cut];
				let inner = lexgen::spell_bytes(c, piece, b'"');
				if inner.contains('\\')
				{
					has_escape = true;
				}
				lits.push(format!("\"{}\"", inner));
				from = *cut;
			}
			let sep = *c.pick(&[" ", "\n\t\t", " // cut\n\t\t", ""]);
			// two adjacent literals glued without whitespace are still two tokens
			body.push_str(&format!("\tdump({});\n", lits.join(sep)));
			expect.push_str(&format!("{}:", bytes.len()));
			for b in &bytes
			{
				expect.push_str(&format!(" {}", b));
			}
			expect.push('\n');
			let _ = k;
		}
		let source = format!(
			"fn dump(s: []char8)\n{{\n\tprint!(|s|, \":\");\n\tvar i: usize = 0;\n\t{{\n\t\tif i == |s|\n\t\t\tgoto done;\n\t\tprint!(\" \", s[i] as u8);\n\t\ti = i + 1;\n\t\tloop;\n\t}}\n\tdone:\n\tprint!(\"\\n\");\n}}\n\nfn main() -> i32\n{{\n{}\treturn: 0\n}}\n",
			body
		);
		out.key = fnv(&source);
		out.nontrivial = has_escape;
		let mut dummy = CaseOut::default();
		match crate::c01::compile_and_run(&source, "string literals", &mut dummy)
		{
			Some(obs) =>
			{
				if String::from_utf8_lossy(&obs.stdout) != expect
				{
					out.fail(
						"string literal denotes the wrong bytes",
						json!({"source": source, "expected": expect, "stdout": String::from_utf8_lossy(&obs.stdout)}),
					);
				}
			}
			None =>
			{
				out.failures = dummy.failures;
			}
		}
		if ctx.want_sample
		{
			out.sample = Some(json!({"source": source}));
		}
		out
	}
}

struct Malformed;
impl Stream for Malformed
{
	fn name(&self) -> String
	{
		"malformed-literals".into()
	}
	fn count(&self, tier: Tier) -> u64
	{
		lexgen::MALFORMED.len() as u64 * tier.pick(4, 40)
	}
	fn choice_len(&self) -> usize
	{
		8
	}
	fn run(&self, idx: u64, c: &mut Choices, ctx: &RunCtx) -> CaseOut
	{
		let mut out = CaseOut::default();
		let (bad, code, eol) = lexgen::MALFORMED[(idx % lexgen::MALFORMED.len() as u64) as usize];
		let nl = if eol { "\n\t\t" } else { "" };
		let source = match c.draw(4)
		{
			0 => format!("fn main() -> i32\n{{\n\tvar x = {bad}{nl};\n\treturn: 0\n}}\n"),
			1 => format!("const K: u8 = {bad}{nl};\n\nfn main() -> i32\n{{\n\treturn: 0\n}}\n"),
			2 => format!("fn f(x: i32) -> i32\n{{\n\treturn: x\n}}\n\nfn main() -> i32\n{{\n\tvar y = f({bad}{nl});\n\treturn: 0\n}}\n"),
			_ => format!("fn main() -> i32\n{{\n\tvar x: i32 = 1;\n\tif x == {bad}{nl}\n\t{{\n\t}}\n\treturn: 0\n}}\n"),
		};
		out.key = fnv(&source);
		out.nontrivial = true;
		out.class(format!("expected:E{}", code));
		let o = alpha::analyze_one(&source);
		if let Some(e) = &o.internal_error
		{
			out.fail(format!("internal error {}", e.chars().take(50).collect::<String>()), json!({"source": source}));
		}
		else if o.ok
		{
			out.fail(
				format!("malformed literal accepted (expected E{})", code),
				json!({"source": source, "literal": bad}),
			);
		}
		else if !o.codes.contains(&code)
		{
			out.fail(
				format!("malformed literal rejected with {:?} instead of E{}", o.codes, code),
				json!({"source": source, "literal": bad}),
			);
		}
		if ctx.want_sample
		{
			out.sample = Some(json!({"source": source, "expected_code": code}));
		}
		out
	}
}

impl Check for C09
{
	fn id(&self) -> &'static str
	{
		"C09"
	}
	fn rule(&self) -> String
	{
		"(a) integer literals: (type in 11 integer types) x (value class: 0, 1, max, max+1, min, min-1, 2^31, 2^32, 2^63, 2^64, 2^127, 2^128-1 each +-1, small, random, negative) x (spelling: decimal / 0x / 0b, `_` separators, leading zeros, case, type suffix, unary minus) x (context: typed var, const, array element, struct member, argument, return value, if operand, cast operand), 4-13 per program with per-line lint attribution; (b) char literals: all 256 byte values in raw/named-escape, \\xhh and \\xHH spellings (exhaustive); (c) string literals: random byte strings rendered with random mixes of raw, \\xHH, \\u{..} and named escapes, split into adjacent literals with whitespace, newlines or comments between; (d) 56 malformed literals in 4 contexts. Oracle: representable => accepted, no L1142 on that line, printed value equals the literal's value; not representable (<= 128 bits) => L1142 on that line; chars and strings print exactly their bytes; malformed => rejected with the documented code among the diagnostics. Non-trivial: boundary value class, or a spelling with a non-decimal base / `_` / suffix / minus, or a string with an escape; distinct by source.".into()
	}
	fn assumptions(&self) -> Vec<String>
	{
		vec![
			"range rule is value-based for every spelling (as src/alpha/linter.rs and tests/samples/valid/unintentional_integer_truncation.pn show)".into(),
			"the printed value of an out-of-range literal is not asserted".into(),
		]
	}
	fn streams(&self) -> Vec<Box<dyn Stream>>
	{
		vec![Box::new(Integers), Box::new(Chars), Box::new(Strings), Box::new(Malformed)]
	}
}
