//! C10 — compile-time evaluation agrees with run time.

use crate::ast::{print_program, Layout};
use crate::choices::{fnv, Choices};
use crate::engine::*;
use crate::interp;
use crate::progen;
use serde_json::json;

pub struct C10;

fn run_against_interpreter(
	prog: &crate::ast::Program,
	what: &str,
	out: &mut CaseOut,
	ctx: &RunCtx,
) -> Option<String>
{
	let src = print_program(prog, Layout::plain(), None);
	out.key = fnv(&src);
	let expected = match interp::Interp::new(prog).run_main()
	{
		Ok(o) => o,
		Err(interp::Stop::Ub(w)) =>
		{
			out.discarded = Some(format!("interpreter: UB ({})", w));
			return None;
		}
		Err(interp::Stop::TooLong) =>
		{
			out.discarded = Some("interpreter: step limit".into());
			return None;
		}
		Err(interp::Stop::Bug(w)) =>
		{
			out.fail(format!("harness: interpreter bug {}", w.chars().take(40).collect::<String>()), json!({"source": src}));
			return None;
		}
	};
	out.count("programs", 1);
	if let Some(obs) = crate::c01::compile_and_run(&src, what, out)
	{
		out.count("comparisons", 1);
		let got = String::from_utf8_lossy(&obs.stdout).to_string();
		let want = String::from_utf8_lossy(&expected.stdout).to_string();
		if got != want
		{
			// name the first differing line
			let (mut gl, mut wl) = (got.lines(), want.lines());
			let mut line = 0;
			let mut pair = (String::new(), String::new());
			loop
			{
				line += 1;
				match (gl.next(), wl.next())
				{
					(Some(a), Some(b)) if a == b => continue,
					(a, b) =>
					{
						pair = (a.unwrap_or("<none>").to_string(), b.unwrap_or("<none>").to_string());
						break;
					}
				}
			}
			out.fail(
				format!("{}: printed values differ from the reference model", what),
				json!({"source": src, "line": line, "printed": pair.0, "expected": pair.1, "stdout": got, "expected_stdout": want}),
			);
		}
		if ctx.want_sample
		{
			out.sample = Some(json!({"source": src, "expected_stdout": want}));
		}
		return Some(got);
	}
	None
}

struct ConstExprs;
impl Stream for ConstExprs
{
	fn name(&self) -> String
	{
		"constant-expressions".into()
	}
	fn count(&self, tier: Tier) -> u64
	{
		tier.pick(2500, 40_000)
	}
	fn choice_len(&self) -> usize
	{
		500
	}
	fn run(&self, _idx: u64, c: &mut Choices, ctx: &RunCtx) -> CaseOut
	{
		let mut out = CaseOut::default();
		let prog = progen::const_program(c);
		fn depth(e: &crate::ast::Expr) -> usize
		{
			use crate::ast::Expr::*;
			match e
			{
				Bin(_, l, r, _) => 1 + depth(l).max(depth(r)),
				Un(_, x, _) | Paren(x) | Cast(x, _, _) => 1 + depth(x),
				_ => 0,
			}
		}
		fn has_cast(e: &crate::ast::Expr) -> bool
		{
			use crate::ast::Expr::*;
			match e
			{
				Cast(..) => true,
				Bin(_, l, r, _) => has_cast(l) || has_cast(r),
				Un(_, x, _) | Paren(x) => has_cast(x),
				_ => false,
			}
		}
		out.nontrivial = prog.consts.iter().any(|k| depth(&k.init) >= 3 && has_cast(&k.init));
		if let Some(got) = run_against_interpreter(&prog, "constant expressions", &mut out, ctx)
		{
			// the constant and its run-time twin are on one line
			for (i, l) in got.lines().enumerate()
			{
				let mut it = l.split(' ');
				let (a, b) = (it.next(), it.next());
				if a != b
				{
					out.fail(
						"constant differs from the same expression evaluated at run time",
						json!({"source": print_program(&prog, Layout::plain(), None), "line": i + 1, "constant": a, "run_time": b}),
					);
					break;
				}
			}
		}
		out
	}
}

struct Layouts;
impl Stream for Layouts
{
	fn name(&self) -> String
	{
		"sizes-and-layout".into()
	}
	fn count(&self, tier: Tier) -> u64
	{
		tier.pick(2500, 40_000)
	}
	fn choice_len(&self) -> usize
	{
		300
	}
	fn run(&self, _idx: u64, c: &mut Choices, ctx: &RunCtx) -> CaseOut
	{
		let mut out = CaseOut::default();
		let prog = progen::layout_program(c);
		out.nontrivial = prog.structs.iter().any(|s| s.members.len() >= 3);
		for s in &prog.structs
		{
			out.class(if s.word_bytes.is_some() { "decl:word" } else { "decl:struct" });
		}
		run_against_interpreter(&prog, "sizes", &mut out, ctx);
		out
	}
}

pub struct WordCase
{
	pub src: String,
	/// bytes the members need with their alignment padding
	pub size: usize,
	/// sum of the member sizes
	pub raw: usize,
	pub declared: usize,
	pub members: usize,
	pub max_align: usize,
	pub array_len: usize,
	pub shape: String,
}

/// a word8..word128 whose members reach, stay below or pass the declared size
pub fn word_case(c: &mut Choices) -> WordCase
{
	let declared = *c.pick(&[8usize, 4, 16, 2, 1]);
	let prims: &[(&str, usize, &str)] = &[
		("u8", 1, "1"),
		("i8", 1, "1"),
		("bool", 1, "true"),
		("char8", 1, "'a'"),
		("u16", 2, "1"),
		("i16", 2, "1"),
		("u32", 4, "1"),
		("i32", 4, "1"),
		("u64", 8, "1"),
		("i64", 8, "1"),
		("u128", 16, "1"),
	];
	// members until the raw sizes reach (or slightly pass) the declared size
	let mut members: Vec<(&str, usize, &str)> = Vec::new();
	let mut raw = 0usize;
	let target = declared - c.draw(declared.min(3)) + if c.chance(1, 6) { 1 + c.draw(4) } else { 0 };
	while raw < target && members.len() < 8
	{
		let fits: Vec<&(&str, usize, &str)> = prims.iter().filter(|p| raw + p.1 <= target.max(1)).collect();
		if fits.is_empty()
		{
			break;
		}
		let m = **c.pick(&fits);
		raw += m.1;
		members.push(m);
	}
	if members.is_empty()
	{
		members.push(prims[0]);
	}
	// C layout: every member at the next multiple of min(size, 8)
	let mut off = 0usize;
	let mut maxa = 1usize;
	for (_, size, _) in &members
	{
		let a = (*size).min(8);
		off = (off + a - 1) / a * a + size;
		maxa = maxa.max(a);
	}
	let size = (off + maxa - 1) / maxa * maxa;
	let k = 2 + c.draw(3);
	let decl: Vec<String> = members.iter().enumerate().map(|(i, m)| format!("\tm{}: {},\n", i, m.0)).collect();
	let lit: Vec<String> = members.iter().enumerate().map(|(i, m)| format!("m{}: {}", i, m.2)).collect();
	let src = format!(
		"word{} W\n{{\n{}}}\n\nstruct Holder\n{{\n\tfirst: u8,\n\tw: W,\n}}\n\nconst SZ: usize = |:W|;\n\nfn main() -> i32\n{{\n\tvar w = W {{ {} }};\n\tvar a: [{}]W = [{}];\n\tprint!(|:W|, \" \", SZ, \" \", |:[{}]W|, \" \", |:Holder|, \" \", |a|, \"\\n\");\n\treturn: 0\n}}\n",
		declared * 8,
		decl.concat(),
		lit.join(", "),
		k,
		(0..k).map(|_| "w").collect::<Vec<_>>().join(", "),
		k
	);
	let shape = format!("word{} {{ {} }}", declared * 8, members.iter().map(|m| m.0).collect::<Vec<_>>().join(", "));
	WordCase {
		src,
		size,
		raw,
		declared,
		members: members.len(),
		max_align: maxa,
		array_len: k,
		shape,
	}
}

/// words with arbitrary member lists around their declared size: padding
/// counts towards the size (E380 beyond it); a word that is accepted occupies
/// what its members and their alignment need, alone, in arrays and as a member
struct WordLimits;
impl Stream for WordLimits
{
	fn name(&self) -> String
	{
		"word-size-limits".into()
	}
	fn count(&self, tier: Tier) -> u64
	{
		tier.pick(3000, 40_000)
	}
	fn choice_len(&self) -> usize
	{
		40
	}
	fn run(&self, _idx: u64, c: &mut Choices, ctx: &RunCtx) -> CaseOut
	{
		let mut out = CaseOut::default();
		let WordCase {
			src,
			size,
			raw,
			declared,
			members,
			max_align: maxa,
			array_len: k,
			shape,
		} = word_case(c);
		out.key = fnv(&src);
		out.nontrivial = members >= 2;
		let holes = size != raw;
		out.class(if size > declared { "word:too-large" } else if size < declared { "word:underfilled" } else { "word:exact" });
		if holes
		{
			out.class("word:with-padding");
		}
		out.count("programs", 1);
		let o = crate::alpha::compile_one(
			&src,
			crate::alpha::Options {
				want_ir: true,
				..Default::default()
			},
		);
		let detail = json!({"source": src, "members_need_bytes": size, "declared_bytes": declared, "result": o.summary()});
		if let Some(e) = &o.internal_error
		{
			out.fail(format!("word limits: internal error {}", e.chars().take(40).collect::<String>()), detail);
		}
		else if size > declared
		{
			if o.ok
			{
				out.fail(format!("a word whose members need {} bytes is accepted as word{}", size, declared * 8), detail);
			}
			else if !o.codes.contains(&380)
			{
				out.fail(format!("oversized word rejected with {:?} instead of E380: {}", o.codes, shape), detail);
			}
		}
		else if !o.ok
		{
			if size == declared
			{
				out.fail(format!("exactly filled word rejected {:?}: {}", o.codes, shape), detail);
			}
			else
			{
				// docs: "does not match" - an underfilled word may be refused
				out.class("note:underfilled-word-rejected");
			}
		}
		else
		{
			let r = crate::alpha::run_ir(&o.module_irs[0], 10);
			if r.timed_out
			{
				out.discarded = Some("lli watchdog".into());
				return out;
			}
			out.count("comparisons", 1);
			let got = String::from_utf8_lossy(&r.stdout).trim().to_string();
			let nums: Vec<usize> = got.split(' ').filter_map(|x| x.parse().ok()).collect();
			// the word after one u8 in a structure
			let hoff = (1 + maxa - 1) / maxa * maxa + size;
			let holder = (hoff + maxa - 1) / maxa * maxa;
			let want = vec![size, size, size * k, holder, k];
			if nums.len() != 5
			{
				out.fail("word limits: unexpected output", json!({"source": src, "stdout": got, "stderr": String::from_utf8_lossy(&r.stderr)}));
			}
			else if nums[0] != nums[1]
			{
				out.fail("|:W| as a constant differs from |:W| at run time", json!({"source": src, "stdout": got}));
			}
			else if nums[2] != nums[0] * k
			{
				out.fail(format!("|:[N]W| is not N * |:W| ({})", if size == declared { "exactly filled word" } else { "underfilled word" }), json!({"source": src, "stdout": got}));
			}
			else if nums != want
			{
				out.fail(
					format!("sizes of a word differ from member sizes and alignment ({})", if size == declared { "exactly filled word" } else { "underfilled word" }),
					json!({"source": src, "stdout": got, "expected": want}),
				);
			}
		}
		if ctx.want_sample
		{
			out.sample = Some(json!({"word": shape, "members_need_bytes": size, "accepted": o.ok}));
		}
		out
	}
}

/// lengths named by constants of 2^32 and more (types only: nothing that big
/// is allocated). The compiler may refuse them, but if it accepts the program
/// the length is the constant, not the constant cut to 32 bits.
struct HugeLengths;
const HUGE: &[u64] = &[4294967296, 4294967299, 8589934593, 1099511627776, 4294967295, 2147483648];
impl Stream for HugeLengths
{
	fn name(&self) -> String
	{
		"huge-named-lengths".into()
	}
	fn count(&self, _tier: Tier) -> u64
	{
		HUGE.len() as u64 * 3
	}
	fn exhaustive(&self) -> bool
	{
		true
	}
	fn run(&self, idx: u64, _c: &mut Choices, ctx: &RunCtx) -> CaseOut
	{
		let mut out = CaseOut::default();
		let n = HUGE[(idx / 3) as usize];
		let (t, size) = [("u8", 1u128), ("i32", 4), ("u64", 8)][(idx % 3) as usize];
		let src = format!(
			"const N: usize = {n};\n\nfn len_of(x: &[N]{t}) -> usize\n{{\n\treturn: |x|\n}}\n\nfn main() -> i32\n{{\n\tprint!(N, \" \", |:[N]{t}|, \"\\n\");\n\treturn: 0\n}}\n"
		);
		out.key = idx;
		out.nontrivial = true;
		out.count("programs", 1);
		let o = crate::alpha::compile_one(
			&src,
			crate::alpha::Options {
				want_ir: true,
				..Default::default()
			},
		);
		if o.internal_error.is_some() || !o.ok
		{
			// refusing such a length (with or without a diagnostic) is not
			// this property's subject
			out.class("huge-length:refused");
		}
		else
		{
			out.class("huge-length:accepted");
			let r = crate::alpha::run_ir(&o.module_irs[0], 10);
			out.count("comparisons", 1);
			let got = String::from_utf8_lossy(&r.stdout).trim().to_string();
			let want = format!("{} {}", n, n as u128 * size);
			if !r.timed_out && got != want
			{
				out.fail(
					"an array type whose length is a named constant of 2^31 or more has another length",
					json!({"source": src, "stdout": got, "expected_stdout": want}),
				);
			}
		}
		if ctx.want_sample
		{
			out.sample = Some(json!({"source": src}));
		}
		out
	}
}

/// a constant array whose elements are expressions over other constants, and
/// its run-time twin whose elements are the same expressions over variables
/// holding the same values (constant and run-time elements mixed in any order)
struct ArrayLiterals;
impl Stream for ArrayLiterals
{
	fn name(&self) -> String
	{
		"array-literal-constants".into()
	}
	fn count(&self, tier: Tier) -> u64
	{
		tier.pick(1500, 20_000)
	}
	fn choice_len(&self) -> usize
	{
		60
	}
	fn run(&self, _idx: u64, c: &mut Choices, ctx: &RunCtx) -> CaseOut
	{
		let mut out = CaseOut::default();
		let t = *c.pick(&["i32", "u8", "i64", "u16", "usize", "i8", "u64"]);
		let nk = 1 + c.draw(3);
		let ks: Vec<u32> = (0..nk).map(|_| c.draw(10) as u32).collect();
		let n = 2 + c.draw(5);
		// element: (constant spelling, run-time spelling, value, is run time)
		let mut elems: Vec<(String, String, u32, bool)> = Vec::new();
		for _ in 0..n
		{
			let k = c.draw(nk);
			let lit = c.draw(10) as u32;
			elems.push(match c.draw(5)
			{
				0 => (format!("{}", lit), format!("{}", lit), lit, false),
				1 => (format!("K{}", k), format!("k{}", k), ks[k], true),
				2 => (format!("K{} + {}", k, lit), format!("k{} + {}", k, lit), ks[k] + lit, true),
				3 => (format!("{} * K{}", lit, k), format!("{} * k{}", lit, k), lit * ks[k], true),
				// constant also in the run-time twin: constant and run-time elements mix
				_ => (format!("K{}", k), format!("K{}", k), ks[k], false),
			});
		}
		let mixed = elems.iter().any(|e| e.3) && elems.iter().any(|e| !e.3);
		let consts: String = (0..nk).map(|k| format!("const K{}: {} = {};\n", k, t, ks[k])).collect();
		let vars: String = (0..nk).map(|k| format!("\tvar k{}: {} = {};\n", k, t, ks[k])).collect();
		let table = format!("const TABLE: [{}]{} = [{}];\n", n, t, elems.iter().map(|e| e.0.clone()).collect::<Vec<_>>().join(", "));
		let twin = format!("\tvar table: [{}]{} = [{}];\n", n, t, elems.iter().map(|e| e.1.clone()).collect::<Vec<_>>().join(", "));
		let prints: String = (0..n).map(|i| format!("\tprint!(TABLE[{i}], \" \", table[{i}], \"\\n\");\n")).collect();
		let first = c.flag();
		let src = if first
		{
			format!("{table}\n{consts}\nfn main() -> i32\n{{\n{vars}{twin}{prints}\tprint!(|TABLE|, \" \", |table|, \"\\n\");\n\treturn: 0\n}}\n")
		}
		else
		{
			format!("{consts}\n{table}\nfn main() -> i32\n{{\n{vars}{twin}{prints}\tprint!(|TABLE|, \" \", |table|, \"\\n\");\n\treturn: 0\n}}\n")
		};
		let want: String = elems.iter().map(|e| format!("{} {}\n", e.2, e.2)).collect::<String>() + &format!("{} {}\n", n, n);
		out.key = fnv(&src);
		out.nontrivial = mixed;
		out.class(if mixed { "array-literal:constant and run-time elements mixed" } else { "array-literal:uniform" });
		out.count("programs", 1);
		let o = crate::alpha::compile_one(
			&src,
			crate::alpha::Options {
				want_ir: true,
				..Default::default()
			},
		);
		if let Some(e) = &o.internal_error
		{
			out.fail(format!("internal error {}", e.chars().take(50).collect::<String>()), json!({"source": src}));
		}
		else if !o.ok
		{
			out.fail(format!("constant array of constant expressions rejected {:?}", o.codes), json!({"source": src, "codes": o.codes}));
		}
		else
		{
			let r = crate::alpha::run_ir(&o.module_irs[0], 10);
			out.count("comparisons", n as u64 + 1);
			let got = String::from_utf8_lossy(&r.stdout).to_string();
			if !r.timed_out && got != want
			{
				out.fail(
					"array literal: constant and run-time twin print other values than the model",
					json!({"source": src, "stdout": got, "expected_stdout": want}),
				);
			}
		}
		if ctx.want_sample
		{
			out.sample = Some(json!({"source": src}));
		}
		out
	}
}

/// named-constant lengths and |x| through every way of passing an array
struct ArrayLengths;
impl Stream for ArrayLengths
{
	fn name(&self) -> String
	{
		"array-lengths".into()
	}
	fn count(&self, tier: Tier) -> u64
	{
		tier.pick(1500, 20_000)
	}
	fn choice_len(&self) -> usize
	{
		40
	}
	fn run(&self, _idx: u64, c: &mut Choices, ctx: &RunCtx) -> CaseOut
	{
		let mut out = CaseOut::default();
		let n = c.draw(8);
		let m = 1 + c.draw(3);
		let t = *c.pick(&["i32", "u8", "i64", "u16", "i128", "usize", "bool", "char8"]);
		let zero = match t
		{
			"bool" => "false",
			"char8" => "'a'",
			_ => "7",
		};
		// the length constant is itself an expression
		let nexpr = match c.draw(5)
		{
			0 => format!("{}", n),
			1 => format!("{} + {}", n / 2, n - n / 2),
			2 => format!("{} * 2 - {}", n, n),
			3 => format!("({} as u8) as usize", n),
			_ => format!("BASE + {}", n),
		};
		let elems = |k: usize| -> String {
			let v: Vec<&str> = (0..k).map(|_| zero).collect();
			format!("[{}]", v.join(", "))
		};
		let rows: Vec<String> = (0..m).map(|_| elems(n)).collect();
		let use_const_array = c.flag();
		let mut s = String::new();
		s.push_str("const BASE: usize = 0;\n");
		if c.flag()
		{
			// the user first, the definition later
			s.push_str(&format!("const M: usize = N;\nconst N: usize = {};\n", nexpr));
		}
		else
		{
			s.push_str(&format!("const N: usize = {};\nconst M: usize = N;\n", nexpr));
		}
		if use_const_array
		{
			s.push_str(&format!("const A: [N]{} = {};\n", t, elems(n)));
		}
		s.push_str(&format!(
			"fn view2(x: []{t}) -> usize\n{{\n\tprint!(|x|, \"\\n\");\n\treturn: |x|\n}}\n\
			 fn view1(x: []{t}) -> usize\n{{\n\tprint!(|x|, \"\\n\");\n\treturn: view2(x)\n}}\n\
			 fn ptr2(x: &[]{t}) -> usize\n{{\n\tprint!(|x|, \"\\n\");\n\treturn: |x|\n}}\n\
			 fn ptr1(x: &[]{t}) -> usize\n{{\n\tprint!(|x|, \"\\n\");\n\treturn: ptr2(&x)\n}}\n"
		));
		s.push_str(&format!("struct H\n{{\n\tinner: [M]{t},\n\ttag: u8,\n}}\n"));
		s.push_str("fn main() -> i32\n{\n");
		s.push_str(&format!("\tvar a: [N]{} = {};\n", t, elems(n)));
		s.push_str("\tprint!(|a|, \"\\n\");\n");
		s.push_str("\tvar r1 = view1(a);\n\tprint!(r1, \"\\n\");\n");
		s.push_str("\tvar r2 = ptr1(&a);\n\tprint!(r2, \"\\n\");\n");
		let mut expected = vec![n; 1 + 3 + 3];
		if n > 0
		{
			s.push_str(&format!("\tvar p: &[N]{} = &a;\n\tprint!(|p|, \"\\n\");\n\tvar r3 = view1(p);\n\tprint!(r3, \"\\n\");\n", t));
			expected.extend([n, n, n, n]);
		}
		s.push_str(&format!("\tvar b: [{}][M]{} = [{}];\n", m, t, rows.join(", ")));
		s.push_str("\tprint!(|b|, \" \", |b[0]|, \"\\n\");\n");
		s.push_str("\tvar r4 = view1(b[0]);\n\tprint!(r4, \"\\n\");\n");
		s.push_str(&format!("\tvar h = H {{ inner: {}, tag: 1 }};\n", elems(n)));
		s.push_str("\tprint!(|h.inner|, \"\\n\");\n\tvar r5 = view1(h.inner);\n\tprint!(r5, \"\\n\");\n");
		if use_const_array
		{
			s.push_str("\tprint!(|A|, \"\\n\");\n\tvar r6 = view1(A);\n\tprint!(r6, \"\\n\");\n");
		}
		s.push_str("\tprint!(N, \" \", M, \"\\n\");\n\treturn: 0\n}\n");
		let mut want = String::new();
		for v in &expected
		{
			want.push_str(&format!("{}\n", v));
		}
		want.push_str(&format!("{} {}\n", m, n));
		want.push_str(&format!("{0}\n{0}\n{0}\n", n)); // r4 levels
		want.push_str(&format!("{0}\n{0}\n{0}\n{0}\n", n)); // h.inner, view1 x2, r5
		if use_const_array
		{
			want.push_str(&format!("{0}\n{0}\n{0}\n{0}\n", n));
		}
		want.push_str(&format!("{0} {0}\n", n));
		out.key = fnv(&s);
		out.nontrivial = true;
		out.class(format!("length:{}", n));
		out.class(format!("elem:{}", t));
		out.count("programs", 1);
		if let Some(obs) = crate::c01::compile_and_run(&s, "array lengths", &mut out)
		{
			out.count("comparisons", 1);
			let got = String::from_utf8_lossy(&obs.stdout).to_string();
			if got != want
			{
				out.fail(
					"|x| differs from the declared number of elements",
					json!({"source": s, "stdout": got, "expected_stdout": want}),
				);
			}
		}
		if ctx.want_sample
		{
			out.sample = Some(json!({"source": s, "expected_stdout": want}));
		}
		out
	}
}

impl Check for C10
{
	fn id(&self) -> &'static str
	{
		"C10"
	}
	fn level(&self) -> &'static str
	{
		"translation_validation"
	}
	fn rule(&self) -> String
	{
		"(a) 2-8 constants of random integer types initialised with random UB-free expressions (arithmetic, bitwise, shifts, casts, size-of, references to other constants in any top-level order, depth <= 5), each mirrored by `var v: T = <same expression>` in main, both printed; (b) arrays of length 0..7 whose length is a named constant defined by an expression (before or after its user), passed by name, as []T and &[]T through two call levels, via a pointer to the sized array, as a row of a 2-D array, as a struct member and as a constant array, with |x| printed at every level; (c) random structs and exactly-filled words (nested words/structs, arrays, pointers, all primitive types) whose |:S|, |:[k]S|, |:T|, |:[k]T|, |:[m][k]T| are printed at run time and through `const SZ: usize = |:S|`. (e) constant arrays of 2-6 elements that are literals, constants or expressions over constants, next to a variable array of the same expressions over variables holding the same values, constant and run-time elements mixed in any order, every element and both lengths printed. Oracle: constant == run-time twin == reference interpreter (e: == the generator's values); |x| == declared length everywhere; sizes == C layout from the declared data layout. (d) word8..word128 with 1-8 primitive members whose raw sizes reach, stay below or pass the declared size, in any order (so that padding holes occur): members needing more than the declared size => E380, exactly filled => accepted, and for every accepted word |:W| == constant |:W| , |:[N]W| == N * |:W|, |:W| and |:struct { u8, W }| equal to member sizes plus alignment padding (underfilled words may be refused: docs say 'does not match'). Non-trivial: an expression of depth >= 3 containing a cast (a), always (b), a structure with >= 3 members (c), a word with >= 2 members (d); distinct by source.".into()
	}
	fn assumptions(&self) -> Vec<String>
	{
		vec![
			"layout model: integer alignment = min(size, 8) (as tests/samples/valid/size_of_struct.pn shows for i128), pointers and usize 8 bytes, arrays n * stride, structs C layout; words have their declared size".into(),
			"under-filled words and |:usize| on wasm are not generated (docs and code disagree / not documented)".into(),
		]
	}
	fn streams(&self) -> Vec<Box<dyn Stream>>
	{
		vec![Box::new(ConstExprs), Box::new(ArrayLengths), Box::new(Layouts), Box::new(WordLimits), Box::new(HugeLengths), Box::new(ArrayLiterals)]
	}
}
