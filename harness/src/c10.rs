//! C10 — compile-time evaluation agrees with run time.

use crate::ast::{print_program, Layout};
use crate::choices::{fnv, Choices};
use crate::engine::*;
use crate::interp;
use crate::progen;
use serde_json::json;

pub struct C10;

fn run_against_interpreter(
	prog: &crate::ast::Program,
	what: &str,
	out: &mut CaseOut,
	ctx: &RunCtx,
) -> Option<String>
{
	let src = print_program(prog, Layout::plain(), None);
	out.key = fnv(&src);
	let expected = match interp::Interp::new(prog).run_main()
	{
		Ok(o) => o,
		Err(interp::Stop::Ub(w)) =>
		{
			out.discarded = Some(format!("interpreter: UB ({})", w));
			return None;
		}
		Err(interp::Stop::TooLong) =>
		{
			out.discarded = Some("interpreter: step limit".into());
			return None;
		}
		Err(interp::Stop::Bug(w)) =>
		{
			out.fail(format!("harness: interpreter bug {}", w.chars().take(40).collect::<String>()), json!({"source": src}));
			return None;
		}
	};
	out.count("programs", 1);
	if let Some(obs) = crate::c01::compile_and_run(&src, what, out)
	{
		out.count("comparisons", 1);
		let got = String::from_utf8_lossy(&obs.stdout).to_string();
		let want = String::from_utf8_lossy(&expected.stdout).to_string();
		if got != want
		{
			// name the first differing line
			let (mut gl, mut wl) = (got.lines(), want.lines());
			let mut line = 0;
			let mut pair = (String::new(), String::new());
			loop
			{
				line += 1;
				match (gl.next(), wl.next())
				{
					(Some(a), Some(b)) if a == b => continue,
					(a, b) =>
					{
						pair = (a.unwrap_or("<none>").to_string(), b.unwrap_or("<none>").to_string());
						break;
					}
				}
			}
			out.fail(
				format!("{}: printed values differ from the reference model", what),
				json!({"source": src, "line": line, "printed": pair.0, "expected": pair.1, "stdout": got, "expected_stdout": want}),
			);
		}
		if ctx.want_sample
		{
			out.sample = Some(json!({"source": src, "expected_stdout": want}));
		}
		return Some(got);
	}
	None
}

struct ConstExprs;
impl Stream for ConstExprs
{
	fn name(&self) -> String
	{
		"constant-expressions".into()
	}
	fn count(&self, tier: Tier) -> u64
	{
		tier.pick(1200, 40_000)
	}
	fn choice_len(&self) -> usize
	{
		500
	}
	fn run(&self, _idx: u64, c: &mut Choices, ctx: &RunCtx) -> CaseOut
	{
		let mut out = CaseOut::default();
		let prog = progen::const_program(c);
		fn depth(e: &crate::ast::Expr) -> usize
		{
			use crate::ast::Expr::*;
			match e
			{
				Bin(_, l, r, _) => 1 + depth(l).max(depth(r)),
				Un(_, x, _) | Paren(x) | Cast(x, _, _) => 1 + depth(x),
				_ => 0,
			}
		}
		fn has_cast(e: &crate::ast::Expr) -> bool
		{
			use crate::ast::Expr::*;
			match e
			{
				Cast(..) => true,
				Bin(_, l, r, _) => has_cast(l) || has_cast(r),
				Un(_, x, _) | Paren(x) => has_cast(x),
				_ => false,
			}
		}
		out.nontrivial = prog.consts.iter().any(|k| depth(&k.init) >= 3 && has_cast(&k.init));
		if let Some(got) = run_against_interpreter(&prog, "constant expressions", &mut out, ctx)
		{
			// the constant and its run-time twin are on one line
			for (i, l) in got.lines().enumerate()
			{
				let mut it = l.split(' ');
				let (a, b) = (it.next(), it.next());
				if a != b
				{
					out.fail(
						"constant differs from the same expression evaluated at run time",
						json!({"source": print_program(&prog, Layout::plain(), None), "line": i + 1, "constant": a, "run_time": b}),
					);
					break;
				}
			}
		}
		out
	}
}

struct Layouts;
impl Stream for Layouts
{
	fn name(&self) -> String
	{
		"sizes-and-layout".into()
	}
	fn count(&self, tier: Tier) -> u64
	{
		tier.pick(1200, 40_000)
	}
	fn choice_len(&self) -> usize
	{
		300
	}
	fn run(&self, _idx: u64, c: &mut Choices, ctx: &RunCtx) -> CaseOut
	{
		let mut out = CaseOut::default();
		let prog = progen::layout_program(c);
		out.nontrivial = prog.structs.iter().any(|s| s.members.len() >= 3);
		for s in &prog.structs
		{
			out.class(if s.word_bytes.is_some() { "decl:word" } else { "decl:struct" });
		}
		run_against_interpreter(&prog, "sizes", &mut out, ctx);
		out
	}
}

/// named-constant lengths and |x| through every way of passing an array
struct ArrayLengths;
impl Stream for ArrayLengths
{
	fn name(&self) -> String
	{
		"array-lengths".into()
	}
	fn count(&self, tier: Tier) -> u64
	{
		tier.pick(600, 20_000)
	}
	fn choice_len(&self) -> usize
	{
		40
	}
	fn run(&self, _idx: u64, c: &mut Choices, ctx: &RunCtx) -> CaseOut
	{
		let mut out = CaseOut::default();
		let n = c.draw(8);
		let m = 1 + c.draw(3);
		let t = *c.pick(&["i32", "u8", "i64", "u16", "i128", "usize", "bool", "char8"]);
		let zero = match t
		{
			"bool" => "false",
			"char8" => "'a'",
			_ => "7",
		};
		// the length constant is itself an expression
		let nexpr = match c.draw(5)
		{
			0 => format!("{}", n),
			1 => format!("{} + {}", n / 2, n - n / 2),
			2 => format!("{} * 2 - {}", n, n),
			3 => format!("({} as u8) as usize", n),
			_ => format!("BASE + {}", n),
		};
		let elems = |k: usize| -> String {
			let v: Vec<&str> = (0..k).map(|_| zero).collect();
			format!("[{}]", v.join(", "))
		};
		let rows: Vec<String> = (0..m).map(|_| elems(n)).collect();
		let use_const_array = c.flag();
		let mut s = String::new();
		s.push_str("const BASE: usize = 0;\n");
		if c.flag()
		{
			// the user first, the definition later
			s.push_str(&format!("const M: usize = N;\nconst N: usize = {};\n", nexpr));
		}
		else
		{
			s.push_str(&format!("const N: usize = {};\nconst M: usize = N;\n", nexpr));
		}
		if use_const_array
		{
			s.push_str(&format!("const A: [N]{} = {};\n", t, elems(n)));
		}
		s.push_str(&format!(
			"fn view2(x: []{t}) -> usize\n{{\n\tprint!(|x|, \"\\n\");\n\treturn: |x|\n}}\n\
			 fn view1(x: []{t}) -> usize\n{{\n\tprint!(|x|, \"\\n\");\n\treturn: view2(x)\n}}\n\
			 fn ptr2(x: &[]{t}) -> usize\n{{\n\tprint!(|x|, \"\\n\");\n\treturn: |x|\n}}\n\
			 fn ptr1(x: &[]{t}) -> usize\n{{\n\tprint!(|x|, \"\\n\");\n\treturn: ptr2(&x)\n}}\n"
		));
		s.push_str(&format!("struct H\n{{\n\tinner: [M]{t},\n\ttag: u8,\n}}\n"));
		s.push_str("fn main() -> i32\n{\n");
		s.push_str(&format!("\tvar a: [N]{} = {};\n", t, elems(n)));
		s.push_str("\tprint!(|a|, \"\\n\");\n");
		s.push_str("\tvar r1 = view1(a);\n\tprint!(r1, \"\\n\");\n");
		s.push_str("\tvar r2 = ptr1(&a);\n\tprint!(r2, \"\\n\");\n");
		let mut expected = vec![n; 1 + 3 + 3];
		if n > 0
		{
			s.push_str(&format!("\tvar p: &[N]{} = &a;\n\tprint!(|p|, \"\\n\");\n\tvar r3 = view1(p);\n\tprint!(r3, \"\\n\");\n", t));
			expected.extend([n, n, n, n]);
		}
		s.push_str(&format!("\tvar b: [{}][M]{} = [{}];\n", m, t, rows.join(", ")));
		s.push_str("\tprint!(|b|, \" \", |b[0]|, \"\\n\");\n");
		s.push_str("\tvar r4 = view1(b[0]);\n\tprint!(r4, \"\\n\");\n");
		s.push_str(&format!("\tvar h = H {{ inner: {}, tag: 1 }};\n", elems(n)));
		s.push_str("\tprint!(|h.inner|, \"\\n\");\n\tvar r5 = view1(h.inner);\n\tprint!(r5, \"\\n\");\n");
		if use_const_array
		{
			s.push_str("\tprint!(|A|, \"\\n\");\n\tvar r6 = view1(A);\n\tprint!(r6, \"\\n\");\n");
		}
		s.push_str("\tprint!(N, \" \", M, \"\\n\");\n\treturn: 0\n}\n");
		let mut want = String::new();
		for v in &expected
		{
			want.push_str(&format!("{}\n", v));
		}
		want.push_str(&format!("{} {}\n", m, n));
		want.push_str(&format!("{0}\n{0}\n{0}\n", n)); // r4 levels
		want.push_str(&format!("{0}\n{0}\n{0}\n{0}\n", n)); // h.inner, view1 x2, r5
		if use_const_array
		{
			want.push_str(&format!("{0}\n{0}\n{0}\n{0}\n", n));
		}
		want.push_str(&format!("{0} {0}\n", n));
		out.key = fnv(&s);
		out.nontrivial = true;
		out.class(format!("length:{}", n));
		out.class(format!("elem:{}", t));
		out.count("programs", 1);
		if let Some(obs) = crate::c01::compile_and_run(&s, "array lengths", &mut out)
		{
			out.count("comparisons", 1);
			let got = String::from_utf8_lossy(&obs.stdout).to_string();
			if got != want
			{
				out.fail(
					"|x| differs from the declared number of elements",
					json!({"source": s, "stdout": got, "expected_stdout": want}),
				);
			}
		}
		if ctx.want_sample
		{
			out.sample = Some(json!({"source": s, "expected_stdout": want}));
		}
		out
	}
}

impl Check for C10
{
	fn id(&self) -> &'static str
	{
		"C10"
	}
	fn level(&self) -> &'static str
	{
		"translation_validation"
	}
	fn rule(&self) -> String
	{
		"(a) 2-8 constants of random integer types initialised with random UB-free expressions (arithmetic, bitwise, shifts, casts, size-of, references to other constants in any top-level order, depth <= 5), each mirrored by `var v: T = <same expression>` in main, both printed; (b) arrays of length 0..7 whose length is a named constant defined by an expression (before or after its user), passed by name, as []T and &[]T through two call levels, via a pointer to the sized array, as a row of a 2-D array, as a struct member and as a constant array, with |x| printed at every level; (c) random structs and exactly-filled words (nested words/structs, arrays, pointers, all primitive types) whose |:S|, |:[k]S|, |:T|, |:[k]T|, |:[m][k]T| are printed at run time and through `const SZ: usize = |:S|`. Oracle: constant == run-time twin == reference interpreter; |x| == declared length everywhere; sizes == C layout from the declared data layout. Non-trivial: an expression of depth >= 3 containing a cast (a), always (b), a structure with >= 3 members (c); distinct by source.".into()
	}
	fn assumptions(&self) -> Vec<String>
	{
		vec![
			"layout model: integer alignment = min(size, 8) (as tests/samples/valid/size_of_struct.pn shows for i128), pointers and usize 8 bytes, arrays n * stride, structs C layout; words have their declared size".into(),
			"under-filled words and |:usize| on wasm are not generated (docs and code disagree / not documented)".into(),
		]
	}
	fn streams(&self) -> Vec<Box<dyn Stream>>
	{
		vec![Box::new(ConstExprs), Box::new(ArrayLengths), Box::new(Layouts)]
	}
}
