//! C08 — only vars and explicitly passed pointers can be mutated.

use crate::alpha;
use crate::ast::*;
use crate::choices::{fnv, Choices};
use crate::engine::*;
use crate::interp;
use crate::progen;
use serde_json::json;

pub struct C08;

/// does the program call a function with an `&` argument, and does any
/// callee write through a chain of >= 2 steps or forward a parameter?
fn interesting(prog: &Program) -> (bool, bool)
{
	fn stmts(prog: &Program, v: &[Stmt], params: &[String], amp: &mut bool, deep: &mut bool)
	{
		for s in v
		{
			match s
			{
				Stmt::Assign(p, _) =>
				{
					if params.contains(&p.base) && !p.steps.is_empty()
					{
						*deep = true;
					}
				}
				Stmt::Call(_, args) =>
				{
					for a in args
					{
						match a
						{
							Arg::Addr(p, _) =>
							{
								*amp = true;
								if params.contains(&p.base)
								{
									*deep = true;
								}
							}
							Arg::View(p) if params.contains(&p.base) => *deep = true,
							_ => (),
						}
					}
				}
				Stmt::Var {
					init: Some(Expr::Call(_, args, _)),
					..
				} =>
				{
					for a in args
					{
						if let Arg::Addr(p, _) = a
						{
							*amp = true;
							if params.contains(&p.base)
							{
								*deep = true;
							}
						}
					}
				}
				Stmt::Block(b) => stmts(prog, b, params, amp, deep),
				Stmt::If(_, t, e) =>
				{
					if let Branch::Block(b) = t
					{
						stmts(prog, b, params, amp, deep);
					}
					if let Some(Branch::Block(b)) = e
					{
						stmts(prog, b, params, amp, deep);
					}
				}
				_ => (),
			}
		}
	}
	let mut amp = false;
	let mut deep = false;
	for f in &prog.funcs
	{
		let params: Vec<String> = f.params.iter().map(|p| p.name.clone()).collect();
		stmts(prog, &f.body, &params, &mut amp, &mut deep);
	}
	(amp, deep)
}

struct Valid;
impl Stream for Valid
{
	fn name(&self) -> String
	{
		"valid-mutation-through-pointers".into()
	}
	fn count(&self, tier: Tier) -> u64
	{
		tier.pick(4000, 60_000)
	}
	fn choice_len(&self) -> usize
	{
		1800
	}
	fn timeout(&self) -> std::time::Duration
	{
		std::time::Duration::from_secs(90)
	}
	fn run(&self, _idx: u64, c: &mut Choices, ctx: &RunCtx) -> CaseOut
	{
		let mut out = CaseOut::default();
		let prog = progen::generate(c, progen::Profile::calls());
		let src = print_program(&prog, Layout::plain(), None);
		out.key = fnv(&src);
		let expected = match interp::Interp::new(&prog).run_main()
		{
			Ok(o) => o,
			Err(interp::Stop::Bug(w)) =>
			{
				out.fail(format!("harness: interpreter bug {}", w.chars().take(40).collect::<String>()), json!({"source": src}));
				return out;
			}
			Err(_) =>
			{
				out.discarded = Some("interpreter: UB or step limit".into());
				return out;
			}
		};
		let (amp, deep) = interesting(&prog);
		out.nontrivial = amp && deep && expected.stats.calls > 1;
		if amp
		{
			out.class("has:&-argument");
		}
		if deep
		{
			out.class("has:write-or-forward-through-parameter");
		}
		for f in &prog.funcs
		{
			for p in &f.params
			{
				out.class(format!(
					"param:{}",
					match &p.ty
					{
						Ty::Prim(_) => "value",
						Ty::Named(i) =>
						{
							if prog.structs[*i].word_bytes.is_some()
							{
								"word-by-value"
							}
							else
							{
								"struct-view"
							}
						}
						Ty::Slice(_) => "array-view",
						Ty::SlicePtr(_) => "slice-pointer",
						Ty::Ptr(inner) => match &**inner
						{
							Ty::Prim(_) => "pointer",
							Ty::Named(_) => "pointer-to-struct",
							Ty::Ptr(_) => "pointer-to-pointer",
							_ => "pointer-other",
						},
						Ty::Array(..) => "array",
					}
				));
			}
		}
		if let Some(obs) = crate::c01::compile_and_run(&src, "valid program", &mut out)
		{
			if obs.stdout != expected.stdout || obs.status != Some(expected.status)
			{
				out.fail(
					"caller-visible state differs from the reference interpreter",
					json!({"source": src, "stdout": String::from_utf8_lossy(&obs.stdout), "expected_stdout": String::from_utf8_lossy(&expected.stdout), "status": obs.status, "expected_status": expected.status}),
				);
			}
		}
		if ctx.want_sample
		{
			out.sample = Some(json!({"source": src}));
		}
		out
	}
}

struct Invalid;
impl Stream for Invalid
{
	fn name(&self) -> String
	{
		"illegal-mutation-and-copies".into()
	}
	fn count(&self, tier: Tier) -> u64
	{
		tier.pick(30_000, 150_000)
	}
	fn choice_len(&self) -> usize
	{
		40
	}
	fn stride(&self) -> u64
	{
		16
	}
	fn run(&self, _idx: u64, c: &mut Choices, ctx: &RunCtx) -> CaseOut
	{
		let mut out = CaseOut::default();
		let ints = ["i8", "i16", "i32", "i64", "i128", "u8", "u16", "u32", "u64", "u128", "usize"];
		let t = *c.pick(&ints);
		let pre = format!(
			"word32 Wd\n{{\n\tlo: i16,\n\thi: i16,\n}}\n\nstruct Inner\n{{\n\tv: {t},\n\tw: Wd,\n}}\n\nstruct Outer\n{{\n\tinner: Inner,\n\titems: [2]{t},\n\tn: {t},\n}}\n\nconst K: {t} = 1;\n\nconst KA: [2]{t} = [1, 2];\n\nfn sink_ptr(p: &{t})\n{{\n\tp = p;\n}}\n\nfn sink_slice(a: &[]{t})\n{{\n\ta[0] = a[0];\n}}\n\nfn sink_struct(s: &Outer)\n{{\n\ts.n = s.n;\n}}\n\nfn sink_inner(s: &Inner)\n{{\n\ts.v = s.v;\n}}\n\nfn idt(v: {t}) -> {t}\n{{\n\treturn: v\n}}\n\n"
		);
		let mk_outer = "Outer { inner: Inner { v: 1, w: Wd { lo: 1, hi: 2 } }, items: [1, 2], n: 3 }";
		// (function text, expected codes)
		let kinds: Vec<(String, &[u16])> = vec![
			(format!("fn bad(v: {t})\n{{\n\tv = 1;\n}}"), &[530]),
			(format!("fn bad(a: []{t})\n{{\n\ta[0] = 1;\n}}"), &[530]),
			("fn bad(s: Outer)\n{\n\ts.n = 1;\n}".to_string(), &[530]),
			("fn bad(s: Outer)\n{\n\ts.inner.v = 1;\n}".to_string(), &[530]),
			("fn bad(s: Outer)\n{\n\ts.inner.w.lo = 1;\n}".to_string(), &[530]),
			("fn bad(s: Inner)\n{\n\ts.w = Wd { lo: 3, hi: 4 };\n}".to_string(), &[530]),
			("fn bad(w: Wd)\n{\n\tw.lo = 1;\n}".to_string(), &[530]),
			("fn bad()\n{\n\tK = 2;\n}".to_string(), &[530]),
			("fn bad()\n{\n\tKA[0] = 2;\n}".to_string(), &[530]),
			(format!("fn bad(v: {t})\n{{\n\tsink_ptr(&v);\n}}"), &[530]),
			// `&` of a view: not a pointer at all (E512) or not mutable (E530)
			(format!("fn bad(a: []{t})\n{{\n\tsink_slice(&a);\n}}"), &[530, 512]),
			("fn bad(s: Outer)\n{\n\tsink_struct(&s);\n}".to_string(), &[530, 512]),
			("fn bad(s: Outer)\n{\n\tsink_inner(&s.inner);\n}".to_string(), &[530]),
			("fn bad(s: Outer)\n{\n\tsink_ptr(&s.n);\n}".to_string(), &[530]),
			("fn bad()\n{\n\tsink_ptr(&K);\n}".to_string(), &[530]),
			(format!("fn bad()\n{{\n\tvar a: [2]{t} = [1, 2];\n\tvar c = a;\n}}"), &[531]),
			(format!("fn bad()\n{{\n\tvar a: [2]{t} = [1, 2];\n\tvar b: [2]{t} = [3, 4];\n\tb = a;\n}}"), &[531]),
			(format!("fn bad(v: []{t})\n{{\n\tvar c = v;\n}}"), &[532]),
			(format!("fn bad()\n{{\n\tvar s = {mk_outer};\n\tvar c = s;\n}}"), &[533]),
			(format!("fn bad()\n{{\n\tvar s = {mk_outer};\n\tvar u = {mk_outer};\n\tu = s;\n}}"), &[533]),
			(format!("fn bad()\n{{\n\tvar s = {mk_outer};\n\tvar c = s.inner;\n}}"), &[533]),
			(format!("fn bad()\n{{\n\tvar x: {t} = 1;\n\tsink_ptr(x);\n}}"), &[513]),
			(format!("fn bad()\n{{\n\tvar a: [2]{t} = [1, 2];\n\tsink_slice(a);\n}}"), &[513]),
			(format!("fn bad()\n{{\n\tvar s = {mk_outer};\n\tsink_struct(s);\n}}"), &[513]),
			(format!("fn bad()\n{{\n\tvar s = {mk_outer};\n\tsink_inner(s.inner);\n}}"), &[513]),
			(format!("fn bad()\n{{\n\tvar s = {mk_outer};\n\tsink_ptr(s.n);\n}}"), &[513]),
			// `&` of an array that cannot be mutated, coerced to a slice pointer
			("fn bad(s: Outer)\n{\n\tsink_slice(&s.items);\n}".to_string(), &[530]),
			("fn bad()\n{\n\tsink_slice(&KA);\n}".to_string(), &[530]),
			(format!("fn bad(a: []{t})\n{{\n\tsink_ptr(&a[0]);\n}}"), &[530, 500, 512]),
			// whole arrays and structures copied into a literal, after / before
			// other members (of which one is a call with arguments)
			(format!("fn bad()\n{{\n\tvar a: [2]{t} = [1, 2];\n\tvar s = Outer {{ inner: Inner {{ v: 1, w: Wd {{ lo: 1, hi: 2 }} }}, items: a, n: 3 }};\n}}"), &[531]),
			(format!("fn bad()\n{{\n\tvar a: [2]{t} = [1, 2];\n\tvar s = Outer {{ n: idt(3), inner: Inner {{ v: idt(1), w: Wd {{ lo: 1, hi: 2 }} }}, items: a }};\n}}"), &[531]),
			(format!("fn bad()\n{{\n\tvar i = Inner {{ v: 1, w: Wd {{ lo: 1, hi: 2 }} }};\n\tvar s = Outer {{ inner: i, items: [1, 2], n: 3 }};\n}}"), &[533]),
			(format!("fn bad()\n{{\n\tvar i = Inner {{ v: 1, w: Wd {{ lo: 1, hi: 2 }} }};\n\tvar s = Outer {{ n: idt(3), inner: i, items: [1, 2] }};\n}}"), &[533]),
			(format!("fn bad()\n{{\n\tvar a: [2]{t} = [1, 2];\n\tvar m: [2][2]{t} = [[idt(1), 2], a];\n}}"), &[531]),
			// an exported C function with a body: its view parameter is as
			// immutable as any other view
			("extern fn bad(a: []u8)\n{\n\ta[0] = 1;\n}".to_string(), &[530]),
			("extern fn bad(a: []u8, n: usize)\n{\n\ta[n] = a[0];\n}".to_string(), &[530]),
			// a constant cannot hold the address of a constant (E360), so that
			// nothing can be written through it either
			(format!("const P: &{t} = &K;\n\nfn bad()\n{{\n\tP = 2;\n}}"), &[360, 530]),
			(format!("const P: &{t} = &K;\n\nfn bad()\n{{\n\tsink_ptr(&P);\n}}"), &[360, 530]),
			// the address of something immutable handed out as the return value
			(format!("fn bad(s: Outer) -> &{t}\n{{\n\treturn: &s.n\n}}"), &[530]),
			(format!("fn bad() -> &{t}\n{{\n\treturn: &K\n}}"), &[530]),
			(format!("fn bad(v: {t}) -> &{t}\n{{\n\treturn: &v\n}}"), &[530]),
			(format!("fn bad(a: []{t}) -> &{t}\n{{\n\treturn: &a[0]\n}}"), &[530, 500, 512]),
		];
		let mut kinds = kinds;
		// constants initialised with whole arrays / structures of other constants
		kinds.push((format!("const KB: [2]{t} = KA;\n\nfn bad()\n{{\n}}"), &[531]));
		kinds.push((format!("const KM: [2][2]{t} = [[1, 2], KA];\n\nfn bad()\n{{\n}}"), &[531]));
		kinds.push((format!("const KO: Outer = {mk_outer};\n\nconst KP: Outer = KO;\n\nfn bad()\n{{\n}}"), &[533]));
		kinds.push((format!("const KI: Inner = Inner {{ v: 1, w: Wd {{ lo: 1, hi: 2 }} }};\n\nconst KP: Outer = Outer {{ inner: KI, items: [1, 2], n: 3 }};\n\nfn bad()\n{{\n}}"), &[533]));
		kinds.push((format!("const KP: Outer = Outer {{ inner: Inner {{ v: 1, w: Wd {{ lo: 1, hi: 2 }} }}, items: KA, n: 3 }};\n\nfn bad()\n{{\n}}"), &[531]));
		// the address of something immutable taken deep inside an expression:
		// every expression position is analysed, whatever surrounds it
		{
			let places: [(&str, &str, &'static [u16]); 4] = [
				(&format!("v: {t}")[..], "v", &[530]),
				("s: Outer", "s.n", &[530]),
				("", "K", &[530]),
				(&format!("a: []{t}")[..], "a[0]", &[530, 500, 512]),
			];
			let (param, place, codes) = places[c.draw(places.len())];
			let e = format!("bump(&{})", place);
			let body = match c.draw(12)
			{
				0 => format!("\tvar z = {e};"),
				1 => format!("\tvar z: {t} = 0;\n\tz = {e};"),
				2 => format!("\tvar z = idt({e});"),
				3 => format!("\tprint!({e}, \"\\n\");"),
				4 => format!("\tprint!(\"a\", idt({e}), \"\\n\");"),
				5 => format!("\tif {e} == 1\n\t{{\n\t}}"),
				6 => format!("\tvar z: [2]{t} = [1, {e}];"),
				7 => format!("\tvar z = Inner {{ v: {e}, w: Wd {{ lo: 1, hi: 2 }} }};"),
				8 => format!("\tvar z: {t} = 1 + (2 * {e});"),
				9 => format!("\tvar z = {e} as u8;"),
				10 => format!("\tvar z = idt(idt({e}) + 1);"),
				_ => format!("\tvar arr: [2]{t} = [1, 2];\n\tvar z = arr[{e} as usize];"),
			};
			kinds.push((format!("fn bump(p: &{t}) -> {t}\n{{\n\tp = p + 1;\n\treturn: p\n}}\n\nfn bad({param})\n{{\n{body}\n}}"), codes));
			// (picked with the weight of several templates)
			for _ in 0..5
			{
				let last = kinds.last().unwrap().clone();
				kinds.push(last);
			}
		}
		let (bad, codes) = c.pick(&kinds).clone();
		// the same statements in other control-flow positions: every analysis
		// pass has to look into every branch of every `if`
		let bad = {
			let context = c.draw(7);
			match (context, bad.find("\n{\n"), bad.rfind("\n}"))
			{
				(1..=6, Some(a), Some(b)) if b > a + 3 && !bad.contains("return:") =>
				{
					let head = &bad[..a + 3];
					let body: String = bad[a + 3..b].lines().map(|l| format!("\t{}\n", l)).collect();
					let wrapped = match context
					{
						1 => format!("\t{{\n{}\t}}\n", body),
						2 => format!("\tif 0i32 == 0\n\t{{\n{}\t}}\n", body),
						3 => format!("\tif 0i32 == 1\n\t{{\n\t}}\n\telse\n\t{{\n{}\t}}\n", body),
						4 => format!("\tif 0i32 == 1\n\t{{\n\t}}\n\telse if 0i32 == 0\n\t{{\n{}\t}}\n", body),
						5 => format!("\tif 0i32 == 1\n\t{{\n\t}}\n\telse if 0i32 == 2\n\t{{\n\t}}\n\telse if 0i32 == 0\n\t{{\n{}\t}}\n\telse\n\t{{\n\t}}\n", body),
						_ => format!("\t{{\n\t\tif 0i32 == 1\n\t\t{{\n\t\t}}\n\t\telse\n\t\t{{\n\t{}\t\t}}\n\t}}\n", body.replace("\n\t", "\n\t\t")),
					};
					out.class(format!("context:{}", ["plain", "block", "then", "else", "else-if", "second else-if", "nested else"][context]));
					format!("{}{}}}", head, wrapped)
				}
				_ =>
				{
					out.class("context:plain");
					bad
				}
			}
		};
		// the same shape must be fine when done through a pointer / with `&`
		let good = format!(
			"fn good(p: &{t}, a: &[]{t}, s: &Outer)\n{{\n\tp = 1;\n\ta[0] = 1;\n\ts.n = 1;\n\ts.inner.v = 1;\n\ts.inner.w.lo = 1;\n\tsink_ptr(&p);\n\tsink_slice(&a);\n\tsink_struct(&s);\n}}\n\nfn main() -> i32\n{{\n\tvar x: {t} = 1;\n\tvar arr: [2]{t} = [1, 2];\n\tvar s = {mk_outer};\n\tgood(&x, &arr, &s);\n\treturn: 0\n}}"
		);
		let order_first = c.flag();
		let src = if order_first
		{
			format!("{pre}{bad}\n\n{good}\n")
		}
		else
		{
			format!("{pre}{good}\n\n{bad}\n")
		};
		out.key = fnv(&src);
		out.nontrivial = true;
		out.class(format!("expected:E{}", codes[0]));
		let o = alpha::analyze_one(&src);
		let detail = json!({"source": src, "bad_function": bad, "result": o.summary()});
		if let Some(e) = &o.internal_error
		{
			out.fail(format!("internal error {}", e.chars().take(50).collect::<String>()), detail);
		}
		else if o.ok
		{
			let head: String = bad.replace(t, "T").split_whitespace().collect::<Vec<_>>().join(" ").chars().take(60).collect();
			out.fail(format!("illegal mutation or copy accepted (expected E{}): {}", codes[0], head), detail);
		}
		else if !o.codes.iter().any(|x| codes.contains(x))
		{
			let head: String = bad.replace(t, "T").split_whitespace().collect::<Vec<_>>().join(" ").chars().take(60).collect();
			out.fail(format!("rejected with {:?} instead of E{}: {}", o.codes, codes[0], head), detail);
		}
		else if o.codes.iter().any(|x| !codes.contains(x))
		{
			// the valid half must not be blamed
			let extra: Vec<&u16> = o.codes.iter().filter(|x| !codes.contains(x)).collect();
			out.class(format!("note:extra-codes:{:?}", extra));
		}
		if ctx.want_sample
		{
			out.sample = Some(json!({"bad_function": bad, "expected_code": codes[0]}));
		}
		out
	}
}

/// the valid half of the template alone must be accepted and run
struct Control;
impl Stream for Control
{
	fn name(&self) -> String
	{
		"control-valid-template".into()
	}
	fn count(&self, _tier: Tier) -> u64
	{
		11
	}
	fn exhaustive(&self) -> bool
	{
		true
	}
	fn run(&self, idx: u64, _c: &mut Choices, ctx: &RunCtx) -> CaseOut
	{
		let mut out = CaseOut::default();
		let ints = ["i8", "i16", "i32", "i64", "i128", "u8", "u16", "u32", "u64", "u128", "usize"];
		let t = ints[idx as usize];
		let src = format!(
			"word32 Wd\n{{\n\tlo: i16,\n\thi: i16,\n}}\n\nstruct Inner\n{{\n\tv: {t},\n\tw: Wd,\n}}\n\nstruct Outer\n{{\n\tinner: Inner,\n\titems: [2]{t},\n\tn: {t},\n}}\n\nfn sink_ptr(p: &{t})\n{{\n\tp = p + 1;\n}}\n\nfn sink_slice(a: &[]{t})\n{{\n\ta[0] = a[0] + 1;\n}}\n\nfn sink_struct(s: &Outer)\n{{\n\ts.n = s.n + 1;\n}}\n\nfn reader(v: {t}, a: []{t}, s: Outer, w: Wd) -> {t}\n{{\n\treturn: v + a[0] + s.n + s.inner.v\n}}\n\nfn good(p: &{t}, a: &[]{t}, s: &Outer)\n{{\n\tp = 5;\n\ta[0] = 6;\n\ts.n = 7;\n\ts.inner.v = 8;\n\ts.inner.w.lo = 9;\n\tsink_ptr(&p);\n\tsink_slice(&a);\n\tsink_struct(&s);\n}}\n\nfn main() -> i32\n{{\n\tvar x: {t} = 1;\n\tvar y: {t} = 2;\n\tvar arr: [2]{t} = [1, 2];\n\tvar s = Outer {{ inner: Inner {{ v: 1, w: Wd {{ lo: 1, hi: 2 }} }}, items: [1, 2], n: 3 }};\n\tvar r = reader(x, arr, s, s.inner.w);\n\tprint!(x, \" \", y, \" \", arr[0], \" \", arr[1], \" \", s.n, \" \", s.inner.v, \" \", s.inner.w.lo, \" \", r, \"\\n\");\n\tgood(&x, &arr, &s);\n\tvar r2 = reader(x, arr, s, s.inner.w);\n\tprint!(x, \" \", y, \" \", arr[0], \" \", arr[1], \" \", s.n, \" \", s.inner.v, \" \", s.inner.w.lo, \" \", r2, \"\\n\");\n\treturn: 0\n}}\n"
		);
		out.key = idx;
		out.nontrivial = true;
		let want = "1 2 1 2 3 1 1 6\n6 2 7 2 8 8 9 29\n";
		if let Some(obs) = crate::c01::compile_and_run(&src, "control", &mut out)
		{
			if String::from_utf8_lossy(&obs.stdout) != want
			{
				out.fail(
					"mutation through explicit pointers has the wrong effect",
					json!({"source": src, "stdout": String::from_utf8_lossy(&obs.stdout), "expected_stdout": want}),
				);
			}
		}
		if ctx.want_sample
		{
			out.sample = Some(json!({"source": src}));
		}
		out
	}
}

impl Check for C08
{
	fn id(&self) -> &'static str
	{
		"C08"
	}
	fn rule(&self) -> String
	{
		"(a) generated call-heavy programs (functions with value, word-by-value, array-view, struct-view, slice-pointer, pointer, pointer-to-struct and pointer-to-pointer parameters; callees read, write through reference chains and forward parameters to other callees; the final state of every visible primitive is printed), compiled, run and compared with the reference interpreter, in which views and by-value parameters are immutable and only `&` arguments alias caller storage; (b) 47 illegal shapes plus `bump(&place)` for an immutable place (value parameter, view member, constant, view element) in twelve expression positions (initialiser, assignment, nested call argument, print! argument, condition, array / structure literal member, operand, cast, index), each in one of seven control-flow positions (function body, nested block, then / else / else-if / later else-if arm, nested else), (writes through value / view / word / constant in 1-3 reference steps, `&` of an immutable parameter or constant, whole-array / view / struct copies by initialisation and assignment, pointer parameters given a bare variable / member, `&` of an array member of a structure view / of a constant array coerced to a slice pointer, whole arrays / structures copied into structure and array literals next to call members, writes through the view parameter of an `extern fn` with a body, writes through a constant holding the address of a constant, constants initialised with whole arrays / structures of other constants, the address of a view member / constant / value parameter as return value) over 11 integer types, each next to a valid function doing the same through pointers; (c) a fixed control program per integer type with a hand-computed expected output. Oracle: (a) stdout and exit status equal the interpreter's, so caller variables change exactly where the call site wrote `&`; (b) rejected with E530 / E531 / E532 / E533 / E513; (c) exact output. Non-trivial (a): a call with an `&` argument and a callee that writes through or forwards a parameter; distinct by source.".into()
	}
	fn assumptions(&self) -> Vec<String>
	{
		vec![
			"reference interpreter semantics of views (read-only aliases) and pointers (mutable aliases) per README".into(),
			"assignments whose place ends in an element step after a member step are not generated (recorded defect, see DESIGN.md)".into(),
		]
	}
	fn streams(&self) -> Vec<Box<dyn Stream>>
	{
		vec![Box::new(Valid), Box::new(Invalid), Box::new(Control)]
	}
}
