//! C06 — loop and if-branches only appear where the language allows them.

use crate::alpha;
use crate::choices::{fnv, Choices};
use crate::engine::*;
use crate::treegen::{self, Counter, Grammar, Node};
use serde_json::json;

pub struct C06;

const ASSIGN: usize = 0;
const GOTO: usize = 1;
const LOOP: usize = 2;
const LABEL: usize = 3;
const NATOMS: usize = 4;
/// random trees only: an assignment to the parameter (E530 where it is analysed)
const BADASSIGN: usize = 4;

#[derive(Default)]
struct Expect
{
	codes: Vec<u16>,
	lints: Vec<u16>,
	nontrivial: bool,
}

#[derive(Clone, Copy, PartialEq)]
enum Place
{
	FunctionBody,
	LastInBlock,
	NotLastInBlock,
}

/// Reference predicate, written from docs/errors.md E800/E801/E840/L1800 and
/// docs/features.md ("loop can only appear as the last statement in a block").
fn check_seq(seq: &[Node], in_block: bool, e: &mut Expect)
{
	for (i, st) in seq.iter().enumerate()
	{
		let place = if !in_block
		{
			Place::FunctionBody
		}
		else if i + 1 == seq.len()
		{
			Place::LastInBlock
		}
		else
		{
			Place::NotLastInBlock
		};
		check_stmt(st, place, e);
	}
}

fn check_stmt(st: &Node, place: Place, e: &mut Expect)
{
	match st
	{
		Node::Atom(LOOP) =>
		{
			e.nontrivial = true;
			match place
			{
				Place::LastInBlock => (),
				Place::NotLastInBlock => e.codes.push(800),
				Place::FunctionBody => e.codes.push(801),
			}
		}
		// another analysis pass rejects this one; as a naked branch it is E840
		// and nothing else (see check_branch)
		Node::Atom(BADASSIGN) => e.codes.push(530),
		Node::Atom(_) => (),
		Node::Block(b) => check_seq(b, true, e),
		Node::If(br) => check_branch(br, false, e),
		Node::IfElse(a, b) =>
		{
			check_branch(a, false, e);
			check_branch(b, true, e);
		}
	}
}

fn check_branch(br: &Node, is_else: bool, e: &mut Expect)
{
	match br
	{
		Node::Atom(GOTO) => (),
		Node::Block(b) =>
		{
			if let Some(Node::Atom(LOOP)) = b.first()
			{
				e.lints.push(1800);
			}
			check_seq(b, true, e);
		}
		Node::If(_) | Node::IfElse(_, _) if is_else =>
		{
			e.nontrivial = true;
			// `else if`: an ordinary if statement, not in a block of its own
			check_stmt(br, Place::FunctionBody, e);
		}
		_ =>
		{
			// anything else needs braces; its inside is not analysed further
			e.nontrivial = true;
			e.codes.push(840);
		}
	}
}

fn render(body: &[Node]) -> String
{
	let mut s = String::from("fn f(p: i32)\n{\n\tvar x: i32 = 0;\n");
	let counter = std::cell::Cell::new(0usize);
	let at = |k: usize| match k
	{
		ASSIGN => "x = x + 1;".to_string(),
		GOTO => "goto end;".to_string(),
		LOOP => "loop;".to_string(),
		BADASSIGN => "p = 1;".to_string(),
		_ =>
		{
			let n = counter.get();
			counter.set(n + 1);
			format!("l{}:", n)
		}
	};
	treegen::print_seq(body, 1, &at, &mut s);
	s.push_str("\tend:\n}\n");
	s
}

/// `if c <a> else <b>` cannot be written when <a> ends in an if without else:
/// the `else` would bind to that inner if (dangling else).
fn ends_open(n: &Node) -> bool
{
	match n
	{
		Node::If(_) => true,
		Node::IfElse(_, y) => !matches!(**y, Node::Block(_)) && ends_open(y),
		_ => false,
	}
}

fn expressible(seq: &[Node]) -> bool
{
	seq.iter().all(|n| match n
	{
		Node::Atom(_) => true,
		Node::Block(b) => expressible(b),
		Node::If(b) => expressible(std::slice::from_ref(b)),
		Node::IfElse(a, b) =>
		{
			!ends_open(a)
				&& expressible(std::slice::from_ref(a))
				&& expressible(std::slice::from_ref(b))
		}
	})
}

fn judge(body: &[Node], ctx: &RunCtx, out: &mut CaseOut)
{
	if !expressible(body)
	{
		out.discarded = Some("tree has no concrete syntax (dangling else)".into());
		return;
	}
	let mut e = Expect::default();
	// the generated statements sit directly in the function body
	check_seq(body, false, &mut e);
	e.codes.sort();
	let src = render(body);
	let o = alpha::analyze_one(&src);
	let mut actual = o.codes.clone();
	actual.sort();
	let mut lints = o.lint_codes();
	lints.sort();
	out.nontrivial = e.nontrivial;
	out.key = fnv(&src);
	out.class(if e.codes.is_empty() { "expected:accept" } else { "expected:reject" });
	if !e.lints.is_empty() && e.codes.is_empty()
	{
		out.class("expected:L1800");
	}
	let detail = json!({"source": src, "expected_codes": e.codes, "expected_lints": e.lints, "actual": o.summary()});
	let dd = |v: &[u16]| {
		let mut d = v.to_vec();
		d.dedup();
		d
	};
	if let Some(err) = &o.internal_error
	{
		out.fail(format!("internal error: {}", err.chars().take(60).collect::<String>()), detail);
	}
	else if e.codes.is_empty() && !o.ok
	{
		out.fail(format!("legal placement rejected: {:?}", dd(&actual)), detail);
	}
	else if !e.codes.is_empty() && o.ok
	{
		out.fail(format!("illegal placement accepted (expected {:?})", dd(&e.codes)), detail);
	}
	else if actual != e.codes
	{
		out.fail(
			format!("wrong diagnostics: expected {:?} got {:?}", dd(&e.codes), dd(&actual)),
			detail,
		);
	}
	else if o.ok && lints != e.lints
	{
		out.fail(
			format!("wrong lints: expected {:?} got {:?}", dd(&e.lints), dd(&lints)),
			detail,
		);
	}
	if ctx.want_sample
	{
		out.sample = Some(json!({"source": src, "expected_codes": e.codes, "expected_lints": e.lints}));
	}
}

fn grammar() -> Grammar
{
	Grammar {
		atoms: NATOMS,
		naked_branches: true,
	}
}

/// one body of the exhaustive enumeration (quick bound), drawn at random (used by C02)
pub fn enumerated_source(c: &mut Choices) -> String
{
	thread_local! {
		static CNT: std::cell::RefCell<Option<Counter>> = std::cell::RefCell::new(None);
	}
	let r = c.u64();
	let body = CNT.with(|k| {
		let mut k = k.borrow_mut();
		if k.is_none()
		{
			*k = Some(Exhaustive::counter(Tier::Quick));
		}
		let k = k.as_ref().unwrap();
		k.unrank(((r as u128 * k.total() as u128) >> 64) as u64)
	});
	render(&body)
}

struct Exhaustive;
impl Exhaustive
{
	fn counter(tier: Tier) -> Counter
	{
		Counter::new(grammar(), tier.pick(6, 7) as usize, tier.pick(4, 5) as usize)
	}
}
impl Stream for Exhaustive
{
	fn name(&self) -> String
	{
		"exhaustive-trees".into()
	}
	fn count(&self, tier: Tier) -> u64
	{
		Self::counter(tier).total()
	}
	fn exhaustive(&self) -> bool
	{
		true
	}
	fn stride(&self) -> u64
	{
		512
	}
	fn run(&self, idx: u64, _c: &mut Choices, ctx: &RunCtx) -> CaseOut
	{
		thread_local! {
			static CNT: std::cell::RefCell<Option<(Tier, Counter)>> = std::cell::RefCell::new(None);
		}
		let mut out = CaseOut::default();
		let body = CNT.with(|c| {
			let mut c = c.borrow_mut();
			if c.as_ref().map(|(t, _)| *t != ctx.tier).unwrap_or(true)
			{
				*c = Some((ctx.tier, Self::counter(ctx.tier)));
			}
			c.as_ref().unwrap().1.unrank(idx)
		});
		judge(&body, ctx, &mut out);
		out.key = idx;
		out
	}
}

/// the source of one random statement tree (also compiled to IR by C02)
pub fn random_source(c: &mut Choices) -> String
{
	let mut budget = 40;
	let body = treegen::random_seq(c, grammar(), &mut budget, 6, 10);
	render(&body)
}

struct RandomTrees;
impl Stream for RandomTrees
{
	fn name(&self) -> String
	{
		"random-trees".into()
	}
	fn count(&self, tier: Tier) -> u64
	{
		tier.pick(150_000, 600_000)
	}
	fn choice_len(&self) -> usize
	{
		200
	}
	fn stride(&self) -> u64
	{
		64
	}
	fn run(&self, _idx: u64, c: &mut Choices, ctx: &RunCtx) -> CaseOut
	{
		let mut out = CaseOut::default();
		let mut budget = 40;
		let g = Grammar {
			atoms: NATOMS + 1,
			naked_branches: true,
		};
		let body = treegen::random_seq(c, g, &mut budget, 6, 10);
		judge(&body, ctx, &mut out);
		out.class(format!("depth:{}", treegen::depth(&body).min(7)));
		out
	}
}

impl Check for C06
{
	fn id(&self) -> &'static str
	{
		"C06"
	}
	fn rule(&self) -> String
	{
		"statement trees over {assignment, goto, loop, label, block, if <branch>, if <branch> else <branch>} where a branch may be ANY statement (naked branches, else-if chains): (a) every tree of <= 6 (quick) / <= 7 (thorough) nodes and nesting <= 4 / <= 5 (exhaustive); (b) random trees of up to 40 nodes, depth 6, which also contain a statement that a later analysis pass rejects (`p = 1;` for the parameter, E530): braced it is E530, as a brace-less branch it is E840 and nothing else. Oracle: a recursive reference predicate for loop/branch placement gives the exact multiset of E800/E801/E840 and, for accepted programs, of L1800; verdict, sorted Errors::codes() and Compiler::take_lints() codes must equal it. Non-trivial: the tree contains `loop` or a non-block branch; distinct by tree.".into()
	}
	fn assumptions(&self) -> Vec<String>
	{
		vec![
			"reference predicate (harness/src/c06.rs) restates docs/errors.md E800, E801, E840, L1800; the inside of a statement rejected with E840 is not analysed further".into(),
			"trees are wrapped in `fn f(p: i32) { var x: i32 = 0; ... end: }` so nothing else can be rejected".into(),
		]
	}
	fn streams(&self) -> Vec<Box<dyn Stream>>
	{
		vec![Box::new(Exhaustive), Box::new(RandomTrees)]
	}
}
