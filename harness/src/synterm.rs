//! Canonical syntax terms (DESIGN.md appendix A): one S-expression language,
//! produced from the first-generation AST and from the second-generation XML
//! dump, so that the two parse trees can be compared.

use crate::reflex;
use penne::alpha::common as a;

#[derive(Debug, Clone, PartialEq)]
pub enum T
{
	A(String),
	L(Vec<T>),
}

impl std::fmt::Display for T
{
	fn fmt(&self, f: &mut std::fmt::Formatter<'_>) -> std::fmt::Result
	{
		match self
		{
			T::A(s) => write!(f, "{}", s),
			T::L(v) =>
			{
				write!(f, "(")?;
				for (i, t) in v.iter().enumerate()
				{
					if i > 0
					{
						write!(f, " ")?;
					}
					write!(f, "{}", t)?;
				}
				write!(f, ")")
			}
		}
	}
}

fn atom(s: impl Into<String>) -> T
{
	T::A(s.into())
}
fn list(head: &str, rest: Vec<T>) -> T
{
	let mut v = vec![atom(head)];
	v.extend(rest);
	T::L(v)
}

pub fn kinds(t: &T, out: &mut std::collections::BTreeSet<String>)
{
	if let T::L(v) = t
	{
		if let Some(T::A(h)) = v.first()
		{
			out.insert(h.clone());
		}
		for x in v
		{
			kinds(x, out);
		}
	}
}

// ------------------------------------------------------------ first generation

fn flags_alpha(f: &enumset::EnumSet<a::DeclarationFlag>) -> T
{
	atom(f.iter().map(|x| format!("{:?}", x)).collect::<Vec<_>>().join("|"))
}

fn ty_alpha(t: &a::ValueType) -> T
{
	use penne::alpha::value_type::ValueType as V;
	match t
	{
		V::Array {
			element_type,
			length,
		} => list("array", vec![atom(length.to_string()), ty_alpha(element_type)]),
		V::ArrayWithNamedLength {
			element_type,
			named_length,
		} => list("arrayn", vec![atom(named_length.name.clone()), ty_alpha(element_type)]),
		V::Slice { element_type } => list("slice", vec![ty_alpha(element_type)]),
		V::SlicePointer { element_type } => list("sliceptr", vec![ty_alpha(element_type)]),
		V::EndlessArray { element_type } => list("endless", vec![ty_alpha(element_type)]),
		V::Arraylike { element_type } => list("arraylike", vec![ty_alpha(element_type)]),
		V::Pointer { deref_type } => list("ptr", vec![ty_alpha(deref_type)]),
		V::View { deref_type } => list("view", vec![ty_alpha(deref_type)]),
		V::UnresolvedStructOrWord { identifier } => list(
			"named",
			vec![atom(identifier.as_ref().map(|i| i.name.clone()).unwrap_or("?".into()))],
		),
		V::Struct { identifier } => list("named", vec![atom(identifier.name.clone())]),
		V::Word { identifier, .. } => list("named", vec![atom(identifier.name.clone())]),
		other => list("prim", vec![atom(format!("{:?}", other))]),
	}
}

fn pty_alpha(t: &a::Poisonable<a::ValueType>) -> T
{
	match t
	{
		Ok(t) => ty_alpha(t),
		Err(_) => atom("<poison>"),
	}
}

fn int_term(value: i128, negative_big: Option<u128>, suffix: Option<String>) -> T
{
	let v = match negative_big
	{
		Some(u) => u.to_string(),
		None => value.to_string(),
	};
	match suffix
	{
		Some(s) => list("int", vec![atom(v), atom(s)]),
		None => list("int", vec![atom(v)]),
	}
}

fn suffix_alpha(t: &Option<a::Poisonable<a::ValueType>>) -> Option<String>
{
	match t
	{
		Some(Ok(t)) => Some(format!("{:?}", t)),
		_ => None,
	}
}

fn reference_alpha(r: &a::Reference) -> T
{
	let base = match &r.base
	{
		Ok(b) => b.name.clone(),
		Err(_) => "<poison>".into(),
	};
	let mut steps = Vec::new();
	for s in &r.steps
	{
		match s
		{
			a::ReferenceStep::Element { argument, .. } => steps.push(list("elem", vec![expr_alpha(argument)])),
			a::ReferenceStep::Member { member, .. } => steps.push(list("member", vec![atom(member.name.clone())])),
			_ => (),
		}
	}
	list("deref", vec![atom(r.address_depth.to_string()), atom(base), T::L(steps)])
}

fn call_name(name: &str, builtin: bool) -> (String, bool)
{
	let bang = name.ends_with('!');
	(name.trim_end_matches('!').to_string(), builtin || bang)
}

pub fn expr_alpha(e: &a::Expression) -> T
{
	use a::Expression as E;
	match e
	{
		E::Binary {
			op, left, right, ..
		} => list("bin", vec![atom(format!("{:?}", op)), expr_alpha(left), expr_alpha(right)]),
		E::Unary { op, expression, .. } => list("un", vec![atom(format!("{:?}", op)), expr_alpha(expression)]),
		E::BooleanLiteral { value, .. } => list("bool", vec![atom(value.to_string())]),
		E::SignedIntegerLiteral {
			value, value_type, ..
		} => int_term(*value, None, suffix_alpha(value_type)),
		E::BitIntegerLiteral {
			value, value_type, ..
		} =>
		{
			if let Some(Ok(penne::alpha::value_type::ValueType::Char8)) = value_type
			{
				list("char", vec![atom(value.to_string())])
			}
			else
			{
				int_term(0, Some(*value), suffix_alpha(value_type))
			}
		}
		E::StringLiteral { bytes, .. } => list("str", vec![atom(reflex::hex(bytes))]),
		E::ArrayLiteral { array, .. } => list("array", array.elements.iter().map(expr_alpha).collect()),
		E::Structural {
			members,
			structural_type,
			..
		} =>
		{
			let name = match structural_type
			{
				Ok(t) => match ty_alpha(t)
				{
					T::L(v) => v.get(1).cloned().unwrap_or(atom("?")),
					x => x,
				},
				Err(_) => atom("<poison>"),
			};
			let fields = members
				.iter()
				.map(|m| {
					T::L(vec![
						atom(m.name.as_ref().map(|n| n.name.clone()).unwrap_or("<poison>".into())),
						expr_alpha(&m.expression),
					])
				})
				.collect();
			list("structural", vec![name, T::L(fields)])
		}
		E::Parenthesized { inner, .. } => list("paren", vec![expr_alpha(inner)]),
		E::Deref { reference, .. } => reference_alpha(reference),
		E::Autocoerce { expression, .. } => expr_alpha(expression),
		E::BitCast { expression, .. } => list("bitcast", vec![expr_alpha(expression)]),
		E::TypeCast {
			expression,
			coerced_type,
			..
		} => list("as", vec![expr_alpha(expression), ty_alpha(coerced_type)]),
		E::LengthOfArray { reference, .. } => list("len", vec![reference_alpha(reference)]),
		E::SizeOf { queried_type, .. } => list("sizeof", vec![ty_alpha(queried_type)]),
		E::FunctionCall {
			name,
			builtin,
			arguments,
			..
		} =>
		{
			let (n, b) = call_name(&name.name, builtin.is_some());
			list("call", vec![atom(n), atom(b.to_string()), T::L(arguments.iter().map(expr_alpha).collect())])
		}
		E::Poison(_) => atom("<poison>"),
	}
}

pub fn stmt_alpha(s: &a::Statement) -> T
{
	use a::Statement as S;
	match s
	{
		S::Declaration {
			name,
			value,
			value_type,
			..
		} => list(
			"var",
			vec![
				atom(name.name.clone()),
				value_type.as_ref().map(pty_alpha).unwrap_or(atom("-")),
				value.as_ref().map(expr_alpha).unwrap_or(atom("-")),
			],
		),
		S::Assignment {
			reference, value, ..
		} => list("assign", vec![reference_alpha(reference), expr_alpha(value)]),
		S::MethodCall {
			name,
			builtin,
			arguments,
		} =>
		{
			let (n, b) = call_name(&name.name, builtin.is_some());
			list("call", vec![atom(n), atom(b.to_string()), T::L(arguments.iter().map(expr_alpha).collect())])
		}
		S::Loop { .. } => list("loop", vec![]),
		S::Goto { label, .. } => list("goto", vec![atom(label.name.clone())]),
		S::Label { label, .. } => list("label", vec![atom(label.name.clone())]),
		S::If {
			condition,
			then_branch,
			else_branch,
			..
		} =>
		{
			let cmp = list(
				"cmp",
				vec![
					atom(format!("{:?}", condition.op)),
					expr_alpha(&condition.left),
					expr_alpha(&condition.right),
				],
			);
			let mut v = vec![cmp, stmt_alpha(then_branch)];
			if let Some(e) = else_branch
			{
				v.push(stmt_alpha(&e.branch));
			}
			list("if", v)
		}
		S::Block(b) => list("block", b.statements.iter().map(stmt_alpha).collect()),
		S::Poison(_) => atom("<poison>"),
	}
}

pub fn decl_alpha(d: &a::Declaration) -> T
{
	use a::Declaration as D;
	match d
	{
		D::Constant {
			name,
			value,
			value_type,
			flags,
			..
		} => list("const", vec![atom(name.name.clone()), flags_alpha(flags), pty_alpha(value_type), expr_alpha(value)]),
		D::Function {
			name,
			parameters,
			body,
			return_type,
			flags,
			..
		} =>
		{
			let params = parameters
				.iter()
				.map(|p| {
					T::L(vec![
						atom(p.name.as_ref().map(|n| n.name.clone()).unwrap_or("<poison>".into())),
						pty_alpha(&p.value_type),
					])
				})
				.collect();
			let body = match body
			{
				Ok(b) =>
				{
					let mut stmts: Vec<T> = b.statements.iter().map(stmt_alpha).collect();
					// the first generation keeps `return:` as a trailing label
					if b.return_value.is_some()
					{
						if let Some(T::L(v)) = stmts.last()
						{
							if v.first() == Some(&atom("label")) && v.get(1) == Some(&atom("return"))
							{
								stmts.pop();
							}
						}
					}
					list(
						"body",
						vec![T::L(stmts), b.return_value.as_ref().map(expr_alpha).unwrap_or(atom("-"))],
					)
				}
				Err(_) => atom("<poison>"),
			};
			list("fn", vec![atom(name.name.clone()), flags_alpha(flags), T::L(params), pty_alpha(return_type), body])
		}
		D::FunctionHead {
			name,
			parameters,
			return_type,
			flags,
			..
		} =>
		{
			let params = parameters
				.iter()
				.map(|p| {
					T::L(vec![
						atom(p.name.as_ref().map(|n| n.name.clone()).unwrap_or("<poison>".into())),
						pty_alpha(&p.value_type),
					])
				})
				.collect();
			list("fn", vec![atom(name.name.clone()), flags_alpha(flags), T::L(params), pty_alpha(return_type), atom("-")])
		}
		D::Structure {
			name,
			members,
			structural_type,
			flags,
			..
		} =>
		{
			let size = match structural_type
			{
				Ok(penne::alpha::value_type::ValueType::Word { size_in_bytes, .. }) => size_in_bytes.to_string(),
				_ => "-1".to_string(),
			};
			let ms = members
				.iter()
				.map(|m| {
					T::L(vec![
						atom(m.name.as_ref().map(|n| n.name.clone()).unwrap_or("<poison>".into())),
						pty_alpha(&m.value_type),
					])
				})
				.collect();
			list("struct", vec![atom(name.name.clone()), flags_alpha(flags), atom(size), T::L(ms)])
		}
		D::Import { filename, .. } => list("import", vec![atom(reflex::hex(filename.as_bytes()))]),
		D::Poison(_) => atom("<poison>"),
	}
}

pub fn module_alpha(decls: &[a::Declaration]) -> T
{
	T::L(decls.iter().map(decl_alpha).collect())
}

// ----------------------------------------------------------- second generation

#[derive(Debug, Clone)]
pub struct El
{
	pub tag: String,
	pub attrs: Vec<(String, String)>,
	pub children: Vec<El>,
	/// raw text line (inside CompositeStringLiteral)
	pub text: Option<String>,
}

impl El
{
	fn attr(&self, k: &str) -> Option<&str>
	{
		self.attrs.iter().find(|(a, _)| a == k).map(|(_, v)| v.as_str())
	}
}

/// parse a Rust-Debug-quoted string starting at `s[0] == '"'`; returns
/// (unescaped, rest)
fn parse_debug_string(s: &str) -> Result<(String, &str), String>
{
	let mut out = String::new();
	let mut chars = s.char_indices();
	match chars.next()
	{
		Some((_, '"')) => (),
		_ => return Err("expected opening quote".into()),
	}
	while let Some((i, c)) = chars.next()
	{
		match c
		{
			'"' => return Ok((out, &s[i + 1..])),
			'\\' => match chars.next()
			{
				Some((_, 'n')) => out.push('\n'),
				Some((_, 'r')) => out.push('\r'),
				Some((_, 't')) => out.push('\t'),
				Some((_, '0')) => out.push('\0'),
				Some((_, '\\')) => out.push('\\'),
				Some((_, '"')) => out.push('"'),
				Some((_, '\'')) => out.push('\''),
				Some((_, 'u')) =>
				{
					// \u{...}
					let mut hex = String::new();
					match chars.next()
					{
						Some((_, '{')) => (),
						_ => return Err("bad unicode escape".into()),
					}
					loop
					{
						match chars.next()
						{
							Some((_, '}')) => break,
							Some((_, h)) => hex.push(h),
							None => return Err("bad unicode escape".into()),
						}
					}
					let v = u32::from_str_radix(&hex, 16).map_err(|e| e.to_string())?;
					out.push(char::from_u32(v).ok_or("bad scalar")?);
				}
				other => return Err(format!("unknown escape {:?}", other)),
			},
			c => out.push(c),
		}
	}
	Err("unterminated string".into())
}

fn parse_tag(line: &str) -> Result<(String, Vec<(String, String)>, bool), String>
{
	// <Tag a="..." b="..." [/]>
	let inner = line.strip_prefix('<').ok_or("no <")?;
	let mut name = String::new();
	let mut rest = inner;
	for (i, c) in inner.char_indices()
	{
		if c.is_alphanumeric()
		{
			name.push(c);
		}
		else
		{
			rest = &inner[i..];
			break;
		}
	}
	let mut attrs = Vec::new();
	loop
	{
		let r = rest.trim_start();
		if r == ">"
		{
			return Ok((name, attrs, false));
		}
		if r == "/>"
		{
			return Ok((name, attrs, true));
		}
		// key="value"
		let eq = r.find('=').ok_or_else(|| format!("no '=' in {:?}", r))?;
		let key = r[..eq].trim().to_string();
		let (val, after) = parse_debug_string(&r[eq + 1..])?;
		attrs.push((key, val));
		rest = after;
	}
}

/// Strict reader: every open tag is closed by the same name, `<.. />` is a
/// leaf, nothing is MALFORMED.
pub fn read_xml(lines: &[String]) -> Result<Vec<El>, String>
{
	let mut stack: Vec<El> = vec![El {
		tag: "ROOT".into(),
		attrs: vec![],
		children: vec![],
		text: None,
	}];
	for (n, line) in lines.iter().enumerate()
	{
		let l = line.as_str();
		if l.starts_with("<MALFORMED")
		{
			return Err(format!("line {}: {}", n + 1, l));
		}
		if let Some(name) = l.strip_prefix("</")
		{
			let name = name.strip_suffix('>').ok_or_else(|| format!("line {}: bad close tag", n + 1))?;
			let top = stack.pop().ok_or("stack underflow")?;
			if top.tag != name
			{
				return Err(format!("line {}: <{}> closed by </{}>", n + 1, top.tag, name));
			}
			if stack.is_empty()
			{
				return Err(format!("line {}: unbalanced close tag </{}>", n + 1, name));
			}
			stack.last_mut().unwrap().children.push(top);
		}
		else if l.starts_with('<')
		{
			let (tag, attrs, leaf) = parse_tag(l).map_err(|e| format!("line {}: {} in {:?}", n + 1, e, l))?;
			let el = El {
				tag,
				attrs,
				children: vec![],
				text: None,
			};
			if leaf
			{
				stack.last_mut().unwrap().children.push(el);
			}
			else
			{
				stack.push(el);
			}
		}
		else if l.starts_with('"')
		{
			// raw text line of a CompositeStringLiteral
			let (text, rest) = parse_debug_string(l).map_err(|e| format!("line {}: {}", n + 1, e))?;
			if !rest.is_empty()
			{
				return Err(format!("line {}: trailing text", n + 1));
			}
			stack.last_mut().unwrap().children.push(El {
				tag: "#text".into(),
				attrs: vec![],
				children: vec![],
				text: Some(text),
			});
		}
		else
		{
			return Err(format!("line {}: unexpected line {:?}", n + 1, l));
		}
	}
	if stack.len() != 1
	{
		return Err(format!("unclosed element <{}>", stack.last().unwrap().tag));
	}
	Ok(stack.pop().unwrap().children)
}

fn list_children<'a>(e: &'a El, meta: &str) -> Result<&'a [El], String>
{
	for c in &e.children
	{
		if c.tag == "List" && c.attr("meta") == Some(meta)
		{
			return Ok(&c.children);
		}
	}
	Err(format!("<{}> lacks its {} list", e.tag, meta))
}

fn is_type_tag(t: &str) -> bool
{
	t.ends_with("VT") || t.ends_with("ValueType")
}

fn ty_delta(e: &El) -> Result<T, String>
{
	let one = |e: &El| -> Result<T, String> {
		let c = e.children.first().ok_or_else(|| format!("<{}> lacks its inner type", e.tag))?;
		ty_delta(c)
	};
	Ok(match e.tag.as_str()
	{
		"SimpleValueType" => list("prim", vec![atom(e.attr("type").ok_or("no type")?.to_string())]),
		"CompositeValueType" => one(e)?,
		"ArrayVT" => list("array", vec![atom(e.attr("length").ok_or("no length")?.to_string()), one(e)?]),
		"ArrayWithNamedLengthVT" => list("arrayn", vec![atom(e.attr("identifier").ok_or("no identifier")?.to_string()), one(e)?]),
		"SliceVT" => list("slice", vec![one(e)?]),
		"EndlessArrayVT" => list("endless", vec![one(e)?]),
		"ArraylikeVT" => list("arraylike", vec![one(e)?]),
		"PointerVT" => list("ptr", vec![one(e)?]),
		"ViewVT" => list("view", vec![one(e)?]),
		"UnresolvedStructOrWordVT" => list("named", vec![atom(e.attr("src").ok_or("no src")?.to_string())]),
		other => return Err(format!("not a type: <{}>", other)),
	})
}

/// The dump prints a simple string literal's source with ALL surrounding
/// quote characters trimmed; a literal that ends in an escaped quote (`\"`)
/// therefore lost that quote too. It is recoverable: an odd number of
/// trailing backslashes means the last one escaped a quote.
fn requote(src: &str) -> String
{
	let trailing = src.chars().rev().take_while(|c| *c == '\\').count();
	if trailing % 2 == 1
	{
		format!("\"{}\"\"", src)
	}
	else
	{
		format!("\"{}\"", src)
	}
}

fn string_bytes_of_source(src: &str) -> Result<Vec<u8>, String>
{
	// one or more adjacent string literals with whitespace/comments between
	let lexed = reflex::lex(src.as_bytes());
	let mut bytes = Vec::new();
	for t in &lexed.toks
	{
		if let Some(h) = t.kind.strip_prefix('Q')
		{
			for i in (0..h.len()).step_by(2)
			{
				bytes.push(u8::from_str_radix(&h[i..i + 2], 16).map_err(|e| e.to_string())?);
			}
		}
		else
		{
			return Err(format!("not a string literal: {}", t.kind));
		}
	}
	Ok(bytes)
}

fn expr_delta(e: &El) -> Result<T, String>
{
	let child = |i: usize| -> Result<&El, String> {
		e.children.get(i).ok_or_else(|| format!("<{}> lacks child {}", e.tag, i))
	};
	Ok(match e.tag.as_str()
	{
		"Binary" => list("bin", vec![atom(e.attr("op").ok_or("no op")?.to_string()), expr_delta(child(0)?)?, expr_delta(child(1)?)?]),
		"Unary" =>
		{
			let op = e.attr("op").ok_or("no op")?.to_string();
			let inner = child(0)?;
			// the first generation folds a minus sign into a decimal literal
			if op == "Negative" && inner.tag == "UntypedIntegerLiteral"
			{
				let src = inner.attr("src").unwrap_or("");
				let value: u128 = inner.attr("value").ok_or("no value")?.parse().map_err(|_| "bad value")?;
				let ty = inner.attr("type");
				// the first generation folds the minus into SIGNED literals: an
				// unsuffixed decimal, or any spelling with a signed suffix
				let decimal = !(src.starts_with("0x") || src.starts_with("0b"));
				let foldable = match ty
				{
					None => decimal,
					Some(t) => t.starts_with("Int"),
				};
				let half = 1u128 << 127;
				if (foldable && value >= 1 && value < half) || value == half
				{
					let mut v = vec![atom(format!("-{}", value))];
					if let Some(t) = ty
					{
						v.push(atom(t.to_string()));
					}
					return Ok(list("int", v));
				}
			}
			list("un", vec![atom(op), expr_delta(inner)?])
		}
		"BooleanLiteral" => list("bool", vec![atom((e.attr("value") == Some("1")).to_string())]),
		"CharLiteral" => list("char", vec![atom(e.attr("value").ok_or("no value")?.to_string())]),
		"UntypedIntegerLiteral" =>
		{
			let mut v = vec![atom(e.attr("value").ok_or("no value")?.to_string())];
			if let Some(t) = e.attr("type")
			{
				v.push(atom(t.to_string()));
			}
			list("int", v)
		}
		"SimpleStringLiteral" =>
		{
			let src = e.attr("src").ok_or("no src")?;
			let bytes = string_bytes_of_source(&requote(src))?;
			list("str", vec![atom(reflex::hex(&bytes))])
		}
		"CompositeStringLiteral" =>
		{
			let text = child(0)?.text.clone().ok_or("composite string without text")?;
			let bytes = string_bytes_of_source(&text)?;
			list("str", vec![atom(reflex::hex(&bytes))])
		}
		"ArrayLiteral" =>
		{
			let items = list_children(e, "elements")?;
			list("array", items.iter().map(expr_delta).collect::<Result<Vec<_>, _>>()?)
		}
		"Structural" =>
		{
			let items = list_children(e, "initializers")?;
			let mut fields = Vec::new();
			for it in items
			{
				if it.tag != "IdentifierAndExpression"
				{
					return Err(format!("unexpected <{}> in initializers", it.tag));
				}
				let name = it.attr("src").ok_or("no src")?.to_string();
				let value = expr_delta(it.children.first().ok_or("initializer without value")?)?;
				fields.push(T::L(vec![atom(name), value]));
			}
			list("structural", vec![atom(e.attr("identifier").ok_or("no identifier")?.to_string()), T::L(fields)])
		}
		"Parenthesized" => list("paren", vec![expr_delta(child(0)?)?]),
		"Deref" => deref_delta(e)?,
		"BitCast" => list("bitcast", vec![expr_delta(child(0)?)?]),
		"TypeCast" => list("as", vec![expr_delta(child(0)?)?, ty_delta(child(1)?)?]),
		"LengthOf" => list("len", vec![deref_delta(child(0)?)?]),
		"SizeOf" => list("sizeof", vec![ty_delta(child(0)?)?]),
		"FunctionCall" =>
		{
			let args = list_children(e, "arguments")?;
			let name = e.attr("identifier").ok_or("no identifier")?.trim_end_matches('!').to_string();
			list(
				"call",
				vec![
					atom(name),
					atom(e.attr("is_builtin").ok_or("no is_builtin")?.to_string()),
					T::L(args.iter().map(expr_delta).collect::<Result<Vec<_>, _>>()?),
				],
			)
		}
		other => return Err(format!("not an expression: <{}>", other)),
	})
}

fn deref_delta(e: &El) -> Result<T, String>
{
	if e.tag != "Deref"
	{
		return Err(format!("expected <Deref>, found <{}>", e.tag));
	}
	let steps = list_children(e, "steps")?;
	let mut out = Vec::new();
	for s in steps
	{
		match s.tag.as_str()
		{
			"DerefStepElement" => out.push(list("elem", vec![expr_delta(s.children.first().ok_or("element step without index")?)?])),
			"DerefStepMember" => out.push(list("member", vec![atom(s.attr("identifier").ok_or("no identifier")?.to_string())])),
			other => return Err(format!("unexpected step <{}>", other)),
		}
	}
	Ok(list(
		"deref",
		vec![
			atom(e.attr("address_depth").ok_or("no address_depth")?.to_string()),
			atom(e.attr("identifier").ok_or("no identifier")?.to_string()),
			T::L(out),
		],
	))
}

fn stmt_delta(e: &El) -> Result<T, String>
{
	Ok(match e.tag.as_str()
	{
		"VariableDeclaration" =>
		{
			let mut ty = atom("-");
			let mut value = atom("-");
			for c in &e.children
			{
				if is_type_tag(&c.tag)
				{
					ty = ty_delta(c)?;
				}
				else
				{
					value = expr_delta(c)?;
				}
			}
			list("var", vec![atom(e.attr("src").ok_or("no src")?.to_string()), ty, value])
		}
		"Assignment" =>
		{
			let r = e.children.first().ok_or("assignment without reference")?;
			let v = e.children.get(1).ok_or("assignment without value")?;
			list("assign", vec![deref_delta(r)?, expr_delta(v)?])
		}
		"MethodCall" =>
		{
			let args = list_children(e, "arguments")?;
			let name = e.attr("identifier").ok_or("no identifier")?.trim_end_matches('!').to_string();
			list(
				"call",
				vec![
					atom(name),
					atom(e.attr("is_builtin").ok_or("no is_builtin")?.to_string()),
					T::L(args.iter().map(expr_delta).collect::<Result<Vec<_>, _>>()?),
				],
			)
		}
		"Loop" => list("loop", vec![]),
		"Goto" => list("goto", vec![atom(e.attr("label").ok_or("no label")?.to_string())]),
		"Label" => list("label", vec![atom(e.attr("src").ok_or("no src")?.to_string())]),
		"If" =>
		{
			let cmp = e.children.first().ok_or("if without comparison")?;
			if cmp.tag != "Comparison"
			{
				return Err(format!("if starts with <{}>", cmp.tag));
			}
			let c = list(
				"cmp",
				vec![
					atom(cmp.attr("op").ok_or("no op")?.to_string()),
					expr_delta(cmp.children.first().ok_or("comparison without left")?)?,
					expr_delta(cmp.children.get(1).ok_or("comparison without right")?)?,
				],
			);
			let mut v = vec![c];
			let then = e.children.get(1).ok_or("if without then")?;
			if then.tag != "Then"
			{
				return Err(format!("expected <Then>, found <{}>", then.tag));
			}
			v.push(stmt_delta(then.children.first().ok_or("empty <Then>")?)?);
			if let Some(els) = e.children.get(2)
			{
				if els.tag != "Else"
				{
					return Err(format!("expected <Else>, found <{}>", els.tag));
				}
				v.push(stmt_delta(els.children.first().ok_or("empty <Else>")?)?);
			}
			list("if", v)
		}
		"Block" =>
		{
			let items = list_children(e, "statements")?;
			list("block", items.iter().map(stmt_delta).collect::<Result<Vec<_>, _>>()?)
		}
		other => return Err(format!("not a statement: <{}>", other)),
	})
}

fn flags_delta(e: &El) -> T
{
	atom(e.attr("flags").unwrap_or("").to_string())
}

fn params_delta(items: &[El]) -> Result<T, String>
{
	let mut v = Vec::new();
	for it in items
	{
		if it.tag != "IdentifierAndType"
		{
			return Err(format!("unexpected <{}> in a list of names and types", it.tag));
		}
		v.push(T::L(vec![
			atom(it.attr("src").ok_or("no src")?.to_string()),
			ty_delta(it.children.first().ok_or("name without type")?)?,
		]));
	}
	Ok(T::L(v))
}

pub fn decl_delta(e: &El) -> Result<T, String>
{
	Ok(match e.tag.as_str()
	{
		"ConstantDeclaration" =>
		{
			let value = e.children.first().ok_or("constant without value")?;
			let ty = e.children.get(1).ok_or("constant without type")?;
			list(
				"const",
				vec![atom(e.attr("identifier").ok_or("no identifier")?.to_string()), flags_delta(e), ty_delta(ty)?, expr_delta(value)?],
			)
		}
		"FunctionDeclaration" =>
		{
			let params = params_delta(list_children(e, "parameters")?)?;
			let ret = e.children.get(1).ok_or("function without return type")?;
			let body = match e.children.get(2)
			{
				None => atom("-"),
				Some(b) =>
				{
					if b.tag != "FunctionBody"
					{
						return Err(format!("expected <FunctionBody>, found <{}>", b.tag));
					}
					let stmts = list_children(b, "statements")?;
					let rv = match b.children.get(1)
					{
						Some(v) => expr_delta(v)?,
						None => atom("-"),
					};
					list("body", vec![T::L(stmts.iter().map(stmt_delta).collect::<Result<Vec<_>, _>>()?), rv])
				}
			};
			list("fn", vec![atom(e.attr("identifier").ok_or("no identifier")?.to_string()), flags_delta(e), params, ty_delta(ret)?, body])
		}
		"StructureDeclaration" =>
		{
			let members = params_delta(list_children(e, "members")?)?;
			list(
				"struct",
				vec![
					atom(e.attr("identifier").ok_or("no identifier")?.to_string()),
					flags_delta(e),
					atom(e.attr("size-in-bytes").ok_or("no size")?.to_string()),
					members,
				],
			)
		}
		"ImportDeclaration" =>
		{
			let s = e.children.first().ok_or("import without path")?;
			let src = s.attr("src").ok_or("no src")?;
			let bytes = string_bytes_of_source(&requote(src))?;
			list("import", vec![atom(reflex::hex(&bytes))])
		}
		other => return Err(format!("not a declaration: <{}>", other)),
	})
}

pub fn module_delta(lines: &[String]) -> Result<T, String>
{
	let els = read_xml(lines)?;
	Ok(T::L(els.iter().map(decl_delta).collect::<Result<Vec<_>, _>>()?))
}

/// first position where two terms differ, as a path of list indices with
/// the two differing sub-terms
pub fn first_difference(x: &T, y: &T) -> Option<(String, String, String)>
{
	fn go(x: &T, y: &T, path: &mut Vec<String>) -> Option<(String, String, String)>
	{
		match (x, y)
		{
			(T::A(a), T::A(b)) if a == b => None,
			(T::L(a), T::L(b)) =>
			{
				let head = match a.first()
				{
					Some(T::A(h)) => h.clone(),
					_ => "".into(),
				};
				path.push(head);
				for i in 0..a.len().max(b.len())
				{
					match (a.get(i), b.get(i))
					{
						(Some(p), Some(q)) =>
						{
							if let Some(d) = go(p, q, path)
							{
								return Some(d);
							}
						}
						(p, q) =>
						{
							return Some((
								path.join("/"),
								p.map(|t| t.to_string()).unwrap_or("<missing>".into()),
								q.map(|t| t.to_string()).unwrap_or("<missing>".into()),
							));
						}
					}
				}
				path.pop();
				None
			}
			(p, q) => Some((path.join("/"), p.to_string(), q.to_string())),
		}
	}
	go(x, y, &mut Vec::new())
}
