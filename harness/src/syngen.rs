//! Grammar-based generator of syntactically valid Penne modules (not
//! necessarily well-typed): every production the docs show. Used by the
//! syntax checks C16, C17 and C20.

use crate::choices::Choices;
use crate::lexgen;

#[derive(Clone, Debug)]
pub struct DeclParts
{
	pub public: bool,
	pub external: bool,
	/// everything after the flags up to (not including) the body or `;`
	pub head: String,
	/// function body including braces; None for heads / non-functions
	pub body: Option<String>,
	/// terminator for non-function declarations is part of `head`
	pub is_function: bool,
	pub is_import: bool,
	pub has_struct: bool,
	pub has_builtin: bool,
}

impl DeclParts
{
	pub fn text(&self) -> String
	{
		let mut s = String::new();
		if self.public
		{
			s.push_str("pub ");
		}
		if self.external
		{
			s.push_str("extern ");
		}
		s.push_str(&self.head);
		if self.is_function
		{
			match &self.body
			{
				Some(b) =>
				{
					s.push('\n');
					s.push_str(b);
				}
				None => s.push(';'),
			}
		}
		s
	}

	/// what the extracted header must contain for this declaration
	pub fn header_text(&self) -> Option<String>
	{
		if !self.public
		{
			return None;
		}
		let mut s = String::new();
		if self.external
		{
			s.push_str("extern ");
		}
		s.push_str(&self.head);
		if self.is_function
		{
			s.push(';');
		}
		Some(s)
	}
}

pub struct Syn<'a, 'c>
{
	c: &'a mut Choices<'c>,
	names: usize,
	pub allow_builtins: bool,
	pub allow_structs: bool,
	used_struct: bool,
	used_builtin: bool,
	budget: usize,
}

const PRIMS: &[&str] = &[
	"i32", "u8", "bool", "usize", "i8", "i16", "i64", "i128", "u16", "u32", "u64", "u128", "char8",
];

impl<'a, 'c> Syn<'a, 'c>
{
	pub fn new(c: &'a mut Choices<'c>) -> Syn<'a, 'c>
	{
		Syn {
			c,
			names: 0,
			allow_builtins: true,
			allow_structs: true,
			used_struct: false,
			used_builtin: false,
			budget: 0,
		}
	}

	fn name(&mut self, prefix: &str) -> String
	{
		self.names += 1;
		format!("{}{}", prefix, self.names)
	}

	fn var(&mut self) -> String
	{
		let pool = ["x", "y", "data", "total", "i", "ptr", "item_count", "a1", "_tmp", "fnord", "variable"];
		(*self.c.pick(&pool)).to_string()
	}

	fn struct_name(&mut self) -> String
	{
		self.used_struct = true;
		(*self.c.pick(&["Position", "Foo", "Buf3", "Line"])).to_string()
	}

	fn elem_type(&mut self, depth: usize) -> String
	{
		match self.c.draw(if depth == 0 { 2 } else { 5 })
		{
			0 => (*self.c.pick(PRIMS)).to_string(),
			1 =>
			{
				if self.allow_structs
				{
					self.struct_name()
				}
				else
				{
					"i32".into()
				}
			}
			2 => format!("&{}", self.elem_type(0)),
			3 => format!("[{}]{}", self.c.draw(9), self.elem_type(0)),
			_ => format!("[{}]{}", self.len_name(), self.elem_type(0)),
		}
	}

	fn len_name(&mut self) -> String
	{
		(*self.c.pick(&["SIZE", "N", "MAX_LEN"])).to_string()
	}

	/// a well-formed type
	pub fn ty(&mut self) -> String
	{
		match self.c.draw(14)
		{
			0 | 1 | 2 => (*self.c.pick(PRIMS)).to_string(),
			3 =>
			{
				if self.allow_structs
				{
					self.struct_name()
				}
				else
				{
					"u64".into()
				}
			}
			4 => format!("&{}", self.elem_type(1)),
			5 => format!("&&{}", self.elem_type(0)),
			6 => format!("[{}]{}", self.c.draw(20), self.elem_type(1)),
			7 => format!("[{}]{}", self.len_name(), self.elem_type(1)),
			8 => format!("[]{}", self.elem_type(1)),
			9 => format!("&[]{}", self.elem_type(0)),
			10 => format!("&[{}]{}", self.c.draw(9), self.elem_type(0)),
			11 => format!("[:]{}", self.elem_type(0)),
			12 => format!("&[..]{}", self.elem_type(0)),
			_ => format!("({})", self.elem_type(0)),
		}
	}

	fn int_literal(&mut self) -> String
	{
		let v: u128 = match self.c.draw(5)
		{
			0 => self.c.draw(10) as u128,
			1 => self.c.draw(1000) as u128,
			2 => u64::MAX as u128,
			3 => (i128::MAX as u128) + self.c.draw(3) as u128,
			_ => self.c.u128(),
		};
		let body = match self.c.draw(5)
		{
			0 | 1 | 2 => lexgen::spell_decimal(self.c, v),
			3 => lexgen::spell_hex(self.c, v),
			_ => lexgen::spell_bin(self.c, v),
		};
		if self.c.chance(1, 4)
		{
			format!("{}{}", body, *self.c.pick(crate::reflex::SUFFIXES))
		}
		else
		{
			body
		}
	}

	fn string_literal(&mut self) -> String
	{
		let parts = 1 + self.c.draw(3);
		let mut out = Vec::new();
		for _ in 0..parts
		{
			let bytes = lexgen::random_bytes(self.c, 10);
			out.push(format!("\"{}\"", lexgen::spell_bytes(self.c, &bytes, b'"')));
		}
		let sep = *self.c.pick(&[" ", "\n\t\t", " // more\n\t\t"]);
		out.join(sep)
	}

	fn reference(&mut self, depth: usize) -> String
	{
		let mut s = self.var();
		let steps = self.c.draw(4);
		for _ in 0..steps
		{
			if self.c.flag()
			{
				let e = self.expr(depth.saturating_sub(1), false);
				s.push_str(&format!("[{}]", e));
			}
			else
			{
				s.push('.');
				s.push_str(*self.c.pick(&["x", "y", "len", "buffer", "from"]));
			}
		}
		s
	}

	fn args(&mut self, depth: usize) -> String
	{
		let n = self.c.draw(4);
		let mut v = Vec::new();
		for _ in 0..n
		{
			v.push(self.expr(depth, true));
		}
		let tc = if n > 0 && self.c.chance(1, 5) { "," } else { "" };
		format!("{}{}", v.join(", "), tc)
	}

	/// primary expressions (no operators at the top)
	fn primary(&mut self, depth: usize, allow_struct_lit: bool) -> String
	{
		self.budget = self.budget.saturating_sub(1);
		let deep = depth > 0 && self.budget > 0;
		let kinds: [u32; 12] = [
			6,
			6,
			2,
			2,
			if deep { 3 } else { 0 },
			if deep { 3 } else { 0 },
			if deep && allow_struct_lit && self.allow_structs { 2 } else { 0 },
			if deep { 2 } else { 0 },
			2,
			if deep && self.allow_builtins { 1 } else { 0 },
			2,
			1,
		];
		match self.c.weighted(&kinds)
		{
			0 => self.int_literal(),
			1 => self.reference(depth),
			2 => (*self.c.pick(&["true", "false"])).to_string(),
			3 =>
			{
				let b = *self.c.pick(&[b'a', b'Z', b'0', b'\n', b'\\', b'\'', 0x7f, 0]);
				format!("'{}'", lexgen::spell_bytes(self.c, &[b], b'\''))
			}
			4 => format!("({})", self.expr(depth - 1, true)),
			5 =>
			{
				let f = *self.c.pick(&["foo", "calculate", "do_it", "fn_2"]);
				format!("{}({})", f, self.args(depth - 1))
			}
			6 =>
			{
				let s = self.struct_name();
				let n = self.c.draw(4);
				let mut fields = Vec::new();
				for _ in 0..n
				{
					let f = *self.c.pick(&["x", "y", "from", "to", "len"]);
					if self.c.chance(1, 3)
					{
						// field init shorthand
						fields.push(f.to_string());
					}
					else
					{
						fields.push(format!("{}: {}", f, self.expr(depth - 1, true)));
					}
				}
				let tc = if n > 0 && self.c.flag() { "," } else { "" };
				format!("{} {{ {}{} }}", s, fields.join(", "), tc)
			}
			7 =>
			{
				let n = self.c.draw(4);
				let mut v = Vec::new();
				for _ in 0..n
				{
					v.push(self.expr(depth - 1, true));
				}
				let tc = if n > 0 && self.c.flag() { "," } else { "" };
				format!("[{}{}]", v.join(", "), tc)
			}
			8 => self.string_literal(),
			9 =>
			{
				self.used_builtin = true;
				let f = *self.c.pick(&["format!", "file!", "line!", "custom_builtin!"]);
				format!("{}({})", f, self.args(depth - 1))
			}
			10 =>
			{
				// address of a reference, optionally advanced
				let amps = "&".repeat(1 + self.c.draw(3));
				let r = self.reference(depth);
				format!("{}{}", amps, r)
			}
			_ => self.int_literal(),
		}
	}

	fn unary(&mut self, depth: usize, sl: bool) -> String
	{
		match self.c.draw(8)
		{
			0 => format!("-{}", self.primary(depth, sl)),
			1 => format!("!{}", self.primary(depth, sl)),
			2 => format!("|{}|", self.reference(depth)),
			3 => format!("|:{}|", self.ty()),
			_ => self.primary(depth, sl),
		}
	}

	fn singular(&mut self, depth: usize, sl: bool) -> String
	{
		let mut s = String::new();
		if self.c.chance(1, 10)
		{
			s.push_str("cast ");
		}
		s.push_str(&self.unary(depth, sl));
		let casts = if self.c.chance(1, 4) { 1 + self.c.draw(2) } else { 0 };
		for _ in 0..casts
		{
			s.push_str(&format!(" as {}", self.ty()));
		}
		s
	}

	fn multiplication(&mut self, depth: usize, sl: bool) -> String
	{
		let mut s = self.singular(depth, sl);
		let n = if depth > 0 { self.c.draw(3) } else { 0 };
		for _ in 0..n
		{
			let op = *self.c.pick(&["*", "/", "%"]);
			s.push_str(&format!(" {} {}", op, self.singular(depth.saturating_sub(1), sl)));
		}
		s
	}

	/// full expression; `sl`: structure literals allowed (not in conditions)
	pub fn expr(&mut self, depth: usize, sl: bool) -> String
	{
		match self.c.draw(if depth > 0 { 8 } else { 1 })
		{
			5 =>
			{
				// bitwise chain of one operator over unary operands
				let op = *self.c.pick(&["&", "|", "^"]);
				let mut s = self.singular(depth - 1, sl);
				let n = 1 + self.c.draw(3);
				for _ in 0..n
				{
					let u = self.unary(depth - 1, sl);
					// `a | |x|` is fine, but keep a space so that `|` `|:` do not merge
					s.push_str(&format!(" {} {}", op, u));
				}
				s
			}
			6 =>
			{
				let op = *self.c.pick(&["<<", ">>"]);
				format!("{} {} {}", self.singular(depth - 1, sl), op, self.unary(depth - 1, sl))
			}
			7 =>
			{
				// pointer advance
				let r = self.reference(depth - 1);
				format!("&{}..{}", r, self.expr(depth - 1, sl))
			}
			_ =>
			{
				let mut s = self.multiplication(depth, sl);
				let n = if depth > 0 { self.c.draw(3) } else { 0 };
				for _ in 0..n
				{
					let op = *self.c.pick(&["+", "-"]);
					s.push_str(&format!(" {} {}", op, self.multiplication(depth.saturating_sub(1), sl)));
				}
				s
			}
		}
	}

	fn comparison(&mut self) -> String
	{
		let op = *self.c.pick(&["==", "!=", "<", ">", "<=", ">="]);
		format!("{} {} {}", self.expr(2, false), op, self.expr(2, false))
	}

	fn indent(n: usize) -> String
	{
		"\t".repeat(n)
	}

	fn block(&mut self, depth: usize, ind: usize) -> String
	{
		let mut s = format!("{}{{\n", Self::indent(ind));
		let n = self.c.draw(4);
		for _ in 0..n
		{
			s.push_str(&self.stmt(depth, ind + 1));
		}
		if self.c.chance(1, 5)
		{
			s.push_str(&format!("{}loop;\n", Self::indent(ind + 1)));
		}
		s.push_str(&format!("{}}}\n", Self::indent(ind)));
		s
	}

	/// a statement that cannot swallow a following `else`
	fn closed_branch(&mut self, depth: usize, ind: usize) -> String
	{
		if self.c.flag()
		{
			format!("{}goto {};\n", Self::indent(ind + 1), self.label())
		}
		else
		{
			self.block(depth, ind)
		}
	}

	fn label(&mut self) -> String
	{
		(*self.c.pick(&["end", "next", "retry", "done_2", "return"])).to_string()
	}

	pub fn stmt(&mut self, depth: usize, ind: usize) -> String
	{
		self.budget = self.budget.saturating_sub(1);
		let deep = depth > 0 && self.budget > 0;
		let pad = Self::indent(ind);
		let kinds: [u32; 10] = [
			5,
			5,
			3,
			2,
			2,
			if deep { 3 } else { 0 },
			if deep { 2 } else { 0 },
			if self.allow_builtins { 1 } else { 0 },
			2,
			1,
		];
		match self.c.weighted(&kinds)
		{
			0 =>
			{
				// var
				let name = self.var();
				let mut s = format!("{}var {}", pad, name);
				if self.c.flag()
				{
					s.push_str(&format!(": {}", self.ty()));
				}
				if self.c.chance(3, 4)
				{
					s.push_str(&format!(" = {}", self.expr(3, true)));
				}
				s.push_str(";\n");
				s
			}
			1 =>
			{
				let amps = if self.c.chance(1, 5) { "&".repeat(1 + self.c.draw(2)) } else { String::new() };
				let r = self.reference(2);
				format!("{}{}{} = {};\n", pad, amps, r, self.expr(3, true))
			}
			2 =>
			{
				let f = *self.c.pick(&["foo", "do_it", "calculate"]);
				format!("{}{}({});\n", pad, f, self.args(2))
			}
			3 => format!("{}goto {};\n", pad, self.label()),
			4 =>
			{
				// labels other than `return` (that one ends a function body)
				let l = *self.c.pick(&["end", "next", "retry", "done_2"]);
				format!("{}{}:\n", pad, l)
			}
			5 =>
			{
				// if / else / else if
				let mut s = format!("{}if {}\n", pad, self.comparison());
				match self.c.draw(4)
				{
					0 =>
					{
						// no else: any branch
						if self.c.flag()
						{
							s.push_str(&self.block(depth - 1, ind));
						}
						else
						{
							s.push_str(&format!("{}goto {};\n", Self::indent(ind + 1), self.label()));
						}
					}
					1 =>
					{
						s.push_str(&self.closed_branch(depth - 1, ind));
						s.push_str(&format!("{}else\n", pad));
						s.push_str(&self.closed_branch(depth - 1, ind));
					}
					_ =>
					{
						// else-if chain
						s.push_str(&self.closed_branch(depth - 1, ind));
						let n = 1 + self.c.draw(2);
						for _ in 0..n
						{
							s.push_str(&format!("{}else if {}\n", pad, self.comparison()));
							s.push_str(&self.closed_branch(depth - 1, ind));
						}
						if self.c.flag()
						{
							s.push_str(&format!("{}else\n", pad));
							s.push_str(&self.closed_branch(depth - 1, ind));
						}
					}
				}
				s
			}
			6 => self.block(depth - 1, ind),
			7 =>
			{
				self.used_builtin = true;
				let f = *self.c.pick(&["print!", "eprint!", "abort!", "dbg!", "panic!"]);
				format!("{}{}({});\n", pad, f, self.args(2))
			}
			8 => format!("{}loop;\n", pad),
			_ =>
			{
				let name = self.var();
				format!("{}var {};\n", pad, name)
			}
		}
	}

	fn function(&mut self) -> DeclParts
	{
		self.used_struct = false;
		self.used_builtin = false;
		let name = self.name("func_");
		let np = self.c.draw(4);
		let mut params = Vec::new();
		for k in 0..np
		{
			params.push(format!("p{}: {}", k, self.ty()));
		}
		let tc = if np > 0 && self.c.chance(1, 6) { "," } else { "" };
		let ret = if self.c.flag() { format!(" -> {}", *self.c.pick(PRIMS)) } else { String::new() };
		let head = format!("fn {}({}{}){}", name, params.join(", "), tc, ret);
		let body = if self.c.chance(1, 5)
		{
			None
		}
		else
		{
			self.budget = 25;
			let mut b = String::from("{\n");
			let n = self.c.draw(7);
			for _ in 0..n
			{
				b.push_str(&self.stmt(3, 1));
			}
			if self.c.flag()
			{
				b.push_str(&format!("\treturn: {}\n", self.expr(3, true)));
			}
			b.push('}');
			Some(b)
		};
		DeclParts {
			public: false,
			external: false,
			head,
			body,
			is_function: true,
			is_import: false,
			has_struct: self.used_struct,
			has_builtin: self.used_builtin,
		}
	}

	fn constant(&mut self) -> DeclParts
	{
		self.used_struct = false;
		self.used_builtin = false;
		let name = self.name("CONST_");
		self.budget = 10;
		let saved = self.allow_builtins;
		self.allow_builtins = false;
		let head = format!("const {}: {} = {};", name, self.ty(), self.expr(3, true));
		self.allow_builtins = saved;
		DeclParts {
			public: false,
			external: false,
			head,
			body: None,
			is_function: false,
			is_import: false,
			has_struct: self.used_struct,
			has_builtin: false,
		}
	}

	fn structure(&mut self) -> DeclParts
	{
		let name = self.name("Struct");
		let kw = *self.c.pick(&["struct", "struct", "word8", "word16", "word32", "word64", "word128"]);
		if kw == "struct" && self.c.chance(1, 6)
		{
			return DeclParts {
				public: false,
				external: false,
				head: format!("struct {};", name),
				body: None,
				is_function: false,
				is_import: false,
				has_struct: true,
				has_builtin: false,
			};
		}
		let n = self.c.draw(5);
		let mut members = Vec::new();
		for k in 0..n
		{
			members.push(format!("\tmember{}: {}", k, self.ty()));
		}
		let mut text = format!("{} {}\n{{\n", kw, name);
		for (i, m) in members.iter().enumerate()
		{
			text.push_str(m);
			if i + 1 < members.len() || self.c.flag()
			{
				text.push(',');
			}
			text.push('\n');
		}
		text.push('}');
		DeclParts {
			public: false,
			external: false,
			head: text,
			body: None,
			is_function: false,
			is_import: false,
			has_struct: true,
			has_builtin: false,
		}
	}

	pub fn module(&mut self, max_decls: usize) -> Vec<DeclParts>
	{
		let n = 1 + self.c.draw(max_decls);
		let mut out = Vec::new();
		for _ in 0..n
		{
			let mut d = match self.c.weighted(&[6, 3, if self.allow_structs { 3 } else { 0 }, 1])
			{
				0 => self.function(),
				1 => self.constant(),
				2 => self.structure(),
				_ =>
				{
					let path = *self.c.pick(&["other.pn", "core:text", "vendor:libc/stdio.pn", "dir/sub/file.pn"]);
					DeclParts {
						public: false,
						external: false,
						head: format!("import \"{}\";", path),
						body: None,
						is_function: false,
						is_import: true,
						has_struct: false,
						has_builtin: false,
					}
				}
			};
			if !d.is_import
			{
				d.public = self.c.chance(1, 3);
				d.external = self.c.chance(1, 6);
			}
			out.push(d);
		}
		out
	}
}

pub fn render(decls: &[DeclParts]) -> String
{
	let mut s = String::new();
	for d in decls
	{
		s.push_str(&d.text());
		s.push_str("\n\n");
	}
	s
}
