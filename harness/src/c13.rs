//! C13 — diagnostics are well-located, documented and deterministic.

use crate::alpha;
use crate::choices::{fnv, Choices};
use crate::engine::*;
use crate::mutgen::{self, Case};
use serde_json::{json, Value};
use std::io::Write;

pub struct C13;

fn catalogue() -> Vec<u16>
{
	thread_local! {
		static CAT: Vec<u16> = {
			let mut v = Vec::new();
			if let Ok(text) = std::fs::read_to_string("/repo/docs/errors.md")
			{
				for l in text.lines()
				{
					if let Some(rest) = l.strip_prefix("## Error code E").or_else(|| l.strip_prefix("## Lint code L")).or_else(|| l.strip_prefix("## Error code L"))
					{
						if let Ok(n) = rest.trim().parse::<u16>()
						{
							v.push(n);
						}
					}
				}
			}
			let extra = verif_root().join("catalogue_extra.json");
			if let Ok(text) = std::fs::read_to_string(extra)
			{
				if let Ok(j) = serde_json::from_str::<Value>(&text)
				{
					if let Some(a) = j["codes"].as_array()
					{
						for x in a
						{
							v.push(x.as_u64().unwrap_or(0) as u16);
						}
					}
				}
			}
			v
		};
	}
	CAT.with(|c| c.clone())
}

pub fn render(e: &penne::alpha::Error, files: &[(String, String)], color: bool, ascii: bool) -> Result<Vec<u8>, String>
{
	let charset = if ascii { ariadne::CharSet::Ascii } else { ariadne::CharSet::Unicode };
	let cfg = ariadne::Config::default()
		.with_index_type(ariadne::IndexType::Char)
		.with_color(color)
		.with_char_set(charset);
	let config = penne::alpha::error::Config::from(cfg).with_color(color);
	let sources: Vec<(String, String)> = files
		.iter()
		.map(|(n, s)| (n.clone(), if s.is_empty() { " ".to_string() } else { s.clone() }))
		.collect();
	let mut cache = ariadne::sources(sources);
	let report = e.build_report(config);
	let mut buf: Vec<u8> = Vec::new();
	report.write(&mut cache, &mut buf).map_err(|e| e.to_string())?;
	Ok(buf)
}

/// everything observable about one compilation, as text
pub fn digest(files: &[(String, String)]) -> Value
{
	let o = alpha::compile_modules(
		files,
		alpha::Options {
			want_ir: true,
			link: true,
			..Default::default()
		},
	);
	let mut rendered = String::new();
	for e in &o.raw
	{
		match render(e, files, false, true)
		{
			Ok(b) => rendered.push_str(&String::from_utf8_lossy(&b)),
			Err(err) => rendered.push_str(&format!("<render error {}>", err)),
		}
	}
	let locs: Vec<String> = o
		.diags
		.iter()
		.chain(o.lints.iter())
		.map(|d| format!("{}@{}:{}:{}..{}", d.code, d.file, d.line, d.start, d.end))
		.collect();
	json!({
		"ok": o.ok,
		"codes": o.codes,
		"lints": o.lint_codes(),
		"locations": locs,
		"rendered": rendered,
		"module_irs": o.module_irs,
		"linked_ir": o.linked_ir,
		"internal_error": o.internal_error,
	})
}

/// `pv digest`: read {"files": [[name, source], ..]} from stdin, print the digest
pub fn digest_main()
{
	let mut text = String::new();
	use std::io::Read;
	std::io::stdin().read_to_string(&mut text).expect("stdin");
	let v: Value = serde_json::from_str(&text).expect("json");
	let files: Vec<(String, String)> = v["files"]
		.as_array()
		.unwrap()
		.iter()
		.map(|p| (p[0].as_str().unwrap().to_string(), p[1].as_str().unwrap().to_string()))
		.collect();
	println!("{}", digest(&files));
}

fn digest_in_fresh_process(files: &[(String, String)]) -> Option<Value>
{
	let exe = std::env::current_exe().ok()?;
	let mut child = std::process::Command::new(exe)
		.arg("digest")
		.stdin(std::process::Stdio::piped())
		.stdout(std::process::Stdio::piped())
		.stderr(std::process::Stdio::null())
		.spawn()
		.ok()?;
	{
		let mut stdin = child.stdin.take()?;
		let req = json!({"files": files.iter().map(|(n, s)| json!([n, s])).collect::<Vec<_>>()});
		let _ = stdin.write_all(req.to_string().as_bytes());
	}
	let out = child.wait_with_output().ok()?;
	if !out.status.success()
	{
		return None;
	}
	serde_json::from_slice(&out.stdout).ok()
}

fn variant_and_name(e: &penne::alpha::Error) -> (String, Option<String>)
{
	let d = format!("{:?}", e);
	let variant: String = d.chars().take_while(|c| c.is_alphanumeric()).collect();
	let name = d.find("name: \"").map(|i| {
		let rest = &d[i + 7..];
		rest.chars().take_while(|c| *c != '"').collect::<String>()
	});
	(variant, name)
}

fn judge(case: &Case, determinism: bool, out: &mut CaseOut, want_sample: bool)
{
	let files = &case.files;
	let o = alpha::compile_modules(
		files,
		alpha::Options {
			want_ir: true,
			link: true,
			..Default::default()
		},
	);
	let mut h = String::new();
	for (_, s) in files
	{
		h.push_str(s);
		h.push('\0');
	}
	out.key = fnv(&h);
	if o.raw.is_empty() && !determinism
	{
		out.discarded = Some("no diagnostics (accepted without lints)".into());
		return;
	}
	let cat = catalogue();
	let files_json = crate::c02::files_json(files);
	let mut nontrivial = false;
	// operator chains: (diagnostics of mismatched operands seen, one of them at the planted operator)
	let mut chain = (0usize, false);
	for e in &o.raw
	{
		let code = e.code();
		let (variant, name) = variant_and_name(e);
		out.class(format!("code:{}", code));
		// (1) documented code
		if !cat.contains(&code)
		{
			out.fail(
				format!("diagnostic code {} is not in the published catalogue", code),
				json!({"files": files_json, "variant": variant}),
			);
		}
		// (2) location inside the named file, on the reported line
		let loc = e.verif_location();
		let src = files.iter().find(|(n, _)| *n == loc.source_filename);
		match src
		{
			None => out.fail(
				format!("{}: location names a file that was not compiled", variant),
				json!({"files": files_json, "filename": loc.source_filename}),
			),
			Some((_, text)) =>
			{
				let nchars = text.chars().count();
				let (a, b) = (loc.span.start, loc.span.end);
				if a > b || b > nchars.max(1)
				{
					out.fail(
						format!("{}: span outside the source", variant),
						json!({"files": files_json, "span": [a, b], "chars": nchars, "code": code}),
					);
				}
				else
				{
					let line = 1 + text.chars().take(a).filter(|c| *c == '\n').count();
					// at the very end of the file the error belongs to the last line
					let at_eof = a >= nchars;
					let last_line = 1 + text.chars().filter(|c| *c == '\n').count();
					let ok = line == loc.line_number
						|| (at_eof && (loc.line_number == last_line || loc.line_number + 1 == last_line));
					if !ok
					{
						out.fail(
							format!("{}: span does not start on the reported line", variant),
							json!({"files": files_json, "span": [a, b], "reported_line": loc.line_number, "line_of_span": line, "code": code}),
						);
					}
					if line >= 2 && text.chars().take(a).any(|c| !c.is_ascii() || c == '\r')
					{
						nontrivial = true;
					}
					// (3) the span covers the offending text
					if let Some(name) = &name
					{
						let named = [
							"UndefinedLabel",
							"UndefinedFunction",
							"UndefinedVariable",
							"UndefinedStructure",
							"DuplicateDeclarationLabel",
							"DuplicateDeclarationFunction",
							"DuplicateDeclarationVariable",
							"DuplicateDeclarationConstant",
							"DuplicateDeclarationParameter",
							"DuplicateDeclarationStructure",
							"DuplicateDeclarationMember",
						];
						if named.contains(&variant.as_str())
						{
							let covered: String = text.chars().skip(a).take(b - a).collect();
							let covered_trim = covered.trim_end_matches(':').trim_end_matches('!');
							if covered_trim != name.trim_end_matches('!')
							{
								out.fail(
									format!("{}: span does not cover the offending name", variant),
									json!({"files": files_json, "name": name, "covered": covered, "span": [a, b]}),
								);
							}
						}
					}
					if case.kind == "operator-chain-fault" && code == 551
					{
						if let Some(at_byte) = case.planted_at
						{
							let lo = text[..at_byte.min(text.len())].chars().count();
							let hi = lo + text[at_byte.min(text.len())..].chars().take_while(|c| *c != '\n').count();
							chain.0 += 1;
							if lo <= a && a <= hi
							{
								chain.1 = true;
							}
						}
					}
					if variant == "Lexical" && case.planted_at.is_some() && o.raw.len() == 1 && code == 110
					{
						let at_byte = case.planted_at.unwrap();
						let at_char = text[..at_byte.min(text.len())].chars().count();
						if !(a <= at_char && at_char < b.max(a + 1))
						{
							out.fail(
								"Lexical: span does not cover the planted character",
								json!({"files": files_json, "planted_char_offset": at_char, "span": [a, b]}),
							);
						}
					}
				}
			}
		}
		if o.stage != "surface"
		{
			nontrivial = true;
		}
		// (4) renders in every configuration
		for (color, ascii) in [(false, false), (false, true), (true, false), (true, true)]
		{
			let rendered = std::panic::catch_unwind(std::panic::AssertUnwindSafe(|| render(e, files, color, ascii)))
				.unwrap_or_else(|_| Err("the renderer panicked".to_string()));
			match rendered
			{
				Err(err) => out.fail(
					format!("{}: report cannot be written", variant),
					json!({"files": files_json, "error": err, "color": color, "ascii": ascii}),
				),
				Ok(bytes) =>
				{
					// (4b) the report shows the reported line of the source: a
					// label that falls outside the source is dropped silently
					// by the renderer, and the excerpt with it
					if !color
					{
						if let Some((_, text)) = files.iter().find(|(n, _)| *n == loc.source_filename)
						{
							let squeeze = |t: &str| -> String { t.chars().filter(|c| !c.is_whitespace() && !c.is_control()).collect() };
							let shown = squeeze(&String::from_utf8_lossy(&bytes));
							let nth = |k: usize| squeeze(text.split('\n').nth(k).unwrap_or(""));
							let line = nth(loc.line_number.saturating_sub(1));
							// (a label at the very start of a line is drawn at the
							// end of the nearest non-empty line before it)
							let before = (0..loc.line_number.saturating_sub(1)).rev().map(|k| nth(k)).find(|l| !l.is_empty()).unwrap_or_default();
							// (the renderer also ends lines at CR, VT, FF, NEL, LS and
							// PS: lines that contain one are not looked at)
							let raw_line = text.split('\n').nth(loc.line_number.saturating_sub(1)).unwrap_or("");
							let exotic = raw_line.chars().any(|ch| matches!(ch, '\r' | '\u{b}' | '\u{c}' | '\u{85}' | '\u{2028}' | '\u{2029}'));
							let found = exotic || shown.contains(&line) || (!before.is_empty() && shown.contains(&before));
							if !line.is_empty() && line.chars().count() <= 200 && !found
							{
								out.fail(
									format!("{}: the report does not show the reported source line", variant),
									json!({"files": files_json, "line": loc.line_number, "report": String::from_utf8_lossy(&bytes), "ascii": ascii}),
								);
							}
						}
					}
					let source_has_esc = files.iter().any(|(_, s)| s.contains('\u{1b}'));
					if !color && !source_has_esc && bytes.contains(&0x1b)
					{
						out.fail(
							format!("{}: escape sequence in a report rendered without colour", variant),
							json!({"files": files_json}),
						);
					}
					if ascii && !color
					{
						let all_ascii_src = files.iter().all(|(n, s)| s.is_ascii() && n.is_ascii());
						if all_ascii_src && !bytes.is_ascii()
						{
							out.fail(
								format!("{}: non-ASCII output with ASCII arrows and ASCII source", variant),
								json!({"files": files_json, "rendered": String::from_utf8_lossy(&bytes)}),
							);
						}
					}
					out.count("reports_rendered", 1);
				}
			}
		}
	}
	out.nontrivial = nontrivial;
	// (3b) operands of different types in a chain of operators: the one
	// operator whose two sides differ is the offending text
	if case.kind == "operator-chain-fault"
	{
		if chain.0 == 0
		{
			out.fail("operator chain: operands of different types are not reported as E551", json!({"files": files_json, "codes": o.codes}));
		}
		else if !chain.1
		{
			out.fail(
				"operator chain: no E551 starts on the line of the operator whose operands differ",
				json!({"files": files_json, "expected_line": case.planted_at.map(|at| 1 + files[0].1[..at].matches('\n').count()), "diagnostics": o.summary()}),
			);
		}
	}
	// (4c) a final newline changes nothing: a file that ends right after its
	// last token gets the same diagnostics, at the same places, drawn the same
	// way, as the same file with a newline at the end
	if files.len() == 1 && !o.raw.is_empty() && !files[0].1.is_empty() && !files[0].1.ends_with('\n') && o.raw.iter().all(|e| !(101..300).contains(&e.code()))
	{
		let with_newline = vec![(files[0].0.clone(), format!("{}\n", files[0].1))];
		let o2 = alpha::compile_modules(&with_newline, alpha::Options::default());
		let show = |errs: &[penne::alpha::Error], fs: &[(String, String)]| -> Vec<String> {
			errs.iter()
				.map(|e| {
					let l = e.verif_location();
					let text = std::panic::catch_unwind(std::panic::AssertUnwindSafe(|| render(e, fs, false, true)))
						.ok()
						.and_then(|r| r.ok())
						.map(|b| String::from_utf8_lossy(&b).to_string())
						.unwrap_or_default();
					format!("E{} {}:{} {:?}\n{}", e.code(), l.line_number, l.line_offset, l.span, text)
				})
				.collect()
		};
		let (a, b) = (show(&o.raw, files), show(&o2.raw, &with_newline));
		if a != b
		{
			let k = a.iter().zip(b.iter()).position(|(x, y)| x != y).unwrap_or(0);
			out.fail(
				format!("a final newline changes the diagnostics (E{})", o.raw.get(k).map(|e| e.code()).unwrap_or(0)),
				json!({"files": files_json, "without_final_newline": a.get(k), "with_final_newline": b.get(k)}),
			);
		}
		out.class("checked:final-newline");
	}
	// (5) compilation is a function of its inputs
	if determinism
	{
		let mine = digest(files);
		for k in 0..2
		{
			match digest_in_fresh_process(files)
			{
				None =>
				{
					out.discarded = Some("fresh process crashed (C02's subject)".into());
					break;
				}
				Some(other) =>
				{
					out.count("fresh_process_comparisons", 1);
					if other != mine
					{
						let what = if other["ok"] != mine["ok"]
						{
							"verdict"
						}
						else if other["codes"] != mine["codes"]
						{
							"list of diagnostics"
						}
						else if other["locations"] != mine["locations"] || other["rendered"] != mine["rendered"]
						{
							"locations or rendered text"
						}
						else
						{
							"IR text"
						};
						out.fail(
							format!("repeated compilation differs: {}", what),
							json!({"files": files_json, "run": k, "first": {"ok": mine["ok"], "codes": mine["codes"], "locations": mine["locations"]}, "second": {"ok": other["ok"], "codes": other["codes"], "locations": other["locations"]},
								"ir_first": mine["module_irs"], "ir_second": other["module_irs"]}),
						);
						break;
					}
				}
			}
		}
	}
	if want_sample
	{
		out.sample = Some(json!({"files": files_json, "codes": o.codes, "lints": o.lint_codes()}));
	}
}

macro_rules! stream {
	($name:ident, $label:expr, $quick:expr, $thorough:expr, $clen:expr, $det:expr, $gen:expr) => {
		struct $name;
		impl Stream for $name
		{
			fn name(&self) -> String
			{
				$label.into()
			}
			fn count(&self, tier: Tier) -> u64
			{
				tier.pick($quick, $thorough)
			}
			fn choice_len(&self) -> usize
			{
				$clen
			}
			fn stride(&self) -> u64
			{
				8
			}
			fn crash_is_failure(&self) -> bool
			{
				false
			}
			fn timeout(&self) -> std::time::Duration
			{
				std::time::Duration::from_secs(120)
			}
			fn run(&self, idx: u64, c: &mut Choices, ctx: &RunCtx) -> CaseOut
			{
				let mut out = CaseOut::default();
				let case: Case = $gen(c);
				judge(&case, idx % $det == 0, &mut out, ctx.want_sample);
				out
			}
		}
	};
}

stream!(MutatedCorpus, "mutated-corpus", 12_000, 150_000, 120, 10, mutgen::mutated_corpus);
stream!(FaultedPrograms, "faulted-programs", 8000, 100_000, 1800, 10, mutgen::faulted_program);
stream!(TokenSoup, "token-soup", 8000, 100_000, 200, 20, mutgen::token_soup);
stream!(Planted, "planted-character", 6000, 60_000, 1800, 20, mutgen::planted_lexical);

fn valid_module_set(c: &mut Choices) -> Case
{
	// importing modules: the order in which imported declarations are spliced
	// in must not depend on hash iteration order
	let prog = crate::progen::generate(c, crate::progen::Profile::exec());
	if prog.order.len() < 2
	{
		return mutgen::module_set(c);
	}
	let nfiles = 3 + c.draw(2);
	let split = crate::modsplit::split(c, &prog, nfiles);
	Case {
		files: crate::c12::render_files(&split),
		kind: "split-program",
		planted_at: None,
	}
}
fn semantic_fault(c: &mut Choices) -> Case
{
	use crate::ast::{print_program, Layout, Top};
	let mut prog = crate::progen::generate(c, crate::progen::Profile::exec());
	let (text, _code) = crate::c11::fault(c, &prog);
	prog.raws.push(text);
	let at = c.draw(prog.order.len() + 1);
	prog.order.insert(at, Top::Raw(0));
	let mut layout = Layout::random(c);
	layout.comments = 3;
	let src = print_program(&prog, layout, Some(c));
	Case {
		files: vec![("main.pn".into(), src)],
		kind: "semantic-fault",
		planted_at: None,
	}
}
/// a fault inside an expression (bit casts, lengths, addresses, strings,
/// indices, members, calls), so that diagnostics point at expressions
fn expression_fault(c: &mut Choices) -> Case
{
	use crate::ast::{print_program, Layout, Top};
	const FAULTS: &[&str] = &[
		"fn bad_cast_return()\n{\n\tvar y: i64 = 1;\n\treturn: cast y\n}",
		"fn bad_cast_sum() -> i32\n{\n\tvar y: u32 = 1;\n\tvar r: i32 = cast y as i32 + true;\n\treturn: r\n}",
		"fn bad_cast_mix() -> i32\n{\n\tvar y: u64 = 1;\n\tvar z: i32 = 2;\n\treturn: cast y + z\n}",
		"fn bad_cast_assign()\n{\n\tvar y: u64 = 1;\n\tvar z: bool = false;\n\tz = cast y;\n}",
		"fn bad_cast_arg() -> i32\n{\n\tvar y: u8 = 1;\n\treturn: bad_cast_mix(cast y)\n}",
		"fn bad_length() -> usize\n{\n\tvar x: i32 = 1;\n\treturn: |x|\n}",
		"fn bad_address()\n{\n\tvar x: i32 = 1;\n\tvar p: &i32 = &&x;\n}",
		"fn bad_string() -> i32\n{\n\treturn: \"caf\u{e9}\"\n}",
		"fn bad_index() -> i32\n{\n\tvar a: [2]i32 = [1, 2];\n\tvar i: u8 = 1;\n\treturn: a[i]\n}",
		"fn bad_member() -> i32\n{\n\tvar x: i32 = 1;\n\treturn: x.member\n}",
		"fn bad_negation() -> u8\n{\n\tvar x: u8 = 1;\n\treturn: -x\n}",
		"fn bad_arguments() -> i32\n{\n\treturn: bad_negation(1, 2)\n}",
		"fn bad_comparison() -> i32\n{\n\tvar x: i32 = 1;\n\tvar y: u8 = 2;\n\tif x == y\n\t{\n\t\tx = 2;\n\t}\n\treturn: x\n}",
		"fn bad_array() -> i32\n{\n\tvar a = [1u8, 2u16];\n\treturn: 0\n}",
		"fn bad_shift() -> i32\n{\n\tvar x: i32 = 1;\n\treturn: x << 2\n}",
		"fn bad_as() -> bool\n{\n\tvar x: i32 = 1;\n\treturn: x as bool\n}",
		"fn bad_sizeof() -> usize\n{\n\treturn: |:[]u8|\n}",
		"fn bad_deref() -> i32\n{\n\tvar x: i32 = 1;\n\tvar p: &i32 = &x;\n\tvar q: &&i32 = &&p;\n\treturn: &q\n}",
		// escapes in literals earlier on the line of the fault: the span of
		// what follows must not drift
		"fn bad_after_unicode_escape()\n{\n\tprint!(\"caf\\u{e9} \\u{20ac}\", undefined_total);\n}",
		"fn bad_after_byte_escapes()\n{\n\tprint!(\"a\\x41\\\"b\\n\\t\\0\", undefined_total);\n}",
		"fn bad_after_char_escapes()\n{\n\tprint!('\\n', '\\x7f', '\\'', undefined_total);\n}",
		"fn bad_after_multibyte_text()\n{\n\tprint!(\"\u{20ac}\u{20ac}\u{20ac}\u{20ac}\", undefined_total); // \u{e9}\n}",
	];
	let mut prog = crate::progen::generate(c, crate::progen::Profile::exec());
	let text = *c.pick(FAULTS);
	prog.raws.push(text.to_string());
	let at = c.draw(prog.order.len() + 1);
	prog.order.insert(at, Top::Raw(0));
	let mut layout = Layout::random(c);
	layout.comments = 3;
	let src = print_program(&prog, layout, Some(c));
	Case {
		files: vec![("main.pn".into(), src)],
		kind: "expression-fault",
		planted_at: None,
	}
}

/// a chain of one operator, one operand per line, exactly one operand of
/// another type: E551 belongs to the operator that joins it to the rest
fn operator_chain_fault(c: &mut Choices) -> Case
{
	use crate::ast::{print_program, Layout, Top};
	let op = *c.pick(&["+", "-", "*", "/", "%", "|", "&", "^"]);
	let types: &[&str] = if "|&^".contains(op) { &["u8", "u16", "u32", "u64"] } else { &["i8", "i16", "i32", "i64", "u8", "u16", "u32", "u64", "usize"] };
	let t = types[c.draw(types.len())];
	let u = types[(types.iter().position(|x| *x == t).unwrap() + 1 + c.draw(types.len() - 1)) % types.len()];
	let n = 3 + c.draw(4);
	let k = c.draw(n);
	let mut text = format!("fn bad_chain() -> {}\n{{\n", t);
	for i in 0..n
	{
		text.push_str(&format!("\tvar chain_operand_{}: {} = 1;\n", i, if i == k { u } else { t }));
	}
	text.push_str(&format!("\tvar chain_total: {} = chain_operand_0\n", t));
	for i in 1..n
	{
		text.push_str(&format!("\t\t{} chain_operand_{}\n", op, i));
	}
	text.push_str("\t\t;\n\treturn: chain_total\n}");
	let mut prog = crate::progen::generate(c, crate::progen::Profile::exec());
	prog.raws.push(text);
	let at = c.draw(prog.order.len() + 1);
	prog.order.insert(at, Top::Raw(0));
	let mut layout = Layout::random(c);
	layout.comments = 3;
	let src = print_program(&prog, layout, Some(c));
	let needle = format!("{} chain_operand_{}", op, k.max(1));
	let planted_at = src.find(&needle);
	Case {
		files: vec![("main.pn".into(), src)],
		kind: "operator-chain-fault",
		planted_at,
	}
}

/// a generated program with one type-breaking edit (C07's editor)
fn typed_edit(c: &mut Choices) -> Case
{
	use crate::ast::{print_program, Layout};
	let mut prog = crate::progen::generate(c, crate::progen::Profile::calls());
	let _ = crate::typedit::break_one_type(&mut prog, c);
	let mut layout = Layout::random(c);
	layout.comments = 3;
	let src = print_program(&prog, layout, Some(c));
	Case {
		files: vec![("main.pn".into(), src)],
		kind: "typed-edit",
		planted_at: None,
	}
}
/// cyclic constants and structures (C11's generator): the cycle diagnostics
/// name one of several declarations, and must name the same one every time
fn declaration_graph(c: &mut Choices) -> Case
{
	let g = crate::c11::dependency_graph(c, true);
	Case {
		files: vec![("main.pn".into(), g.src)],
		kind: "declaration-graph",
		planted_at: None,
	}
}
stream!(DeclarationGraphs, "declaration-graphs", 500, 20_000, 120, 1, declaration_graph);
stream!(ExpressionFaults, "planted-expression-fault", 8000, 100_000, 1800, 10, expression_fault);
stream!(OperatorChains, "operator-chains", 3000, 40_000, 1800, 20, operator_chain_fault);
stream!(TypedEdits, "typed-edits", 8000, 100_000, 1800, 10, typed_edit);
stream!(SemanticFaults, "planted-semantic-fault", 8000, 100_000, 1800, 10, semantic_fault);
stream!(ModuleSets, "module-sets", 1500, 30_000, 4000, 2, mutgen::module_set);
stream!(SplitPrograms, "split-programs-determinism", 800, 20_000, 1800, 1, valid_module_set);

struct EdgeFiles;
const EDGES: &[&str] = &[
	"",
	" ",
	"\n",
	"\t\n\n",
	"// only a comment",
	"\r\n\r\n",
	"fn main() -> i32\n{\n\treturn: nowhere\n}",
	"fn main() -> i32\n{\n\tgoto nowhere;\n\treturn: 0\n}\n",
	"fn main() -> i32\r\n{\r\n\tvar \u{20ac}: i32 = 1;\r\n\tgoto nowhere;\r\n\treturn: 0\r\n}\r\n",
	"// \u{e9}\u{e9}\u{e9}\r\n// \u{20ac}\r\nfn main() -> i32\r\n{\r\n\tundefined_call();\r\n\treturn: 0\r\n}\r\n",
	"fn main() -> i32\n{\n\tvar x: i32 = 1;\n\tvar x: i32 = 2;\n\treturn: x\n}\n",
	"fn main() -> i32\n{\n\treturn: 0\n}\n\nfn unfinished(",
	"fn main() -> i32\n{\n\tvar s = \"unclosed\n\treturn: 0\n}\n",
	"fn main() -> i32\n{\n\tvar s = \"trailing\\\n\treturn: 0\n}\n",
	"fn main() -> u8\n{\n\tvar x: u8 = 256;\n\tif x == 1\n\t{\n\t\tloop;\n\t}\n\treturn: 300\n}\n",
	"import \"missing.pn\";\n\nfn main() -> i32\n{\n\treturn: 0\n}\n",
	"fn main() -> i32\n{\n\treturn: 0\n}\n@",
	"fn f(a: i32, a: i32)\n{\n}\n\nstruct S\n{\n\tm: i32,\n\tm: i32,\n}\n\nconst K: i32 = 1;\n\nconst K: i32 = 2;\n",
];
impl Stream for EdgeFiles
{
	fn name(&self) -> String
	{
		"edge-files".into()
	}
	fn count(&self, _tier: Tier) -> u64
	{
		EDGES.len() as u64
	}
	fn exhaustive(&self) -> bool
	{
		true
	}
	fn run(&self, idx: u64, _c: &mut Choices, ctx: &RunCtx) -> CaseOut
	{
		let mut out = CaseOut::default();
		let case = Case {
			files: vec![("main.pn".into(), EDGES[idx as usize].to_string())],
			kind: "edge",
			planted_at: None,
		};
		judge(&case, true, &mut out, ctx.want_sample);
		out.key = idx;
		out.nontrivial = true;
		out
	}
}

impl Check for C13
{
	fn id(&self) -> &'static str
	{
		"C13"
	}
	fn rule(&self) -> String
	{
		"rejected (and lint-carrying) inputs from: byte/token-mutated corpus files, generated programs with 1-3 token edits in plain or random layout (CRLF, multi-byte comments), token soup, a single offending character planted before a random token of a generated program with multi-byte comments / CRLF before it, one of 13 ill-formed declarations planted into a generated program printed in a random layout with multi-byte comments, one of 22 functions with a fault inside an expression (bit casts, lengths, addresses, strings, indices, members, calls, array literals, shifts, casts) planted the same way, such operator chains planted the same way, generated programs with one type-breaking edit (C07's editor) in a random layout, cyclic dependency graphs of constants and structures (C11's generator; every case compiled again in two fresh processes), module sets with imports, correctly split multi-file programs, and 18 fixed edge files (empty, whitespace-only, fault on the last line / at EOF without newline, CRLF with multi-byte text). Oracle, for every diagnostic: (1) code in the published catalogue (docs/errors.md headings parsed live + 8 frozen codes); (2) primary location names a compiled file, 0 <= start <= end <= chars, and the line containing `start` is the reported line; (3) for undefined/duplicate-name variants the text at the span equals the name, for a planted character the span covers it; (3b) in a chain of 3-6 operands joined by one operator (+ - * / % | & ^), one operand per line, exactly one operand of another type, an E551 starts on the line of the operator that joins that operand to the rest; (4) build_report + Report::write succeeds (a panic of the renderer counts as failure) and the report rendered without colour contains the text of the reported source line for {colour on/off} x {unicode, ascii}, no ESC byte without colour, ASCII-only output for ASCII sources with ascii arrows; (4c) a file that does not end in a newline gets the same non-lexical diagnostics, locations and reports as the same file with a final newline; (5) on a sample (every 10th/20th case, every module set, every split program, every edge file) the case is compiled again in two fresh processes: verdict, ordered codes, locations, rendered text and all IR text must be identical. Non-trivial: diagnostic from the scoper or later, or on line >= 2 after a non-ASCII character or CR; distinct by source.".into()
	}
	fn assumptions(&self) -> Vec<String>
	{
		vec![
			"spans are char offsets (IndexType::Char, as StdOut::new chooses for the first generation)".into(),
			"'covers the offending text' is asserted only for the variants listed in (3)".into(),
			"inputs that crash the compiler are discarded here and counted (C02's subject)".into(),
		]
	}
	fn streams(&self) -> Vec<Box<dyn Stream>>
	{
		vec![
			Box::new(EdgeFiles),
			Box::new(MutatedCorpus),
			Box::new(FaultedPrograms),
			Box::new(TokenSoup),
			Box::new(Planted),
			Box::new(SemanticFaults),
			Box::new(ExpressionFaults),
			Box::new(OperatorChains),
			Box::new(DeclarationGraphs),
			Box::new(TypedEdits),
			Box::new(ModuleSets),
			Box::new(SplitPrograms),
		]
	}
}
