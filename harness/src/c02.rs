//! C02 — the compiler never crashes and never fails silently.

use crate::alpha;
use crate::choices::{fnv, Choices};
use crate::engine::*;
use crate::mutgen::{self, Case};
use serde_json::json;

pub struct C02;

pub fn files_json(files: &[(String, String)]) -> serde_json::Value
{
	json!(files.iter().map(|(n, s)| json!({"file": n, "source": s})).collect::<Vec<_>>())
}

/// lex .. analyse by hand (as Compiler::analyze_and_resolve does, without
/// sorting and without IR generation): does any node still carry an error?
fn analysed_tree_carries_an_error(src: &str) -> Option<String>
{
	use penne::alpha::*;
	let d = parser::parse(lexer::lex(src, "main.pn"));
	let d = expander::expand_one("main.pn", d);
	let d = scoper::analyze(d);
	let mut typer = typer::Typer::default();
	let mut analyzer = analyzer::Analyzer::default();
	for x in &d
	{
		typer.forward_declare_structure(x);
	}
	let d: Vec<_> = d.into_iter().map(|x| typer.declare(x)).collect();
	for x in &d
	{
		analyzer.declare(x);
	}
	for x in d
	{
		let x = typer.analyze(x);
		let x = analyzer.analyze(x);
		let dump = format!("{:?}", x);
		// (lengths named by constants are not known here, because no IR is
		// generated: that error is an artefact of doing the stages by hand)
		if dump.matches("Error(").count() > dump.matches("Error(NotACompileTimeConstant").count()
		{
			// which error, and under which kind of node: `Error(Variant {` and
			// the nearest node name before it
			let at = dump
				.match_indices("Error(")
				.map(|(i, _)| i)
				.find(|i| !dump[*i..].starts_with("Error(NotACompileTimeConstant"))
				.unwrap_or(0);
			let variant: String = dump[at + 6..].chars().take_while(|c| c.is_alphanumeric()).collect();
			const NODES: &[&str] = &[
				"TypeCast", "BitCast", "Element", "FunctionCall", "Binary", "Unary", "Assignment", "Declaration",
				"ArrayLiteral", "Structural", "Deref", "LengthOfArray", "SizeOf", "Comparison", "Member",
				"Parenthesized", "MethodCall", "If", "Block",
			];
			let nearest = |upto: usize| {
				NODES
					.iter()
					.filter_map(|n| dump[..upto].rfind(&format!("{} {{", n)).map(|i| (i, *n)))
					.max()
			};
			let (at1, node) = nearest(at).unwrap_or((0, "?"));
			// ... and the node opened before that one (usually its parent)
			let outer = nearest(at1).map(|(_, n)| n).unwrap_or("?");
			return Some(format!("{} under {} after {}", variant, node, outer));
		}
	}
	None
}

/// the source without its functions (definitions and heads)
fn strip_functions(src: &str) -> String
{
	let toks = crate::reflex::lex(src.as_bytes()).toks;
	let text = |k: usize| src.get(toks[k].start..toks[k].end).unwrap_or("");
	let mut out = String::new();
	let mut keep_from = 0usize;
	let mut depth = 0i32;
	let mut i = 0;
	while i < toks.len()
	{
		let t = text(i);
		match t
		{
			"{" | "(" | "[" => depth += 1,
			"}" | ")" | "]" => depth -= 1,
			_ => (),
		}
		if depth == 0 && t == "fn"
		{
			// the item starts at the run of `pub` / `extern` before it
			let mut first = i;
			while first > 0 && matches!(text(first - 1), "pub" | "extern")
			{
				first -= 1;
			}
			// and ends at `;` or at the brace that closes its body
			let mut j = i + 1;
			let mut d = 0i32;
			let mut end = toks.len();
			while j < toks.len()
			{
				match text(j)
				{
					"(" | "[" => d += 1,
					")" | "]" => d -= 1,
					"{" => d += 1,
					"}" =>
					{
						d -= 1;
						if d == 0
						{
							end = j + 1;
							break;
						}
					}
					";" if d == 0 =>
					{
						end = j + 1;
						break;
					}
					_ => (),
				}
				j += 1;
			}
			out.push_str(&src[keep_from..toks[first].start]);
			keep_from = if end < toks.len() { toks[end].start } else { src.len() };
			i = end;
			continue;
		}
		i += 1;
	}
	if keep_from < src.len()
	{
		out.push_str(&src[keep_from..]);
	}
	out
}

/// deepest bracket nesting of a source (brackets in literals and comments
/// count too: an over-estimate)
fn nesting_depth(src: &str) -> usize
{
	let (mut d, mut max) = (0usize, 0usize);
	for b in src.bytes()
	{
		match b
		{
			b'(' | b'[' | b'{' =>
			{
				d += 1;
				max = max.max(d);
			}
			b')' | b']' | b'}' => d = d.saturating_sub(1),
			_ => (),
		}
	}
	max
}

fn judge(case: &Case, out: &mut CaseOut, want_sample: bool)
{
	// the property is stated for nesting up to 256
	let depth = case.files.iter().map(|(_, s)| nesting_depth(s)).max().unwrap_or(0);
	if depth > 256 && case.kind != "deep-nesting"
	{
		out.discarded = Some("nesting deeper than the stated bound of 256".into());
		return;
	}
	if depth >= 150 && case.kind != "deep-nesting"
	{
		// (the recorded stack overflow of deeply nested ifs applies here too)
		note_case_class("nesting 150-256 deep");
	}
	let o = alpha::compile_modules(
		&case.files,
		alpha::Options {
			want_ir: true,
			link: true,
			..Default::default()
		},
	);
	let mut h = String::new();
	for (_, s) in &case.files
	{
		h.push_str(s);
		h.push('\0');
	}
	out.key = fnv(&h);
	out.class(format!("stage:{}", o.stage));
	out.class(if o.ok { "verdict:accepted" } else { "verdict:rejected" });
	out.nontrivial = o.stage != "surface" || case.files.len() > 1;
	if let Some(e) = &o.internal_error
	{
		let head: String = e.chars().take(60).map(|c| if c.is_ascii_digit() { '#' } else { c }).collect();
		out.fail(
			format!("failure without diagnostics: internal error {}", head),
			json!({"files": files_json(&case.files), "error": e}),
		);
	}
	else if !o.ok && o.codes.is_empty()
	{
		// one recorded finding has this symptom (element types of a nested
		// array literal that do not agree): keep it apart from anything else
		// Where does the silent failure sit? Compile the declarations alone
		// (every function removed): still silent => among the declarations;
		// otherwise a function is needed. One recorded finding (errors found
		// only by the typer's pre-analysis of a function body are lost) has
		// the second form; the first form is always something else.
		let stripped: Vec<(String, String)> = case.files.iter().map(|(n, s)| (n.clone(), strip_functions(s))).collect();
		let o2 = alpha::compile_modules(&stripped, alpha::Options::default());
		let among_declarations = !o2.ok && o2.codes.is_empty() && o2.internal_error.is_none();
		// And is the error still somewhere in the analysed tree (then the
		// resolver drops it), or is it gone before resolution (the recorded
		// finding: found only in a discarded pre-analysis pass)?
		let carried = if case.files.len() == 1 { analysed_tree_carries_an_error(&case.files[0].1) } else { None };
		let class = if among_declarations
		{
			"among the declarations".to_string()
		}
		else if let Some(what) = carried
		{
			format!("an error in the analysed tree is not reported: {}", what)
		}
		else
		{
			"needs a function body".to_string()
		};
		out.fail(
			format!("failure with an empty list of errors (stage {}) [{}]", o.stage, class),
			json!({"files": files_json(&case.files)}),
		);
	}
	if want_sample
	{
		out.sample = Some(json!({"files": files_json(&case.files), "result": o.summary()}));
	}
}

macro_rules! stream {
	($name:ident, $label:expr, $quick:expr, $thorough:expr, $clen:expr, $gen:expr) => {
		struct $name;
		impl Stream for $name
		{
			fn name(&self) -> String
			{
				$label.into()
			}
			fn count(&self, tier: Tier) -> u64
			{
				tier.pick($quick, $thorough)
			}
			fn choice_len(&self) -> usize
			{
				$clen
			}
			fn stride(&self) -> u64
			{
				8
			}
			fn timeout(&self) -> std::time::Duration
			{
				std::time::Duration::from_secs(120)
			}
			fn run(&self, _idx: u64, c: &mut Choices, ctx: &RunCtx) -> CaseOut
			{
				let mut out = CaseOut::default();
				let case: Case = $gen(c);
				judge(&case, &mut out, ctx.want_sample);
				out
			}
		}
	};
}

stream!(MutatedCorpus, "mutated-corpus", 80_000, 800_000, 120, mutgen::mutated_corpus);
stream!(FaultedPrograms, "faulted-programs", 40_000, 400_000, 1800, mutgen::faulted_program);
stream!(TokenSoup, "token-soup", 80_000, 800_000, 200, mutgen::token_soup);
stream!(ModuleSets, "module-sets", 12_000, 120_000, 4000, mutgen::module_set);

fn structured_body(c: &mut Choices) -> Case
{
	// statement trees of the scope / placement checks: what the front end lets
	// through must also survive IR generation and LLVM's verifier
	// (half random trees, half drawn from the exhaustive enumerations of the
	// three checks, whose bodies are otherwise well formed)
	let src = match c.draw(6)
	{
		0 => crate::c04::random_source(c),
		1 => crate::c05::random_source(c),
		2 => crate::c06::random_source(c),
		3 => crate::c04::enumerated_source(c),
		4 => crate::c05::enumerated_source(c),
		_ => crate::c06::enumerated_source(c),
	};
	Case {
		files: vec![("main.pn".into(), src)],
		kind: "structured-body",
		planted_at: None,
	}
}

fn declaration_graph(c: &mut Choices) -> Case
{
	let plant = c.chance(2, 3);
	let g = crate::c11::dependency_graph(c, plant);
	Case {
		files: vec![("main.pn".into(), g.src)],
		kind: "declaration-graph",
		planted_at: None,
	}
}

stream!(StructuredBodies, "structured-bodies", 90_000, 900_000, 200, structured_body);
stream!(DeclarationGraphs, "declaration-graphs", 20_000, 200_000, 120, declaration_graph);

struct Exhaustive;
impl Exhaustive
{
	fn max_len(tier: Tier) -> u32
	{
		tier.pick(3, 4) as u32
	}
}
impl Stream for Exhaustive
{
	fn name(&self) -> String
	{
		"exhaustive-token-sequences".into()
	}
	fn count(&self, tier: Tier) -> u64
	{
		mutgen::exhaustive_count(Self::max_len(tier))
	}
	fn exhaustive(&self) -> bool
	{
		true
	}
	fn stride(&self) -> u64
	{
		64
	}
	fn run(&self, idx: u64, _c: &mut Choices, ctx: &RunCtx) -> CaseOut
	{
		let mut out = CaseOut::default();
		let case = mutgen::exhaustive_sequence(idx, Self::max_len(ctx.tier));
		judge(&case, &mut out, ctx.want_sample || idx % 200_003 == 5);
		out.key = idx;
		out
	}
}

/// nesting up to the stated bound (256) in every recursive construct
struct DeepNesting;
const NEST_KINDS: &[&str] = &["blocks", "ifs", "else-if chain", "parentheses", "unary minus", "negation", "address-of", "index", "calls", "array type", "pointer type", "array literal"];
const NEST_DEPTHS: &[usize] = &[8, 16, 24, 32, 48, 64, 96, 128, 192, 256];
/// runs of `&` are not nesting (they are counted, the limit is E390): around
/// the limit and around the width of the counter
const RUN_KINDS: &[&str] = &["address run in an expression", "address run in a length", "address run before an assignment"];
const RUN_LENGTHS: &[usize] = &[126, 127, 128, 129, 254, 255, 256, 257, 258, 300, 511, 512, 513, 1000];
impl Stream for DeepNesting
{
	fn name(&self) -> String
	{
		"deep-nesting".into()
	}
	fn count(&self, _tier: Tier) -> u64
	{
		(NEST_KINDS.len() * NEST_DEPTHS.len() + RUN_KINDS.len() * RUN_LENGTHS.len()) as u64
	}
	fn exhaustive(&self) -> bool
	{
		true
	}
	fn crash_sig_per_stream(&self) -> Option<bool>
	{
		Some(true)
	}
	fn timeout(&self) -> std::time::Duration
	{
		std::time::Duration::from_secs(60)
	}
	fn run(&self, idx: u64, _c: &mut Choices, ctx: &RunCtx) -> CaseOut
	{
		let mut out = CaseOut::default();
		let nests = NEST_KINDS.len() * NEST_DEPTHS.len();
		let (kind, d) = if (idx as usize) < nests
		{
			(NEST_KINDS[idx as usize / NEST_DEPTHS.len()], NEST_DEPTHS[idx as usize % NEST_DEPTHS.len()])
		}
		else
		{
			let k = idx as usize - nests;
			(RUN_KINDS[k / RUN_LENGTHS.len()], RUN_LENGTHS[k % RUN_LENGTHS.len()])
		};
		if (idx as usize) < nests
		{
			note_case_class(&format!("{} nested {} deep", kind, d));
		}
		else
		{
			note_case_class(&format!("{} of {}", kind, d));
		}
		let rep = |s: &str| s.repeat(d);
		let src = match kind
		{
			"address run in an expression" => format!("fn main() -> i32\n{{\n\tvar y: i32 = 1;\n\tvar x = {}y;\n\treturn: 0\n}}\n", rep("&")),
			"address run in a length" => format!("fn main() -> i32\n{{\n\tvar y: [2]i32 = [1, 2];\n\tvar x: usize = |{}y|;\n\treturn: 0\n}}\n", rep("&")),
			"address run before an assignment" => format!("fn main() -> i32\n{{\n\tvar y: i32 = 1;\n\tvar z: i32 = 2;\n\t{}y = z;\n\treturn: 0\n}}\n", rep("&")),
			"blocks" => format!("fn main() -> i32\n{{\n\tvar x: i32 = 0;\n{}x = x + 1;\n{}\treturn: x\n}}\n", rep("{\n"), rep("}\n")),
			"ifs" => format!("fn main() -> i32\n{{\n\tvar x: i32 = 0;\n{}x = x + 1;\n{}\treturn: x\n}}\n", rep("if x == 0\n{\n"), rep("}\n")),
			"else-if chain" => format!("fn main() -> i32\n{{\n\tvar x: i32 = 0;\n\tif x == 1\n\t{{\n\t}}\n{}\treturn: x\n}}\n", rep("\telse if x == 2\n\t{\n\t\tx = 3;\n\t}\n")),
			"parentheses" => format!("fn main() -> i32\n{{\n\tvar x: i32 = {}1{};\n\treturn: x\n}}\n", rep("("), rep(")")),
			"unary minus" => format!("fn main() -> i32\n{{\n\tvar y: i32 = 1;\n\tvar x: i32 = {}y;\n\treturn: x\n}}\n", rep("- ")),
			"negation" => format!("fn main() -> i32\n{{\n\tvar y: u32 = 1;\n\tvar x: u32 = {}y;\n\treturn: 0\n}}\n", rep("!")),
			"address-of" => format!("fn main() -> i32\n{{\n\tvar y: i32 = 1;\n\tvar x = {}y;\n\treturn: 0\n}}\n", rep("&")),
			"index" => format!("fn main() -> i32\n{{\n\tvar a: [2]usize = [0, 1];\n\tvar x: usize = {}0{};\n\treturn: 0\n}}\n", rep("a["), rep("]")),
			"calls" => format!("fn f(v: i32) -> i32\n{{\n\treturn: v\n}}\n\nfn main() -> i32\n{{\n\tvar x: i32 = {}1{};\n\treturn: x\n}}\n", rep("f("), rep(")")),
			"array type" => format!("fn main() -> i32\n{{\n\tvar x: {}i32;\n\treturn: 0\n}}\n", rep("[1]")),
			"pointer type" => format!("fn f(x: {}i32)\n{{\n}}\n", rep("&")),
			_ => format!("fn main() -> i32\n{{\n\tvar x = {}1{};\n\treturn: 0\n}}\n", rep("["), rep("]")),
		};
		let case = Case {
			files: vec![("main.pn".into(), src)],
			kind: "deep-nesting",
			planted_at: None,
		};
		judge(&case, &mut out, ctx.want_sample && d <= 16);
		out.key = idx;
		out.nontrivial = true;
		out
	}
}

/// fixed inputs for recorded defects, so that they stay visible while the
/// generators avoid them
const PROBES: &[(&str, &[(&str, &str)])] = &[
	(
		"two modules define main",
		&[("a.pn", "fn main() -> i32\n{\n\treturn: 1\n}\n"), ("b.pn", "fn main() -> i32\n{\n\treturn: 0\n}\n")],
	),
	(
		"private structures of the same name in two modules",
		&[
			("b.pn", "struct Pair\n{\n\tonly: u8,\n}\n\nfn main() -> i32\n{\n\tvar p = Pair { only: 7 };\n\tprint!(p.only, \"\\n\");\n\treturn: 0\n}\n"),
			("a.pn", "struct Pair\n{\n\tleft: i32,\n\tright: i32,\n}\n\nfn first() -> i32\n{\n\tvar p = Pair { left: 1, right: 2 };\n\treturn: p.right\n}\n"),
		],
	),
	(
		"slice pointer parameter passed on as a view",
		&[("a.pn", "fn use_slice(data: []i32);\n\nfn use_slice_ptr(data: &[]i32)\n{\n\tuse_slice(data);\n}\n")],
	),
	(
		"print! of an array",
		&[("a.pn", "fn main() -> u8\n{\n\tvar one: []i32 = [200];\n\tprint!(one, \"\\n\");\n\treturn: 0\n}\n")],
	),
	(
		"the value of panic!() cast and compared",
		&[("a.pn", "fn main() -> i32\n{\n\tif panic!() as u64 == 0\n\t{\n\t}\n\treturn: 0\n}\n")],
	),
	(
		"the value of panic!() as an initialiser",
		&[("a.pn", "fn f2() -> i32\n{\n\tvar r: u8 = panic!();\n\treturn: 0\n}\n")],
	),
	(
		"the value of panic!() as the operand of a unary operator",
		&[("a.pn", "fn f1() -> u16\n{\n\tvar v3: u16 = !panic!(0i8 as u16);\n\treturn: 0\n}\n")],
	),
	(
		"the value of panic!() as a return value",
		&[("a.pn", "fn m0f0(q3: i32) -> i32\n{\n\treturn: panic!(17i8 as i32)\n}\n")],
	),
	(
		"rows of different lengths in a two-dimensional array literal",
		&[("a.pn", "fn main() -> i32\n{\n\tvar grid: [2][3]i32 = [\n\t\t[1, 2, 3],\n\t\t[4, 5- 6],\n\t];\n\treturn: grid[0][0]\n}\n")],
	),
];

struct Probes;
impl Stream for Probes
{
	fn name(&self) -> String
	{
		"known-defect-probes".into()
	}
	fn count(&self, _tier: Tier) -> u64
	{
		PROBES.len() as u64
	}
	fn exhaustive(&self) -> bool
	{
		true
	}
	fn crash_sig_per_stream(&self) -> Option<bool>
	{
		Some(true)
	}
	fn run(&self, idx: u64, _c: &mut Choices, ctx: &RunCtx) -> CaseOut
	{
		let mut out = CaseOut::default();
		let (what, files) = PROBES[idx as usize];
		let case = Case {
			files: files.iter().map(|(n, s)| (n.to_string(), s.to_string())).collect(),
			kind: "probe",
			planted_at: None,
		};
		judge(&case, &mut out, ctx.want_sample);
		for f in out.failures.iter_mut()
		{
			f.sig = format!("{} [probe: {}]", f.sig, what);
		}
		out.key = idx;
		out.nontrivial = true;
		out
	}
}

impl Check for C02
{
	fn id(&self) -> &'static str
	{
		"C02"
	}
	fn crash_sig_per_stream(&self) -> bool
	{
		false
	}
	fn source_level(&self, stream: &str) -> bool
	{
		stream != "known-defect-probes"
	}
	fn judge_source(&self, _stream: &str, files: &[(String, String)], _ctx: &RunCtx) -> Option<CaseOut>
	{
		let mut out = CaseOut::default();
		if !files.is_empty()
		{
			let case = Case { files: files.to_vec(), kind: "source", planted_at: None };
			judge(&case, &mut out, false);
		}
		Some(out)
	}
	fn rule(&self) -> String
	{
		"valid UTF-8 sources <= 64 KiB, nesting <= 256: (a) repository corpus files (357) pristine, byte-mutated or with 1-3 token edits (delete, duplicate, swap, replace by / insert a random Penne token, stray bracket); (b) generated well-typed programs in plain or random layout with 1-3 token edits; (c) token soup over 67 Penne tokens, bare, inside a function body or in expression position; (d) EVERY token sequence of length <= 3 (quick) / <= 4 (thorough) over a 24-token alphabet in three templates (top level, function body, initialiser expression) — exhaustive; (f) random statement trees, and bodies drawn from the exhaustive enumerations, of the goto / scope / loop-placement checks (C04-C06 generators: labels, gotos, declarations, uses, blocks, naked and braced branches, loops) and (g) random dependency graphs of constants and structures with and without cycles (C11 generator), all compiled down to IR; (h) 12 recursive constructs (blocks, ifs, else-if chains, parentheses, unary operators, address-of, indices, calls, array and pointer types, array literals) nested 8-256 deep — exhaustive over 10 depths — and runs of 126-1000 `&` in an expression, a length and before an assignment (the counter's limit is E390); (e) sets of 2-3 modules drawn from the other streams with imports of each other, of themselves and of a missing file, compiled through one Compiler in the order of src/main.rs. Oracle: the whole pipeline lex..generate_ir..link in an isolated worker ends in success with IR or in failure with >= 1 diagnostic; a panic, LLVM abort, stack overflow, segfault (by site), an Err(anyhow) from the generator, or an empty error list is a failure. Non-trivial: the input got past lexing and parsing (failure, if any, is semantic), or it is a module set; distinct by source.".into()
	}
	fn assumptions(&self) -> Vec<String>
	{
		vec![
			"hangs are observed up to the per-block watchdog only (exit 2, never reported as a violation)".into(),
			"inputs beyond the stated size/depth bounds are out of scope (the parser is recursive by design)".into(),
		]
	}
	fn streams(&self) -> Vec<Box<dyn Stream>>
	{
		vec![
			Box::new(MutatedCorpus),
			Box::new(FaultedPrograms),
			Box::new(TokenSoup),
			Box::new(Exhaustive),
			Box::new(ModuleSets),
			Box::new(StructuredBodies),
			Box::new(DeclarationGraphs),
			Box::new(DeepNesting),
			Box::new(Probes),
		]
	}
}
