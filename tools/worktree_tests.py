#!/usr/bin/env python3
"""(for a scratch worktree given as argv[1]) Run the repository's pinned baseline (hooks OFF) and compare with /root/.vp/BASELINE.json.
Exit 0 iff every test of stable_pass passes."""
import json, re, subprocess, sys, os
base = json.load(open('/root/.vp/BASELINE.json'))
want = set(base['stable_pass'])
env = dict(os.environ)
env.pop('RUSTFLAGS', None)
env['CARGO_NET_OFFLINE'] = 'true'
p = subprocess.run(['cargo', 'test', '--workspace', '--no-fail-fast', '--offline'], cwd=sys.argv[1],
                   env=env, stdout=subprocess.PIPE, stderr=subprocess.STDOUT, text=True)
cur = None
passed = set()
failed = set()
for line in p.stdout.splitlines():
    m = re.search(r'Running (?:unittests )?(\S+)', line)
    if m:
        f = m.group(1)
        cur = os.path.splitext(os.path.basename(f))[0]
        if cur in ('lib', 'main'):
            cur = None
        continue
    m = re.match(r'test (\S+) \.\.\. (\w+)', line)
    if m:
        name = 'penne::%s::%s' % (cur, m.group(1)) if cur else 'penne::' + m.group(1)
        (passed if m.group(2) == 'ok' else failed).add(name)
missing = sorted(want - passed)
print('baseline: %d/%d stable tests pass (%d passed, %d failed overall)' % (len(want & passed), len(want), len(passed), len(failed)))
for m in missing:
    print('  NOT PASSING:', m)
sys.exit(0 if not missing else 1)
