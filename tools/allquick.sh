#!/bin/bash
# usage: tools/allquick.sh <seed>...   run every quick tier under the given seeds (development aid)
cd "$(dirname "$0")/.."
for s in "$@"; do
	for i in 01 02 03 04 05 06 07 08 09 10 11 12 13 14 15 16 17 18 19 20; do
		out=$(VERIF_SEED=$s PV_NO_SHRINK=${PV_NO_SHRINK:-1} ./check C$i quick 2>&1)
		code=$?
		echo "seed=$s exit=$code $(echo "$out" | grep "^\[C$i\] tier" | tail -1)"
		echo "$out" | grep "new failure signature\|watchdog\|build failed" | head -5
	done
done
