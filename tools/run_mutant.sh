#!/bin/bash
# usage: tools/run_mutant.sh <seeded-name> <check-ID>...
# Applies /verif/seeded/<name>/patch.diff to /repo, runs the quick tier of the
# given checks, and undoes the change straight afterwards. Results go to
# /verif/seeded/<name>/run-<ID>.log ; prints one line per check.
NAME="$1"; shift
D=/verif/seeded/$NAME
[ -z "$(git -C /repo status --porcelain)" ] || { echo "/repo is not clean"; exit 2; }
git -C /repo apply "$D/patch.diff" || exit 2
trap 'git -C /repo checkout -q -- .' EXIT
for ID in "$@"; do
	VERIF_SEED=${VERIF_SEED:-0} /verif/check "$ID" ${TIER:-quick} > "$D/run-$ID.log" 2>&1
	code=$?
	v=$(grep -c "^VIOLATION" "$D/run-$ID.log")
	echo "$NAME $ID exit=$code violations=$v $(grep '^\[' "$D/run-$ID.log" | grep 'new failure signature' | head -3 | sed 's/.*signature: //' | tr '\n' ';' | cut -c1-300)"
done
