#!/usr/bin/env python3
"""Regenerates /verif/MANIFEST.json from the table below (kept valid at all times)."""
import json, subprocess, os
ROOT = os.path.dirname(os.path.dirname(os.path.abspath(__file__)))
ALL = ["C%02d" % i for i in range(1, 21)]
CHECKS = {
 "C14": dict(cat="exploration", sec="4 (C14)", technique="exhaustive small-scope + grammar-based generation, three-way differential (alpha lexer / delta lexer / independent reference lexer), proptest choice-vector shrinking",
   text="Every string of length <= 3 (quick) / <= 4 (thorough) over a 48-symbol alphabet, plus generated token streams with generator-known expected tokens and planted malformed lexemes, are lexed by both real lexers and by an independent reference lexer; kinds, payloads, suffix types, byte spans, lines and error codes must agree. Held-on-everything-explored, exhaustive within the stated small scope.",
   note="Trusted: the reference lexer (harness/src/reflex.rs) as a reading of docs/errors.md; normalisations listed in the evidence assumptions."),
}
NOT_YET = "check not built yet in this revision of the framework (planned in DESIGN.md section 4)"
hooks_commits = subprocess.run(["git", "-C", "/repo", "log", "--format=%H %s"], capture_output=True, text=True).stdout.splitlines()
hook_shas = [l.split()[0] for l in hooks_commits if "verif hook" in l]
m = {
 "version": 1,
 "setup_cmd": "./check --setup",
 "hooks": {
   "guard": "--cfg penne_verif",
   "enable": "RUSTFLAGS=\"--cfg penne_verif\" (set by ./check; the harness crate depends on /repo by path with features alpha,llvm-sys, so every check rebuilds penne from /repo's working tree)",
   "baseline_off_cmd": "python3 /verif/tools/baseline.py",
   "source_commits": hook_shas,
   "add_only": True,
 },
 "engines": [
   {"name": "pv", "path": "harness/", "serves_properties": sorted(CHECKS), "kind_free_text": "Rust harness: proptest-generated choice vectors decoded into programs/inputs, exhaustive small-scope enumerations, reference models and differential oracles; batch worker subprocesses with crash isolation; proptest value-tree shrinking; replay files"},
 ],
 "checks": [],
 "not_applicable": [],
 "notes": "exit 0 = held on everything explored (KNOWN-FINDING lines for entries of known_findings.json), exit 1 = VIOLATION lines, exit 2 = inconclusive (build failure / watchdog).",
}
for pid in ALL:
    if pid in CHECKS:
        c = CHECKS[pid]
        m["checks"].append({
          "property_id": pid,
          "quick_cmd": "./check %s quick" % pid,
          "thorough_cmd": "./check %s thorough" % pid,
          "evidence_file": "/verif/evidence/%s.json" % pid,
          "replay_cmd_template": "./check %s --replay {path}" % pid,
          "engine": "pv",
          "level_claimed": {"category": c["cat"], "text": c["text"], "design_ref": c["sec"]},
          "level_note": c["note"],
          "technique": c["technique"],
        })
    else:
        m["not_applicable"].append({"property_id": pid, "reason": NOT_YET})
json.dump(m, open(os.path.join(ROOT, "MANIFEST.json"), "w"), indent=1)
print("checks:", len(m["checks"]), "not_applicable:", len(m["not_applicable"]))
