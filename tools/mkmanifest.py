#!/usr/bin/env python3
"""Regenerates /verif/MANIFEST.json from the table below (kept valid at all times)."""
import json, subprocess, os
ROOT = os.path.dirname(os.path.dirname(os.path.abspath(__file__)))
ALL = ["C%02d" % i for i in range(1, 21)]
CHECKS = {
 "C01": dict(cat="translation_validation", sec="4 (C01)", technique="type-directed program generation (proptest choice vectors) + differential testing of compiled IR under lli against an independent reference interpreter; metamorphic layout variation; choice-vector shrinking",
   text="Each generated well-typed, terminating, UB-free program is printed in a plain and in a randomised layout, compiled through the real first-generation pipeline and executed with lli; full stdout and the exit status must equal the reference interpreter's for both layouts, and any rejection of a generated program is a failure.",
   note="Trusted: the reference interpreter (self-checked against native Rust arithmetic in the same check), lli-14, and the soundness of the generator's UB exclusion (re-checked by the interpreter; UB cases are discarded and counted)."),
 "C02": dict(cat="exploration", sec="4 (C02)", technique="mutation-based and grammar-based input generation (corpus mutation, token faults on generated programs, token soup, exhaustive short token sequences in three templates, module sets, statement trees of the scope/placement checks, declaration dependency graphs) against a crash/silent-failure oracle in isolated worker processes; crash signatures by panic site / LLVM complaint / faulting function",
   text="Every generated source or module set is pushed through the complete first-generation pipeline (lex .. generate_ir .. link) inside a worker process; the only accepted outcomes are success with IR or failure with at least one diagnostic. Panics, LLVM aborts, linker exits, segmentation faults, stack overflows, Err(anyhow) and empty error lists are failures, bucketed by site; a failure with an empty error list is classed by whether the declarations alone reproduce it. Failing cases are shrunk on the choice vector and then reduced at source level (files, lines, tokens).",
   note="Hangs are only observed up to a watchdog (exit 2). Recorded crash classes are excluded by signature and exercised by fixed probes."),
 "C03": dict(cat="translation_validation", sec="4 (C03)", technique="generated modules, generated programs split over 2-4 modules, and corpus modules compiled through the real pipeline; emitted IR text validated by independent LLVM tools (opt -passes=verify, llvm-as) plus a definition/linkage scan against the generator's AST",
   text="For every accepted module and module set (generated executable and compile-only modules incl. extern heads/exports, never-returning functions, modules without main, wasm32; and every repository sample that compiles alone) the per-module IR and the linked IR must be accepted by opt-14 -passes=verify and llvm-as-14 as separate processes, define each source function exactly once, keep main/pub functions externally visible and declare function heads.",
   note="Trusted: LLVM 14 tools as the definition of valid IR. Samples that crash the compiler are discarded here (C02's subject) and counted."),
 "C04": dict(cat="exploration", sec="4 (C04)", technique="exhaustive small-scope enumeration (ranking/unranking of statement trees) + random trees, decided against an independent reference model of reverse label scope; proptest shrinking",
   text="Every function body of <= 5 (quick) / <= 6 (thorough) statement nodes over labels, gotos, if-gotos, blocks and if/else blocks (plus random bodies of 40 nodes) is compiled; the exact multiset of E400/E420 and the verdict must equal the prediction of an independent model of 'forward and outward only'. Both directions: bad jumps rejected, good ones accepted.",
   note="Trusted: the label-scope model in harness/src/c04.rs (a restatement of docs/features.md). Exhaustive only within the stated size."),
 "C05": dict(cat="exploration", sec="4 (C05)", technique="exhaustive small-scope enumeration + random and structured generation; two independent oracles: positional static scope model, and a scope-aware reference interpreter run on every accepted body (plus lli execution of a sample)",
   text="Bodies with declarations, uses, labels and (conditional) gotos in every arrangement are compiled; the set of scoping codes {E402,E422,E482} and the verdict must match a positional model, and every accepted body is interpreted for both parameter values by an interpreter that fails when a read reaches a variable whose declaration did not execute.",
   note="Trusted: static model and interpreter in harness/src/c05.rs. Codes compared as sets. Label-invalid bodies are discarded and counted."),
 "C06": dict(cat="exploration", sec="4 (C06)", technique="exhaustive small-scope enumeration of statement trees with naked branches and else-if chains + random trees, against a recursive reference predicate; exact multiset of codes and lints",
   text="Every statement tree of <= 6 (quick) / <= 7 (thorough) nodes over assignment, goto, loop, label, block, if/else with arbitrary (also naked) branches is compiled; the multiset of E800/E801/E840 and, for accepted programs, of L1800 must equal the reference predicate's.",
   note="Trusted: reference predicate in harness/src/c06.rs. Trees without concrete syntax (dangling else) are discarded and counted."),
 "C07": dict(cat="exploration", sec="4 (C07)", technique="exhaustive operator x type x type matrix, cast/unary matrix, pointer/structure operator matrix, templated typed edits with known codes, single type-breaking edits of generated well-typed programs at sites with a fixed required type, and an invariant walker over the compiler's resolved trees for generated programs",
   text="All 2704 operator/type/type cells and 195 cast/unary cells are compiled: documented cells must be accepted, every mixed-type or wrong-class cell rejected with E550/E551/E552; 20 kinds of typed edits over random type pairs must be rejected with their E5xx/E333 code; a generated program with one sub-expression (call argument in any position, structure argument, typed initialiser, return value, right operand, index, literal member) replaced by a literal of another type must be rejected with a typing code; of all operators on two pointers or two structures only == and != of pointers are accepted; in every accepted program the recorded types on both sides of each operator, comparison, initialisation, argument and return are identical and each operator is applied to its documented class.",
   note="Cells the documentation does not settle are executed but not asserted. The walker trusts the types recorded by the compiler in resolved::Expression."),
 "C08": dict(cat="exploration", sec="4 (C08)", technique="call-heavy generated programs compared with the aliasing-aware reference interpreter; 34 templated illegal mutations/copies over 11 types next to their legal pointer-based twins; fixed control programs",
   text="Programs whose functions take value, view, slice-pointer, pointer, pointer-to-struct and pointer-to-pointer parameters and write through reference chains are run and their complete visible state compared with the interpreter (caller variables change only where `&` was written); every illegal mutation or whole-aggregate copy shape must be rejected with E530-E533/E513.",
   note="Trusted: interpreter's model of views (read-only aliases) and pointers. Recorded typer defects restrict which places are assigned (see DESIGN.md)."),
 "C09": dict(cat="exploration", sec="4 (C09)", technique="combinatorial + random generation of literals (type x value class x spelling x context), executed and compared with a documentation-derived spec function; exhaustive char byte sweep; lint attribution by source line",
   text="Integer literals of every integer type at and around every width boundary, in every spelling and in eight syntactic contexts, all 256 char values in three spellings, random byte strings in mixed escape spellings with adjacent-literal concatenation, and 56 malformed forms are compiled; representable values must be accepted without L1142 and print exactly their value, unrepresentable ones must raise L1142 on their line, malformed ones must be rejected with their documented code.",
   note="Trusted: the spec function in harness/src/c09.rs (value-based range rule). Printed values of out-of-range literals are not asserted."),
 "C10": dict(cat="translation_validation", sec="4 (C10)", technique="generated constant expressions evaluated three ways (LLVM constant folding via `const`, run time via a local variable, reference interpreter); array-length and size-of templates against a layout model; words around their declared size (padding holes, E380 boundary)",
   text="Random UB-free constant expressions are emitted both as `const` and as a local initialiser and printed; arrays whose length is a named constant expression are passed by name, view, slice pointer, pointer-to-array, row, member and constant through two call levels with |x| printed everywhere; random structs/words print |:S|, |:[k]S| at run time and through constants. All printed values must equal each other and the reference model.",
   note="Trusted: reference interpreter and the C-layout model (integer alignment min(size,8)); under-filled words: only |:[N]W| == N*|:W| and member layout are asserted, not their acceptance."),
 "C11": dict(cat="exploration", sec="4 (C11)", technique="metamorphic testing under permutation of top-level declarations (with and without planted faults), random dependency graphs with planted cycles against a dependency/size model, exhaustive table of documented type/position cells, exhaustive type terms of depth <= 3 against the E350 rule, templated ill-formed declarations",
   text="Every generated program must get the same verdict, the same diagnostics and the same run-time behaviour (equal to the reference interpreter) in the generated, reversed and random orders of its top-level declarations; acyclic constant/structure graphs must be accepted with the modelled values and sizes, cyclic ones rejected with E413/E415/E416; every documented type/position cell and every kind of duplicate, over-filled word and non-constant array length must produce its documented code.",
   note="Trusted: reference interpreter, the dependency/size model in harness/src/c11.rs; cells the documentation does not settle are not asserted."),
 "C12": dict(cat="exploration", sec="4 (C12)", technique="metamorphic testing: generated programs split over 2-4 files with computed pub/import closure, compiled in many file orders and compared with the single-file reference interpreter; negative mutants (missing pub / import); exhaustive hand-shaped module sets for transitive imports of every item kind and for same-named files in two directories, in all file orders; compile histories through one Compiler compared with compile-alone IR",
   text="A split program must be accepted in every order of the file list and behave exactly like the single-file program; removing one needed `pub` or `import` (also when only transitively reachable) must be rejected with E401/E402/E405; a module's IR must be byte-identical whether it is compiled alone or after other unrelated modules.",
   note="Trusted: the dependency closure in harness/src/modsplit.rs and the reference interpreter."),
 "C13": dict(cat="exploration", sec="4 (C13)", technique="mutation- and grammar-based generation of rejected inputs (incl. multi-byte text, CRLF, EOF faults, planted characters, planted ill-formed declarations, planted faults inside expressions, type-breaking edits, module sets); per-diagnostic invariants (catalogue, location, covered text, renderability) and differential re-compilation in fresh processes for determinism",
   text="For every diagnostic of every generated rejected or lint-carrying input: its code is in the published catalogue, its primary location lies in a compiled file and starts on the reported line, name-carrying diagnostics cover exactly that name, a planted character is covered, the report renders in all four colour/charset configurations (no ESC without colour, ASCII with ascii arrows). On a sample, and on every multi-file case, two fresh processes must reproduce verdict, ordered diagnostics, locations, rendered text and all IR text byte for byte.",
   note="Catalogue = docs/errors.md headings (parsed live) + catalogue_extra.json (8 frozen codes). Crashing inputs are discarded and counted (C02's subject)."),
 "C14": dict(cat="exploration", sec="4 (C14)", technique="exhaustive small-scope + grammar-based generation, three-way differential (alpha lexer / delta lexer / independent reference lexer), choice-vector shrinking; thorough tier adds a coverage-guided libFuzzer campaign (fuzz_lexdiff, ASan) with the same oracle inside the target",
   text="Every string of length <= 3 (quick) / <= 4 (thorough) over a 48-symbol alphabet, plus generated token streams with generator-known expected tokens and planted malformed lexemes, are lexed by both real lexers and by an independent reference lexer; kinds, payloads, suffix types, byte spans, lines and error codes must agree. Held-on-everything-explored, exhaustive within the stated small scope.",
   note="Trusted: the reference lexer (harness/src/reflex.rs) as a reading of docs/errors.md; normalisations listed in the evidence assumptions."),
 "C15": dict(cat="exploration", sec="4 (C15)", technique="byte-level and grammar-based generated inputs (random bytes, mutated corpus, token soup, exhaustive token sequences, node-dense valid programs, giant lists) in crash-isolated workers with debug assertions and overflow checks; reference-lexer token oracle; thorough tier adds a coverage-guided libFuzzer campaign (fuzz_delta, ASan, debug assertions) with the same oracle inside the target",
   text="Generated byte strings of every kind (invalid UTF-8, NUL, extreme token density, 30k-element lists, sizes straddling the 65536-token heuristic) are pushed through lex -> parse -> errors -> build_header -> all XML dumps in isolated worker processes; any panic, abort or stack overflow is a failure keyed by site; the published token vector must equal the reference lexer's; valid-by-construction modules must be accepted (or E103 above the heuristic) and planted invalid lexemes rejected.",
   note="Exploration only: absence of crashes on the inputs run. E102 and the 2^24 token cap are out of reach; hangs are observed up to a watchdog (exit 2)."),
 "C16": dict(cat="exploration", sec="4 (C16)", technique="grammar-based generation of syntactically valid modules; differential comparison of canonical syntax terms built from the first-generation AST and from the second-generation XML dump (strict reader); exhaustive operator-pair table; corpus replay; thorough tier adds a coverage-guided libFuzzer campaign (fuzz_parsediff, ASan) over any text the first-generation parser accepts",
   text="Generated modules covering every documented production, decorated well-typed programs in random layouts, the repository corpus and all 100 operator pairs are parsed by both generations: the second-generation parser must accept what the first accepts, its XML dump must be balanced and free of MALFORMED nodes, and its canonical term must equal the first generation's (declarations, flags, names, types, statement order, operand order and associativity, nesting, literal values, address depths, reference steps).",
   note="Trusted: the canonical-term converters in harness/src/synterm.rs. Normalisations: literal spelling, folded minus on signed literals, `return:` placement, builtin `!`."),
 "C17": dict(cat="exploration", sec="4 (C17)", technique="exhaustive pub/private masks over a pool of declaration shapes + grammar-generated modules; round-trip oracle: header XML vs parse of the expected public-interface text",
   text="For every pub/private mask (n <= 8 quick, <= 10 thorough, all rotations of a 10-shape pool) and for random modules, build_header() must equal — as canonical terms — the parse of the module restricted to its pub declarations with `pub` cleared and bodies removed, have exactly as many declarations as there are pub ones, and contain no private declaration's name.",
   note="Modules not accepted by the second-generation parser are discarded (C16)."),
 "C18": dict(cat="exploration", sec="4 (C18)", technique="generated inputs x subcommand x option subsets run through the real binary in scratch directories, with generated recording backends; differential against the library API and the reference interpreter",
   text="The real penne binary is invoked on valid, faulted and multi-file inputs under random subcommands, verbosity/colour/charset/out-dir options and backend selections (flag, environment, config file, PATH default, real lli); exit status, the backend that ran and what it received, emitted .pn.ll files, the Output line and pass-through of program output, presence of diagnostics, absence of ESC with --color=never and ASCII-only output with --arrows=ascii are all checked.",
   note="The library API on the same files defines the expected compilation outcome; inputs failing without diagnostics are discarded (C02)."),
 "C19": dict(cat="exploration", sec="4 (C19)", technique="seeded generation of the unit under test (hook H1) checked against two real lexers and a reference lexer; CLI runs of `penne fuzz tokens`",
   text="fill_to_capacity_with_tokens(95, ..) is run for kb in 1..=64 under runner-drawn RNG seeds, and through the real binary; every output must be valid UTF-8 of >= 1000*kb bytes with zero lexical errors for the alpha lexer, the delta lexer and the reference lexer.",
   note="Library runs replace rand::rng() by a seeded StdRng through the cfg(penne_verif) hook; the sampled distributions are those of the code under test."),
 "C20": dict(cat="exploration", sec="4 (C20)", technique="grammar-generated builtin-free modules and corpus files through parse -> rebuild -> parse -> rebuild; tree equality modulo locations and literal spelling; byte-identical second rebuild; thorough tier adds a coverage-guided libFuzzer campaign (fuzz_roundtrip, ASan) over any builtin-free text that parses",
   text="t1 = parse(src); r1 = rebuild(t1); t2 = parse(r1) must be error-free with canon(t1) == canon(t2), and rebuild(t2) must equal r1 byte for byte, for generated modules with and without structures and for every builtin-free corpus file.",
   note="Recorded findings: structures and structure-typed names are rebuilt with '#' markers; the structure-free class continues the search behind them."),
}
NOT_YET = "check not built yet in this revision of the framework (planned in DESIGN.md section 4)"
hooks_commits = subprocess.run(["git", "-C", "/repo", "log", "--format=%H %s"], capture_output=True, text=True).stdout.splitlines()
hook_shas = [l.split()[0] for l in hooks_commits if "verif hook" in l]
m = {
 "version": 1,
 "setup_cmd": "./check --setup",
 "hooks": {
   "guard": "--cfg penne_verif",
   "enable": "RUSTFLAGS=\"--cfg penne_verif\" (set by ./check; the harness crate depends on /repo by path with features alpha,llvm-sys, so every check rebuilds penne from /repo's working tree)",
   "baseline_off_cmd": "python3 /verif/tools/baseline.py",
   "source_commits": hook_shas,
   "add_only": True,
 },
 "engines": [
   {"name": "pv", "path": "harness/", "serves_properties": sorted(CHECKS), "kind_free_text": "Rust harness: proptest-generated choice vectors decoded into programs/inputs, exhaustive small-scope enumerations, reference models and differential oracles; batch worker subprocesses with crash isolation; proptest value-tree shrinking; replay files"},
 ],
 "checks": [],
 "not_applicable": [],
 "notes": "exit 0 = held on everything explored (KNOWN-FINDING lines for entries of known_findings.json), exit 1 = VIOLATION lines, exit 2 = inconclusive (build failure / watchdog).",
}
for pid in ALL:
    if pid in CHECKS:
        c = CHECKS[pid]
        m["checks"].append({
          "property_id": pid,
          "quick_cmd": "./check %s quick" % pid,
          "thorough_cmd": "./check %s thorough" % pid,
          "evidence_file": "/verif/evidence/%s.json" % pid,
          "replay_cmd_template": "./check %s --replay {path}" % pid,
          "engine": "pv",
          "level_claimed": {"category": c["cat"], "text": c["text"], "design_ref": c["sec"]},
          "level_note": c["note"],
          "technique": c["technique"],
        })
    else:
        m["not_applicable"].append({"property_id": pid, "reason": NOT_YET})
json.dump(m, open(os.path.join(ROOT, "MANIFEST.json"), "w"), indent=1)
print("checks:", len(m["checks"]), "not_applicable:", len(m["not_applicable"]))
