#!/bin/bash
# usage: tools/confirm_mutant.sh <worktree> <mutant-dir>     (development aid)
# Confirms in a scratch worktree that a seeded change applies, builds with and
# without the first-generation compiler, keeps the pinned tests green, and
# changes the behaviour on its demonstration inputs. Writes <mutant-dir>/confirm.log.
WT="$1"; M="$2"
export PATH=/verif/tools/llvm-prefix/bin:$PATH CARGO_NET_OFFLINE=true
unset RUSTFLAGS
LOG="$M/confirm.log"; : > "$LOG"
cd "$WT" || exit 2
git checkout -q -- . ; git apply --check "$M/patch.diff" || { echo "patch does not apply" | tee -a "$LOG"; exit 1; }
git apply "$M/patch.diff"
echo "== files: $(git diff --stat | tail -1)" >> "$LOG"
CARGO_TARGET_DIR="$WT/target" python3 /verif/tools/worktree_tests.py "$WT" >> "$LOG" 2>&1; T=$?
echo "== tests exit $T" >> "$LOG"
CARGO_TARGET_DIR="$WT/target/alpha" cargo build -q --offline --features alpha,llvm-sys >> "$LOG" 2>&1; B=$?
echo "== alpha build exit $B" >> "$LOG"
D=0
for f in $(find "$M/demo" -name '*.pn' | sort); do
	for mode in run; do
		P=$(cd "$(dirname "$f")" && NO_COLOR=1 timeout 60 /verif/target/penne-bin/release/penne $mode "$(basename "$f")" 2>&1 | sed 's/\x1b\[[0-9;]*m//g' | grep -v "^\s*[0-9]*: \|at src/\|RUST_BACKTRACE" | head -30)
		Q=$(cd "$(dirname "$f")" && NO_COLOR=1 timeout 60 "$WT/target/alpha/debug/penne" $mode "$(basename "$f")" 2>&1 | sed 's/\x1b\[[0-9;]*m//g' | grep -v "^\s*[0-9]*: \|at src/\|RUST_BACKTRACE" | head -30)
		if [ "$P" != "$Q" ]; then
			D=$((D+1))
			{ echo "== DIFFERS on $f"; echo "-- pristine:"; echo "$P" | head -12; echo "-- changed:"; echo "$Q" | head -12; } >> "$LOG"
		else
			echo "== same on $f" >> "$LOG"
		fi
	done
done
echo "== demo inputs with different behaviour: $D" >> "$LOG"
git checkout -q -- .
echo "tests=$T alpha_build=$B demos_differ=$D"
