#!/usr/bin/env python3
"""Development aid: run the penne binary built with the first-generation compiler
(/verif/target/penne-bin) on every sample for which the maintainers' (disabled)
test files state the expected error codes, and report agreement.
usage: alpha_expectations.py [--save file | --compare file]"""
import re, subprocess, sys, glob, json, os
exp = {}
for t in glob.glob('/repo/tests/*.rs'):
    s = open(t).read()
    for m in re.finditer(r'compile_to_fail\(\s*&\[([0-9, \n\t]*)\],\s*"([^"]+)"', s):
        codes = [int(x) for x in re.findall(r'\d+', m.group(1))]
        exp[m.group(2)] = codes
res = {}
for f, codes in sorted(exp.items()):
    p = subprocess.run(['/verif/target/penne-bin/release/penne', 'emit', '--out-dir', '/tmp/alpha-exp-out', f], cwd='/repo',
                       stdout=subprocess.PIPE, stderr=subprocess.STDOUT, text=True, env=dict(os.environ, NO_COLOR='1'), timeout=60)
    got = [int(x) for x in re.findall(r'\[E(\d+)\]', re.sub(r'\x1b\[[0-9;]*m', '', p.stdout))]
    res[f] = {'expected': codes, 'got': got, 'exit': p.returncode}
agree = sum(1 for r in res.values() if sorted(r['expected']) == sorted(r['got']))
print('%d samples, %d agree with the maintainers\' expected codes' % (len(res), agree))
if len(sys.argv) > 2 and sys.argv[1] == '--save':
    json.dump(res, open(sys.argv[2], 'w'), indent=1)
if len(sys.argv) > 2 and sys.argv[1] == '--compare':
    old = json.load(open(sys.argv[2]))
    for f in sorted(res):
        if old.get(f, {}).get('got') != res[f]['got'] or old.get(f, {}).get('exit') != res[f]['exit']:
            print('CHANGED', f, 'expected', res[f]['expected'], 'before', old.get(f, {}).get('got'), old.get(f, {}).get('exit'), 'now', res[f]['got'], res[f]['exit'])
