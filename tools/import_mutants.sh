#!/bin/bash
# usage: tools/import_mutants.sh <out-dir> <offset> <ID>...   copy confirmed seeded changes from <out-dir>/<ID>/<k>
# into /verif/seeded/<ID>-<k+offset> (development aid)
OUT="$1"; OFF="$2"; shift 2
for id in "$@"; do for k in 1 2 3; do
	src=$OUT/$id/$k; [ -f "$src/patch.diff" ] || continue
	dst=/verif/seeded/$id-$((k+OFF)); mkdir -p "$dst/demo"
	cp "$src/patch.diff" "$dst/"; cp "$src/confirm.log" "$dst/" 2>/dev/null
	# demonstration: sources and notes only (no binaries, no build output)
	( cd "$src/demo" 2>/dev/null && find . -type f -size -200k \( -name '*.pn' -o -name '*.md' -o -name '*.sh' -o -name '*.txt' -o -name '*.ll' -o -name '*.log' -o -name '*.toml' -o -name '*.out' \) | while read f; do mkdir -p "$dst/demo/$(dirname "$f")"; cp "$f" "$dst/demo/$f"; done )
	cp "$src/meta.json" "$dst/agent_meta.json"
done; done
