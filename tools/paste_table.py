#!/usr/bin/env python3
"""Replace the sensitivity table of DESIGN.md section 12 by the output of tools/mkseeded.py (development aid)."""
import subprocess, re
table = subprocess.run(['python3', '/verif/tools/mkseeded.py'], capture_output=True, text=True).stdout.strip()
s = open('/verif/DESIGN.md').read()
i = s.index('| change | file | what it does |')
j = s.index('\n## Appendix A', i)
s = s[:i] + table + '\n' + s[j:]
open('/verif/DESIGN.md', 'w').write(s)
print(table.count('\n| C') + 1, 'rows')
