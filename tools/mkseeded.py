#!/usr/bin/env python3
"""Compose /verif/seeded/<name>/meta.json from the sub-agent's notes, the
confirmation log and the logs of the checks run against the change, and print
the sensitivity table for DESIGN.md (development aid)."""
import json, os, re, glob, sys
root = '/verif/seeded'
rows = []
for name in sorted(os.listdir(root), key=lambda n: (n.split('-')[0], int(n.split('-')[1]) if '-' in n and n.split('-')[1].isdigit() else 0)):
    d = os.path.join(root, name)
    if not os.path.isfile(os.path.join(d, 'patch.diff')):
        continue
    am = {}
    try:
        am = json.load(open(os.path.join(d, 'agent_meta.json')))
    except Exception:
        pass
    confirm = open(os.path.join(d, 'confirm.log'), errors='replace').read() if os.path.exists(os.path.join(d, 'confirm.log')) else ''
    tests = re.search(r'baseline: (\d+)/(\d+)', confirm)
    demos = re.search(r'demo inputs with different behaviour: (\d+)', confirm)
    runs = {}
    for f in sorted(glob.glob(os.path.join(d, 'run-*.log'))):
        cid = os.path.basename(f)[4:-4]
        text = open(f, errors='replace').read()
        sigs = re.findall(r'new failure signature: (.*?) \(', text)
        last = [l for l in text.splitlines() if l.startswith('[' + cid + '] tier=')]
        runs[cid] = {
            'violations': len(re.findall(r'^VIOLATION', text, flags=re.M)),
            'signatures': sigs[:6],
            'summary': last[-1] if last else text.strip().splitlines()[-1] if text.strip() else '',
        }
    files = re.findall(r'^\+\+\+ b/(\S+)', open(os.path.join(d, 'patch.diff')).read(), flags=re.M)
    meta = {
        'property': am.get('property', name.split('-')[0]),
        'summary': am.get('summary', ''),
        'needs_to_manifest': am.get('needs', ''),
        'files_touched': files,
        'origin': 'proposed by a sub-agent that saw only the property text and a scratch worktree' + (' (round %d: it was also told the summaries of the earlier changes for this property, to avoid repeats)' % (2 if int(name.split('-')[1]) <= 6 else 3 if int(name.split('-')[1]) <= 8 else 4) if int(name.split('-')[1]) > 3 else ''),
        'confirmed': {
            'how': 'tools/confirm_mutant.sh in a scratch worktree under /tmp: git apply; pinned test suite (default features); cargo build --features alpha,llvm-sys; `penne run` of every demo/*.pn with the pristine and the changed binary',
            'pinned_tests': '%s/%s' % (tests.group(1), tests.group(2)) if tests else None,
            'builds_with_alpha': '== alpha build exit 0' in confirm,
            'demo_inputs_behaving_differently': int(demos.group(1)) if demos else None,
        },
        'checks_run': {
            'how': 'tools/run_mutant.sh: git -C /repo apply patch.diff; ./check <ID> quick (VERIF_SEED=0); git -C /repo checkout -- .',
            'results': runs,
        },
    }
    json.dump(meta, open(os.path.join(d, 'meta.json'), 'w'), indent=1)
    caught = [c for c, r in runs.items() if r['violations'] > 0]
    missed = [c for c, r in runs.items() if r['violations'] == 0]
    inconclusive = [c for c, r in runs.items() if r['violations'] == 0 and 'timeouts=0' not in r['summary'] and 'timeouts=' in r['summary']]
    first = ''
    for c in caught:
        if runs[c]['signatures']:
            first = runs[c]['signatures'][0]
            break
    summ = (am.get('summary', '') or '').replace('|', '/').replace('\n', ' ')
    summ = re.sub(r'\s+', ' ', summ)
    verdict = ', '.join(caught) if caught else ('inconclusive (watchdog, exit 2): ' + ', '.join(inconclusive) if inconclusive else 'missed by ' + ', '.join(missed))
    own = name.split('-')[0]
    note = first[:100].replace('|', '/')
    if caught and own not in caught:
        note = ('not by %s itself (the change is in the command line tool); ' if name in ('C03-4', 'C03-7', 'C13-4') else 'not by %s itself (it shows only when several modules go through one compiler, which is C12\'s subject); ') % own + note
    rows.append('| %s | %s | %s | %s | %s |' % (name, ', '.join(files).replace('src/', ''), summ[:170], verdict, note))
print('| change | file | what it does | caught by (quick tier) | first signature / note |')
print('|---|---|---|---|---|')
print('\n'.join(rows))
