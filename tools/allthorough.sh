#!/bin/bash
# usage: tools/allthorough.sh [ID...]   run thorough tiers one after another (development aid)
cd "$(dirname "$0")/.."
ids="$@"; [ -z "$ids" ] && ids="C01 C02 C03 C04 C05 C06 C07 C08 C09 C10 C11 C12 C13 C14 C15 C16 C17 C18 C19 C20"
for id in $ids; do
	t0=$(date +%s)
	out=$(VERIF_SEED=${VERIF_SEED:-0} ./check $id thorough 2>&1)
	code=$?
	echo "exit=$code secs=$(( $(date +%s) - t0 )) $(echo "$out" | grep "^\[$id\] tier" | tail -1)"
	echo "$out" | grep "new failure signature\|watchdog\|does not build\|inconclusive" | head -8
	mkdir -p thorough-out; cp evidence/$id.json thorough-out/$id.json 2>/dev/null; cp -r replays/$id thorough-out/replays-$id 2>/dev/null
done
