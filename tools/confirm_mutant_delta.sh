#!/bin/bash
# usage: tools/confirm_mutant_delta.sh <worktree> <mutant-dir>     (development aid)
# Like confirm_mutant.sh, for changes to the second-generation front end (set
# PRISTINE_DELTA to a penne binary built from the unchanged tree with --features delta): the
# demonstration inputs are run through `penne emit -v` of a pristine and a
# changed binary built with --features delta.
WT="$1"; M="$2"
export PATH=/verif/tools/llvm-prefix/bin:$PATH CARGO_NET_OFFLINE=true
unset RUSTFLAGS
LOG="$M/confirm.log"; : > "$LOG"
cd "$WT" || exit 2
git checkout -q -- . ; git apply --check "$M/patch.diff" || { echo "patch does not apply" | tee -a "$LOG"; exit 1; }
git apply "$M/patch.diff"
echo "== files: $(git diff --stat | tail -1)" >> "$LOG"
CARGO_TARGET_DIR="$WT/target" python3 /verif/tools/worktree_tests.py "$WT" >> "$LOG" 2>&1; T=$?
echo "== tests exit $T" >> "$LOG"
CARGO_TARGET_DIR="$WT/target/alpha" cargo build -q --offline --features alpha,llvm-sys >> "$LOG" 2>&1; B=$?
echo "== alpha build exit $B" >> "$LOG"
CARGO_TARGET_DIR="$WT/target/delta" cargo build -q --offline --features delta >> "$LOG" 2>&1
D=0
for f in $(find "$M/demo" -name '*.pn' | sort); do
	P=$(cd "$(dirname "$f")" && timeout 60 ${PRISTINE_DELTA:-/tmp/mut/pristine-delta/debug/penne} emit -v --color never --arrows ascii "$(basename "$f")" 2>&1 | grep -v "^\s*[0-9]*: \|at src/\|RUST_BACKTRACE" | head -400)
	Q=$(cd "$(dirname "$f")" && timeout 60 "$WT/target/delta/debug/penne" emit -v --color never --arrows ascii "$(basename "$f")" 2>&1 | grep -v "^\s*[0-9]*: \|at src/\|RUST_BACKTRACE" | head -400)
	if [ "$P" != "$Q" ]; then
		D=$((D+1))
		{ echo "== DIFFERS on $f"; diff <(echo "$P") <(echo "$Q") | head -20; } >> "$LOG"
	else
		echo "== same on $f" >> "$LOG"
	fi
done
echo "== demo inputs with different behaviour: $D" >> "$LOG"
git checkout -q -- .
echo "tests=$T alpha_build=$B demos_differ=$D"
