#!/bin/bash
# usage: tools/saturate.sh <ID> <tier> <seed>...   (development aid)
# Runs one check under many seeds and collects every new failure signature
# with its replay file under saturate-out/<ID>/seed-<n>/.
ROOT="$(cd "$(dirname "$0")/.." && pwd)"
ID="$1"; TIER="$2"; shift 2
OUT="$ROOT/saturate-out/$ID"
mkdir -p "$OUT"
for s in "$@"; do
	rm -rf "$ROOT/replays/$ID"
	VERIF_SEED=$s "$ROOT/check" "$ID" "$TIER" > "$OUT/seed-$s.log" 2>&1
	echo "seed $s exit $?" >> "$OUT/summary.txt"
	grep "new failure signature" "$OUT/seed-$s.log" >> "$OUT/summary.txt"
	if [ -d "$ROOT/replays/$ID" ]; then
		mkdir -p "$OUT/seed-$s"
		cp "$ROOT/replays/$ID"/*.json "$OUT/seed-$s/" 2>/dev/null
	fi
done
